"""C19 end-to-end line: generated Python programs under the real `uftrace record`.

Every generated function logs its own entry and exit with `c19lib.LOG += [...]` (an in-place list
add: no call, no profile event, independent of sys.setprofile); C builtins are logged at their
call sites.  The program writes the log itself (c19lib.q_dump) before it ends.  The same program
runs natively and under `uftrace record` (three libcall modes, -F/-N sets):
  * stdout and the script's exit status (uftrace info) must be equal,
  * `uftrace replay` must be exactly the forest `select` (Coq) predicts from the program's log,
  * the model automaton + shadow stack must give the same entries (correspondence).
sitecustomize.py pre-imports the helper modules so that no import machinery runs under the profiler.
"""
import json
import os
import re
import shutil
import sys
import time

from vf import coq
from vf.core import REPO, sh


LIB_PREFIX = ("c19lib.", "builtins.", "posix.", "math.", "sys.", "generator.", "uftrace_python.", "traceback.", "importlib.", "c19cw.")
OPAQUE = ("c19lib.q_dump", "traceback.print_exc")     # library functions whose inside is not logged

C19LIB = '''import os
LOG = []
def q_l1(f, x):
    global LOG
    LOG += ['E c19lib.q_l1']
    try:
        return q_l2(f, x)
    finally:
        LOG += ['X c19lib.q_l1']
def q_l2(f, x):
    global LOG
    LOG += ['E c19lib.q_l2']
    try:
        return f(x)
    finally:
        LOG += ['X c19lib.q_l2']
def q_lraise(f, x):
    global LOG
    LOG += ['E c19lib.q_lraise']
    try:
        f(x)
        raise ValueError(x)
    finally:
        LOG += ['X c19lib.q_lraise']
def q_lplain(x):
    global LOG
    LOG += ['E c19lib.q_lplain', 'X c19lib.q_lplain']
    return x
def q_lgen(f, x):
    global LOG
    LOG += ['E c19lib.q_lgen']
    try:
        for v in (1, 2):
            LOG += ['X c19lib.q_lgen']
            try:
                yield v
            finally:
                LOG += ['E c19lib.q_lgen']
            f(x)
    finally:
        LOG += ['X c19lib.q_lgen']
def q_dump(path):
    global LOG
    LOG += ['E c19lib.q_dump', 'X c19lib.q_dump']
    fd = os.open(path, os.O_WRONLY | os.O_CREAT | os.O_TRUNC, 0o644)
    os.write(fd, '\\n'.join(LOG).encode())
    os.close(fd)
'''

C19MOD = '''import c19lib
def q_g(f, x):
    c19lib.LOG += ['E c19mod.q_g']
    try:
        return f(x)
    finally:
        c19lib.LOG += ['X c19mod.q_g']
'''

# a module next to the script, and a module of the same name in a directory that PYTHONPATH lists earlier
C19SIB = "import c19lib\nc19lib.LOG += ['E c19sib.<module>', 'X c19sib.<module>']\nWHO = 'the module next to the script'\ndef q_s(x):\n    c19lib.LOG += ['E c19sib.q_s', 'X c19sib.q_s']\n    return x + 1\n"
C19SIB_SHADOW = "import c19lib\nc19lib.LOG += ['E c19sib.<module>', 'X c19sib.<module>']\nWHO = 'a module of the same name elsewhere on sys.path'\ndef q_s(x):\n    c19lib.LOG += ['E c19sib.q_s', 'X c19sib.q_s']\n    return x - 1\n"

# a module on PYTHONPATH, and a module of the same name in the current directory (which is not on the path of a plain run)
C19CW = "import c19lib\nc19lib.LOG += ['E c19cw.<module>', 'X c19cw.<module>']\nWHO = 'the module PYTHONPATH names'\n"
C19CW_CWD = "import c19lib\nc19lib.LOG += ['E c19cw.<module>', 'X c19cw.<module>']\nWHO = 'a module that happens to lie in the current directory'\n"

SITE = "import os, sys, math, traceback, linecache\nimport c19lib\nimport c19mod\n"


# --------------------------------------------------------------------------- program generator
class Gen:
    def __init__(self, rng):
        self.rng = rng
        self.lines = []
        self.tags = set()
        self.dyn = 0

    def emit(self, ind, s):
        self.lines.append("    " * ind + s)

    def logged(self, ind, name, stmt):
        """a C builtin call site with its own log entries"""
        self.emit(ind, "c19lib.LOG += ['E %s']" % name)
        self.emit(ind, "try:")
        self.emit(ind + 1, stmt)
        self.emit(ind, "finally:")
        self.emit(ind + 1, "c19lib.LOG += ['X %s']" % name)

    def guarded(self, ind, j, raisers, stmt_fn):
        """a call whose callee may raise: catch here or let it propagate"""
        if j in raisers and self.rng.random() < 0.7:
            self.tags.add("exception-caught")
            self.emit(ind, "try:")
            stmt_fn(ind + 1)
            self.emit(ind, "except (KeyError, ValueError):")
            self.emit(ind + 1, "pass")
        else:
            if j in raisers:
                self.tags.add("exception-propagates")
            stmt_fn(ind)

    def action(self, ind, i, nfun, raisers, gens, qual=None):
        """one statement group inside function i; callees have a larger index"""
        rng = self.rng
        later = list(range(i + 1, nfun))
        plain = [j for j in later if j not in gens]
        glist = [j for j in later if j in gens]
        k = rng.randrange(19)
        if not plain:
            k = rng.choice([1, 2, 6])
        if k in (0, 7, 12) or (k == 10 and not glist):
            j = rng.choice(plain)
            self.guarded(ind, j, raisers, lambda n: self.emit(n, "q_f%d(d)" % j))
        elif k == 1:
            nm, st = rng.choice([("builtins.abs", "abs(-1)"), ("builtins.len", "len('ab')"), ("posix.getpid", "os.getpid()")])
            self.logged(ind, nm, st)
            self.tags.add("builtin-leaf")
        elif k == 2:
            self.emit(ind, "try:")
            self.logged(ind + 1, "math.sqrt", "math.sqrt(-1)")
            self.emit(ind, "except ValueError:")
            self.emit(ind + 1, "pass")
            self.tags.add("c_exception")
        elif k == 3:
            j = rng.choice(plain)
            nm, st = rng.choice([("builtins.sorted", "sorted([d, d], key=q_f%d)" % j), ("builtins.max", "max([d], key=q_f%d)" % j),
                                 ("builtins.max", "max([d, d], key=q_f%d)" % j)])
            self.guarded(ind, j, raisers, lambda n: self.logged(n, nm, st))
            self.tags.add("callback-from-builtin")
        elif k == 4:
            j = rng.choice(plain)
            self.guarded(ind, j, raisers, lambda n: self.emit(n, "list(map(q_f%d, [d]))" % j))
            self.tags.add("callback-from-type")
        elif k == 5:
            j = rng.choice(plain)
            self.guarded(ind, j, raisers, lambda n: self.emit(n, "c19lib.q_l1(q_f%d, d)" % j))
            self.tags.add("callback-from-pylib")
        elif k == 6:
            self.emit(ind, "c19lib.q_lplain(d)")
            self.tags.add("pylib-leaf")
        elif k == 8:
            j = rng.choice(plain)
            self.guarded(ind, j, raisers, lambda n: self.emit(n, "c19mod.q_g(q_f%d, d)" % j))
            self.tags.add("maindir-module")
        elif k == 9:
            j = rng.choice(plain)
            self.emit(ind, "try:")
            self.emit(ind + 1, "c19lib.q_lraise(q_f%d, d)" % j)
            self.emit(ind, "except (KeyError, ValueError):")
            self.emit(ind + 1, "pass")
            self.tags.add("pylib-raises")
        elif k == 10:
            j = rng.choice(glist)
            if rng.random() < 0.6:
                self.emit(ind, "for _v in q_f%d(d):" % j)
                self.emit(ind + 1, "pass")
                self.tags.add("generator-exhausted")
            else:
                self.emit(ind, "_g = q_f%d(d)" % j)
                self.logged(ind, "builtins.next", "next(_g)")
                self.logged(ind, "generator.close", "_g.close()")
                self.tags.add("generator-closed")
        elif k == 13 and glist:
            # generator.throw(): the exception is raised at the yield, runs the finally blocks and comes back
            j = rng.choice(glist)
            self.emit(ind, "_g = q_f%d(d)" % j)
            self.logged(ind, "builtins.next", "next(_g)")
            self.emit(ind, "try:")
            self.logged(ind + 1, "generator.throw", "_g.throw(KeyError(d))")
            self.emit(ind, "except KeyError:")
            self.emit(ind + 1, "pass")
            self.tags.add("generator-throw")
        elif k == 14 and glist:
            j = rng.choice(glist)
            self.emit(ind, "_g = q_f%d(d)" % j)
            self.logged(ind, "builtins.next", "next(_g)")
            self.logged(ind, "generator.send", "_g.send(d)")
            self.logged(ind, "generator.close", "_g.close()")
            self.tags.add("generator-send")
        elif k == 15 and qual:
            # a list comprehension is a function of its own in CPython 3.11; it runs exactly here
            j = rng.choice(plain)
            self.guarded(ind, j, raisers, lambda n: self.logged(n, qual + ".<locals>.<listcomp>", "[q_f%d(d) for _i in (1, 2)]" % j))
            self.tags.add("listcomp")
        elif k == 16 and qual:
            j = rng.choice(plain)
            self.guarded(ind, j, raisers, lambda n: self.logged(n, qual + ".<locals>.<lambda>", "(lambda _x: q_f%d(_x))(d)" % j))
            self.tags.add("lambda")
        elif k in (17, 18):
            # functions made at run time with compile()/exec() and dropped again (rule/template engines, plugin
            # loaders): their code objects die and the next ones are born at the same addresses; a function is
            # identified by its name, whatever object carries it
            self.dyn += 1
            names = ["q_dy%d_%s" % (self.dyn, c) for c in "abc"[:rng.choice([2, 3])]]
            self.emit(ind, "for _n in %r:" % (tuple(names),))
            self.emit(ind + 1, "_ns = {'c19lib': c19lib, '__name__': '__main__'}")
            self.logged(ind + 1, "builtins.compile", "_co = compile(DYN_SRC % (_n, _n, _n), '<dyn>', 'exec')")
            self.logged(ind + 1, "builtins.exec", "exec(_co, _ns)")
            self.emit(ind + 1, "_fn = _ns[_n]")
            self.emit(ind + 1, "del _ns[_n]")        # no cycle function -> globals -> function: it dies at once
            self.emit(ind + 1, "_fn(d)")
            self.emit(ind + 1, "del _fn, _ns, _co")
            self.tags.add("functions-made-at-run-time")
        elif k in (13, 14, 15, 16):
            j = rng.choice(plain)
            self.guarded(ind, j, raisers, lambda n: self.emit(n, "q_f%d(d)" % j))
        else:   # 11
            j = rng.choice(plain)
            self.guarded(ind, j, raisers, lambda n: (self.emit(n, "for _v in c19lib.q_lgen(q_f%d, d):" % j), self.emit(n + 1, "pass")))
            self.tags.add("pylib-generator")

    def program(self):
        rng = self.rng
        nfun = rng.randrange(4, 9)
        raisers = set(j for j in range(2, nfun) if rng.random() < 0.25)
        gens = set(j for j in range(2, nfun) if j not in raisers and rng.random() < 0.25)
        ending = rng.choice(["normal", "normal", "normal", "sys.exit", "os._exit", "SystemExit", "uncaught"])
        end_fn = rng.randrange(0, min(3, nfun)) if ending in ("sys.exit", "os._exit") else None
        self.tags.add("ending:" + ending)
        L = self.lines
        L += ["#!/usr/bin/env python3", "import os, sys, math", "import c19lib", "import c19mod", "",
              'DYN_SRC = ("c19lib.LOG += [\'E __main__.<module>\']\\ndef %s(d):\\n    c19lib.LOG += [\'E %s\']\\n"',
              '           "    c19lib.LOG += [\'X %s\']\\n    return d\\nc19lib.LOG += [\'X __main__.<module>\']\\n")', ""]
        style, names = {}, {}
        for j in range(nfun):
            style[j] = rng.choice(["plain", "plain", "plain", "method", "closure"]) if j >= 1 and j not in gens else "plain"
            names[j] = {"method": "Q_K%d.q_m" % j, "closure": "q_mk%d.<locals>.q_in" % j, "plain": "q_f%d" % j}[style[j]]
        rec_fn = rng.choice([None] + [j for j in range(1, nfun) if j not in gens and style[j] == "plain"])
        for j in reversed(range(nfun)):
            qual = names[j]
            if style[j] == "method":
                self.emit(0, "c19lib.LOG += ['E builtins.__build_class__']")
                self.emit(0, "class Q_K%d:" % j)
                self.emit(1, "c19lib.LOG += ['E Q_K%d', 'X Q_K%d']" % (j, j))
                self.emit(1, "def __init__(self):")
                self.emit(2, "c19lib.LOG += ['E Q_K%d.__init__', 'X Q_K%d.__init__']" % (j, j))
                self.emit(1, "def q_m(self, d):")
                ind = 2
                self.tags.add("method")
            elif style[j] == "closure":
                self.emit(0, "def q_mk%d():" % j)
                self.emit(1, "c19lib.LOG += ['E q_mk%d']" % j)
                self.emit(1, "def q_in(d):")
                ind = 2
                self.tags.add("closure")
            else:
                self.emit(0, "def q_f%d(d):" % j)
                ind = 1
            self.emit(ind, "c19lib.LOG += ['E %s']" % qual)
            self.emit(ind, "try:")
            b = ind + 1
            if j in gens:
                self.emit(b, "for _i in (1, 2):")
                self.emit(b + 1, "c19lib.LOG += ['X %s']" % qual)
                self.emit(b + 1, "try:")
                self.emit(b + 2, "yield _i")
                self.emit(b + 1, "finally:")
                self.emit(b + 2, "c19lib.LOG += ['E %s']" % qual)
                if j + 1 < nfun and rng.random() < 0.5:
                    self.action(b + 1, j, nfun, raisers, gens, qual)
            else:
                if j == rec_fn:
                    back = rng.choice([j, j] + [i for i in range(1, j) if i not in gens])
                    self.emit(b, "if d > 0:")
                    self.emit(b + 1, "q_f%d(d - 1)" % back)
                    self.tags.add("recursion" if back == j else "mutual-recursion")
                for _ in range(rng.choice([1, 1, 2, 3] if j < 3 else [0, 1, 1, 2]) if j + 1 < nfun else 0):
                    self.action(b, j, nfun, raisers, gens, qual)
                if j == end_fn:
                    # the dump must be the last thing in the log, so print first
                    self.logged(b, "builtins.print", "print('ending', d)")
                    self.emit(b, "c19lib.q_dump(sys.argv[1])")
                    self.emit(b, "sys.exit(3)" if ending == "sys.exit" else "os._exit(4)")
                if j in raisers:
                    self.emit(b, "raise KeyError(d)")
                else:
                    self.emit(b, "return d")
            self.emit(ind, "finally:")
            self.emit(ind + 1, "c19lib.LOG += ['X %s']" % qual)
            if style[j] == "method":
                self.emit(0, "c19lib.LOG += ['X builtins.__build_class__']")
                self.emit(0, "def q_f%d(d):" % j)          # thin forwarder keeps call sites uniform
                self.emit(1, "c19lib.LOG += ['E q_f%d']" % j)
                self.emit(1, "try:")
                self.emit(2, "return Q_K%d().q_m(d)" % j)
                self.emit(1, "finally:")
                self.emit(2, "c19lib.LOG += ['X q_f%d']" % j)
            elif style[j] == "closure":
                self.emit(1, "c19lib.LOG += ['X q_mk%d']" % j)
                self.emit(1, "return q_in")
                self.emit(0, "q_f%d = q_mk%d()" % (j, j))
            self.emit(0, "")
        # module level
        self.emit(0, "try:")
        for _ in range(rng.choice([1, 1, 2])):
            self.emit(1, "q_f%d(%d)" % (rng.choice([0, 0, 1]), rng.choice([0, 1, 2])))
        self.emit(0, "except (KeyError, ValueError):")
        self.emit(1, "pass")
        self.logged(0, "builtins.print", "print('done')")
        self.emit(0, "c19lib.q_dump(sys.argv[1])")
        if ending == "SystemExit":
            self.emit(0, "raise SystemExit(5)")
        if ending == "uncaught":
            self.emit(0, "raise RuntimeError('uncaught: the interpreter prints the traceback of the script')")
        fnames = sorted(set(names.values()) | set("q_f%d" % j for j in range(nfun) if style[j] == "method")
                        | set("Q_K%d.__init__" % j for j in range(nfun) if style[j] == "method"))
        return "\n".join(L) + "\n", ending, fnames


def gen_program(rng):
    g = Gen(rng)
    src, ending, fnames = g.program()
    return {"src": src, "ending": ending, "fnames": fnames, "tags": sorted(g.tags)}


def gen_options(rng, prog, allow_mixed, logged, plain_lib=None):
    """(libcall option, [-F/-N patterns as UFTRACE_FILTER elements], --match type); patterns name calls that happened"""
    if plain_lib:
        return plain_lib, None, None
    lib = rng.choice(["NONE", "SINGLE", "SINGLE", "NESTED", "NESTED"])
    # (not math.sqrt: as a regex it matches the native symbol math_sqrt, see finding native-symbol-filter)
    cand = [n for n in logged if n.startswith(("q_", "Q_K", "c19lib.q_l", "c19mod.")) or n in ("builtins.sorted", "posix.getpid", "builtins.max")]
    if not cand:
        return lib, None, None
    patt = rng.choice([None, None, "glob", "simple"])
    kind = rng.choice(["F", "N", "FN"] if allow_mixed else ["F", "N"])
    env = []
    for j in range(rng.choice([1, 1, 2])):
        n = rng.choice(cand)
        # patterns must not match native symbols of the interpreter (libmcount applies the same filter to
        # them, see finding native-symbol-filter): library names only whole, user names whole or by prefix
        if patt == "simple":
            p = n
        elif patt == "glob":
            user = not (n.startswith(LIB_PREFIX) or n.startswith("c19mod."))
            p = rng.choice([n, n[:4] + "*", n[:3] + "?" + n[4:], n[:2] + "*" + n[-2:]]) if user else rng.choice([n, n[:-1] + "?"])
        elif n.startswith(LIB_PREFIX) or n.startswith("c19mod."):
            p = rng.choice([n, "^" + n + "$"])
        else:
            p = rng.choice([n, n, "^" + n + "$", "^" + n[:5], "^" + n[:3]])
        out = kind == "N" or (kind == "FN" and j == 1)
        env.append(("!" if out else "") + p)
    if kind == "FN" and len(env) == 1:
        env.append("!" + rng.choice(cand))
    return lib, env, patt


# --------------------------------------------------------------------------- running
class World:
    def __init__(self, ctx, objdir):
        self.ctx, self.objdir = ctx, objdir
        self.root = os.path.join(ctx.scratch, "e2e")
        for d in ("lib", "site", "main"):
            os.makedirs(os.path.join(self.root, d), exist_ok=True)
        open(os.path.join(self.root, "lib/c19lib.py"), "w").write(C19LIB)
        open(os.path.join(self.root, "site/sitecustomize.py"), "w").write(SITE)
        open(os.path.join(self.root, "main/c19mod.py"), "w").write(C19MOD)
        open(os.path.join(self.root, "main/c19sib.py"), "w").write(C19SIB)
        open(os.path.join(self.root, "lib/c19sib.py"), "w").write(C19SIB_SHADOW)
        os.makedirs(os.path.join(self.root, "cw"), exist_ok=True)
        open(os.path.join(self.root, "lib/c19cw.py"), "w").write(C19CW)
        open(os.path.join(self.root, "cw/c19cw.py"), "w").write(C19CW_CWD)
        self.order, self.cwdname = "lib:main", "root"       # PYTHONPATH order of lib/ and the script's directory; cwd
        self.prog = os.path.join(self.root, "main/prog.py")
        self.uft = os.path.join(objdir, "uftrace")

    def env(self):
        r = self.root
        mid = [r + "/lib", r + "/main"] if self.order == "lib:main" else [r + "/main", r + "/lib"]
        e = {k: v for k, v in os.environ.items() if not k.startswith("UFTRACE_")}
        e["PYTHONPATH"] = ":".join([r + "/site"] + mid + [os.path.join(self.objdir, "python"), os.path.join(REPO, "python")])
        e["PYTHONDONTWRITEBYTECODE"] = "1"
        return e

    def cwd(self):
        return self.root if self.cwdname == "root" else os.path.join(self.root, self.cwdname)

    def write(self, prog):
        # the interpreter itself in the #! line (not a version-manager shim: a shell script that starts a dozen
        # processes, all of them traced); uftrace recognises a Python script by "python" in that line
        src = prog["src"].replace("#!/usr/bin/env python3", "#!" + os.path.realpath(sys.executable), 1)
        open(self.prog, "w").write(src)
        os.chmod(self.prog, 0o755)
        self.natcache = {}

    def script(self, form):
        """how the script is named on the command line: absolute, relative to the cwd, or found through PATH"""
        return {"abs": self.prog, "rel": "main/prog.py", "path": "prog.py"}[form]

    def env_for(self, form):
        e = self.env()
        if form == "path":
            e["PATH"] = os.path.join(self.root, "main") + ":" + e.get("PATH", "")
        return e

    def native(self, form="abs"):
        """the script run directly (through its #! line, like uftrace does), same command line as the traced run"""
        key = (form, self.order, self.cwdname)
        if key in self.natcache:
            return self.natcache[key]
        log = os.path.join(self.root, "log.txt")
        if os.path.exists(log):
            os.remove(log)
        import subprocess
        p = subprocess.run(["timeout", "20", self.script(form), log], env=self.env_for(form), capture_output=True, text=True,
                           cwd=self.cwd(), timeout=40)
        self.natcache[key] = (p.returncode, p.stdout, p.stderr, (open(log).read().split("\n") if os.path.exists(log) else None))
        return self.natcache[key]

    def traced(self, lib, env, patt=None, form="abs"):
        import subprocess
        d = os.path.join(self.root, "data")
        shutil.rmtree(d, ignore_errors=True)
        log = os.path.join(self.root, "log.txt")
        if os.path.exists(log):
            os.remove(log)
        opts = []
        if lib == "NONE":
            opts.append("--no-libcall")
        elif lib == "NESTED":
            opts.append("--nest-libcall")
        for e in env or []:
            opts += ["-N", e[1:]] if e.startswith("!") else ["-F", e]
        if patt:
            opts += ["--match", patt]
        cmd = ["timeout", "30", self.uft, "record", "--no-pager", "--no-event", "--libmcount-path=" + self.objdir,
               "-d", d] + opts + [self.script(form), log]    # rel: main_dir by realpath(); path: looked up in PATH
        t0 = time.time()
        p = subprocess.run(cmd, env=self.env_for(form), capture_output=True, text=True, cwd=self.cwd(), timeout=60)
        self.t_record = getattr(self, "t_record", 0.0) + time.time() - t0
        if os.environ.get("VERIF_DEBUG"):
            self.ctx.log("record %.2fs rc=%s %s" % (time.time() - t0, p.returncode, " ".join(cmd[7:])[-90:]))
        if p.returncode != 124 and os.path.isdir(d) and not [f for f in os.listdir(d) if f.endswith(".dat")]:
            # no task data at all: legitimate when nothing is selected; seen once as a transient on a loaded
            # machine - record again and note it if the second recording differs
            shutil.rmtree(d, ignore_errors=True)
            p = subprocess.run(cmd, env=self.env_for(form), capture_output=True, text=True, cwd=self.cwd(), timeout=60)
            if os.path.isdir(d) and [f for f in os.listdir(d) if f.endswith(".dat")]:
                self.ctx.extra["e2e_empty_recording_not_reproduced"] = self.ctx.extra.get("e2e_empty_recording_not_reproduced", 0) + 1
                self.ctx.log("note: a recording without any task data was not reproduced on the second run:", " ".join(cmd[2:]))
        res = {"rc": p.returncode, "out": p.stdout, "err": p.stderr, "cmd": " ".join(cmd[2:]),
               "log": open(log).read().split("\n") if os.path.exists(log) else None}
        rc, out, err = sh(["timeout", "20", self.uft, "replay", "--no-pager", "-d", d, "-f", "none"], env=self.env())
        res["replay_rc"], res["replay"] = rc, out
        if rc != 0 and os.path.isdir(d) and not [f for f in os.listdir(d) if f.endswith(".dat")]:
            res["replay_rc"], res["replay"] = 0, ""      # nothing was selected: no task data file at all
        rc, out, err = sh(["timeout", "20", self.uft, "info", "--no-pager", "-d", d], env=self.env())
        m = re.search(r"exit status\s*:\s*(.*)", out)
        res["exit_status"] = m.group(1).strip() if m else None
        return res


def log_to_forest(log, ending):
    """['E name', 'X name', ...] -> [(name, kids, open)], open calls closed at the end (and marked
    open for os._exit).  Returns None if the log itself is not well nested (a generator bug)."""
    root = ["__main__.<module>", [], False]
    stack = [root]
    for l in log:
        if not l:
            continue
        k, n = l.split(" ", 1)
        if k == "E":
            node = [n, [], False]
            stack[-1][1].append(node)
            stack.append(node)
        else:
            if len(stack) < 2 or stack[-1][0] != n:
                return None
            stack.pop()
    # what happens after the dump
    if ending == "sys.exit":
        stack[-1][1].append(["sys.exit", [], False])
    elif ending == "os._exit":
        # the hooked os._exit of python/uftrace.py: os_exit() { uftrace_python.exit() } - never completed
        stack[-1][1].append(["os_exit", [["uftrace_python.exit", [], True]], True])
        for nd in stack:
            nd[2] = True
    return [root]


def parse_replay(txt):
    """-> forest [(name, kids)] or None"""
    root = []
    stack = [root]
    for line in txt.split("\n"):
        if not line.strip():
            if stack is not None and len(stack) >= 1 and line == "" and root:
                # the trailer "uftrace stopped tracing with remaining functions" follows a blank line
                break
            continue
        m = re.match(r"^( *)(.*?)\(\) \{$", line)
        if m:
            node = (m.group(2), [])
            stack[-1].append(node)
            stack.append(node[1])
            continue
        m = re.match(r"^( *)(.*?)\(\);$", line)
        if m:
            stack[-1].append((m.group(2), []))
            continue
        m = re.match(r"^( *)\} /\* (.*) \*/$", line)
        if m:
            if len(stack) < 2:
                return None
            stack.pop()
            continue
        return None
    return root


def strip_dump(forest):
    return [[nd[0], [] if nd[0] in OPAQUE else strip_dump(nd[1])] + list(nd[2:]) for nd in forest]


def c_nforest(f):
    if not f:
        return "NNil"
    nd, rest = f[0], f[1:]
    return "(NNode %s %s %s)" % (cs(nd[0]), c_nforest(nd[1]), c_nforest(rest))


def cs(s):
    return coq.coq_string(s) + "%N" if s else "[]"


def c_ecase(k):
    names = k["names"]
    idx = {n: i for i, n in enumerate(names)}

    def ifor(f):
        if not f:
            return "INil"
        nd, rest = f[0], f[1:]
        return "(INode %d %s %s %s)" % (idx[nd[0]], coq.coq_bool(len(nd) > 2 and nd[2]), ifor(nd[1]), ifor(rest))
    tab = "; ".join("{| l_sym := {| s_name := %s; s_lib := %s |}; l_c := false; l_exc := false |}" %
                    (cs(n), coq.coq_bool(n.startswith(LIB_PREFIX))) for n in names)
    env = "None" if k["env"] is None else "(Some [%s])" % "; ".join(cs(p) for p in k["env"])
    lib = {"NONE": "LNone", "SINGLE": "LSingle", "NESTED": "LNested"}[k["lib"]]
    return "{| x_patt := %s; x_env := %s; x_lib := %s;\n   x_tab := [%s];\n   x_log := %s;\n   x_open := %s;\n   x_replay := %s |}" % (
        {None: "PRegex", "glob": "PGlob", "simple": "PSimple"}[k.get("patt")], env, lib, tab, ifor(k["forest"]),
        coq.coq_bool(k["open"]), c_nforest(k["replay"]))


def all_names(f, acc):
    for nd in f:
        if nd[0] not in acc:
            acc.append(nd[0])
        all_names(nd[1], acc)
    return acc


PRE = """From Coq Require Import ZArith NArith List Bool.
Import ListNotations.
Require Import UV.C19.Model UV.C19.Lazy.
"""


def evaluate(ctx, ecases, name="ecases"):
    if not ecases:
        return {"mismatch": [], "violations": []}
    defs = "Definition ecases : list ecase := [\n%s\n].\n" % ";\n".join(c_ecase(k) for k in ecases)
    res = coq.run_cases(ctx, name, PRE, defs, [
        # os._exit: the lazy record writer on the model's hook calls (C19_os_exit_records), else the plain pairing
        ("mismatch", "bad_indices (fun k => if x_open k then e_agrees_lazy k else e_agrees k) ecases 0"),
        ("violations", "bad_indices e_ok ecases 0"),
    ])
    if res is None:
        return None
    return {k: coq.parse_nat_list(v) for k, v in res.items()}


def one_config(ctx, w, prog, nat, lib, env, patt=None, form="abs"):
    """run one traced configuration; returns an ecase dict or None after reporting"""
    rc, out, err, log = nat = w.native(form)
    t = w.traced(lib, env, patt, form)
    rep = {"mode": "e2e", "program": prog["src"], "ending": prog["ending"], "libcall": lib, "filters": env, "match": patt,
           "script_path": form, "cmd": t["cmd"]}
    if t["rc"] == 124:
        ctx.violation("uftrace record did not terminate on a generated Python program", rep, True)
        return None
    if t["out"] != out:
        ctx.violation("stdout of the traced Python program differs from the native run",
                      dict(rep, native=out[-500:], traced=t["out"][-500:]), True)
        return None
    if t["err"] != err:
        ctx.violation("stderr of the traced Python program differs from the native run",
                      dict(rep, native=err[-800:], traced=t["err"][-800:]), True)
        return None
    want = "exited with code: %d" % rc
    if t["exit_status"] != want or (rc == 0) != (t["rc"] == 0):
        ctx.violation("exit status of the traced Python program differs (native %d, uftrace info: %s, record rc %d)"
                      % (rc, t["exit_status"], t["rc"]), rep, True)
        return None
    if t["log"] != log:
        ctx.violation("the program's own call log differs between the native and the traced run", rep, True)
        return None
    # which ending was reached is told by the exit status (the function that ends the program may never run)
    ending = {1: "uncaught", 3: "sys.exit", 4: "os._exit", 5: "SystemExit"}.get(rc, "normal")
    forest = log_to_forest(log, ending)
    if forest is None:
        ctx.broken("generated program logged an ill-nested call sequence (generator bug)", prog["src"][-3000:])
        return None
    replay = parse_replay(t["replay"]) if t["replay_rc"] == 0 else None
    if replay is None:
        ctx.violation("uftrace replay failed or printed an unparsable trace for a Python recording (rc=%d)" % t["replay_rc"],
                      dict(rep, replay=t["replay"][-1500:]), True)
        return None
    unp = "unpaired cygprof exit" in t["err"]
    if os.environ.get("VERIF_DEBUG"):
        ctx.log("e2e case:", lib, env, ending, "replayed", json.dumps(replay)[:300])
    return {"patt": patt, "env": env, "lib": lib, "forest": strip_dump(forest), "replay": strip_dump(replay),
            "names": all_names(forest, all_names(replay, [])), "rep": rep, "unpaired": unp, "open": ending == "os._exit",
            "by_exception": ending in ("sys.exit", "SystemExit", "uncaught"), "tags": prog["tags"]}


SYSEXIT_PROG = {"src": "#!/usr/bin/env python3\nimport sys\nimport c19lib\ndef q_a():\n    c19lib.LOG += ['E q_a']\n"
                       "    c19lib.q_dump(sys.argv[1])\n    sys.exit(3)\nq_a()\n",
                "ending": "sys.exit", "fnames": ["q_a"], "tags": ["witness:sys.exit"]}


NATIVE_KEY = "native-symbol-filter"
MAIN_PROG = {"src": "#!/usr/bin/env python3\nimport sys\nimport c19lib\ndef helper():\n    c19lib.LOG += ['E helper', 'X helper']\n"
                    "def main():\n    c19lib.LOG += ['E main']\n    helper()\n    c19lib.LOG += ['X main']\nmain()\n"
                    "c19lib.q_dump(sys.argv[1])\n",
             "ending": "normal", "fnames": ["main", "helper"], "tags": ["witness:-F main"]}

ABC_PROG = {"src": "#!/usr/bin/env python3\nimport os, sys\nimport c19lib\n"
                   "def a():\n    c19lib.LOG += ['E a']\n    b()\n    c19lib.LOG += ['X a']\n"
                   "def b():\n    c19lib.LOG += ['E b']\n    c()\n    c19lib.LOG += ['X b']\n"
                   "def c():\n    c19lib.LOG += ['E c', 'E posix.getpid']\n    os.getpid()\n    c19lib.LOG += ['X posix.getpid', 'X c']\n"
                   "a()\nc19lib.q_dump(sys.argv[1])\n",
            "ending": "normal", "fnames": ["a", "b", "c"], "tags": ["fixed:abc"]}

# the script's own output: a traceback it prints itself, __name__/__file__/argv (was "<string>" before fix 6ac49d1)
TB_PROG = {"src": "#!/usr/bin/env python3\nimport sys, traceback\nimport c19lib\n"
                  "def q_a():\n    c19lib.LOG += ['E q_a']\n    try:\n        raise KeyError(1)\n    except KeyError:\n"
                  "        c19lib.LOG += ['E traceback.print_exc']\n        traceback.print_exc(file=sys.stdout)\n"
                  "        c19lib.LOG += ['X traceback.print_exc']\n"
                  "    c19lib.LOG += ['E builtins.print']\n    print(__name__, __file__ == sys.argv[0], sys.argv[0], __file__)\n"
                  "    c19lib.LOG += ['X builtins.print', 'X q_a']\n"
                  "q_a()\nc19lib.q_dump(sys.argv[1])\n",
           "ending": "normal", "fnames": ["q_a"], "tags": ["fixed:own-traceback"]}
# a script ended by an uncaught exception: traceback on stderr and exit status 1 as in a normal run (fix 993ae53)
UNCAUGHT_PROG = {"src": "#!/usr/bin/env python3\nimport sys\nimport c19lib\n"
                        "def q_b(x):\n    c19lib.LOG += ['E q_b']\n    try:\n        return 1 // x\n    finally:\n        c19lib.LOG += ['X q_b']\n"
                        "def q_a():\n    c19lib.LOG += ['E q_a']\n    try:\n        q_b(1)\n        c19lib.q_dump(sys.argv[1])\n        raise ValueError('boom')\n"
                        "    finally:\n        c19lib.LOG += ['X q_a']\n"
                        "q_a()\n",
                 "ending": "uncaught", "fnames": ["q_a", "q_b"], "tags": ["fixed:uncaught-exception"]}

# functions made at run time and dropped again: every call must be recorded under its own name, whichever freed
# code object's address the new one gets (seed C19-9: a cache keyed by the code object's address)
DYN_PROG = {"src": "#!/usr/bin/env python3\nimport sys\nimport c19lib\n"
                   "SRC = (\"c19lib.LOG += ['E __main__.<module>']\\ndef %s(d):\\n    c19lib.LOG += ['E %s', 'X %s']\\n    return d\\n\"\n"
                   "       \"c19lib.LOG += ['X __main__.<module>']\\n\")\n"
                   "def q_run(n):\n    c19lib.LOG += ['E q_run']\n    ns = {'c19lib': c19lib, '__name__': '__main__'}\n"
                   "    c19lib.LOG += ['E builtins.compile']\n    co = compile(SRC % (n, n, n), '<dyn>', 'exec')\n"
                   "    c19lib.LOG += ['X builtins.compile', 'E builtins.exec']\n    exec(co, ns)\n    c19lib.LOG += ['X builtins.exec']\n"
                   "    fn = ns[n]\n    del ns[n]\n    fn(1)\n    del fn, ns, co\n    c19lib.LOG += ['X q_run']\n"
                   "for n in ('q_rule_a', 'q_rule_b', 'q_rule_c', 'q_rule_d', 'q_rule_e', 'q_rule_f'):\n    q_run(n)\n"
                   "c19lib.q_dump(sys.argv[1])\n",
            "ending": "normal", "fnames": ["q_run"], "tags": ["fixed:functions-made-at-run-time"]}

# the script imports the module next to it: sys.path[0] is the script's directory as in a plain run, wherever
# else that directory or a module of the same name is listed (seed C19-11: "do not add it twice")
SIB_PROG = {"src": "#!/usr/bin/env python3\nimport sys\nimport c19lib\n"
                   "c19lib.LOG += ['E importlib._bootstrap._find_and_load']\nimport c19sib\nc19lib.LOG += ['X importlib._bootstrap._find_and_load']\n"
                   "def q_a():\n    c19lib.LOG += ['E q_a']\n    r = c19sib.q_s(1)\n    c19lib.LOG += ['E builtins.print']\n"
                   "    print(c19sib.WHO, r)\n    c19lib.LOG += ['X builtins.print', 'X q_a']\n"
                   "q_a()\nc19lib.q_dump(sys.argv[1])\n",
            "ending": "normal", "fnames": ["q_a"], "tags": ["fixed:sibling-module"]}

# the current directory is not on the module search path of a script (was sys.path[1] under `python -m uftrace`
# before fix e6ae373): a module lying there must not shadow the one the plain run imports
CWD_PROG = {"src": "#!/usr/bin/env python3\nimport sys\nimport c19lib\n"
                   "c19lib.LOG += ['E importlib._bootstrap._find_and_load']\nimport c19cw\nc19lib.LOG += ['X importlib._bootstrap._find_and_load']\n"
                   "c19lib.LOG += ['E builtins.print']\nprint(c19cw.WHO)\nc19lib.LOG += ['X builtins.print']\n"
                   "c19lib.q_dump(sys.argv[1])\n",
            "ending": "normal", "fnames": [], "tags": ["fixed:module-in-cwd"]}

OSEXIT_PROG = {"src": "#!/usr/bin/env python3\nimport os, sys\nimport c19lib\ndef q_b():\n    c19lib.LOG += ['E q_b', 'X q_b']\n"
                      "def q_a():\n    c19lib.LOG += ['E q_a']\n    q_b()\n    c19lib.q_dump(sys.argv[1])\n    os._exit(4)\nq_a()\n",
               "ending": "os._exit", "fnames": ["q_a", "q_b"], "tags": ["witness:os._exit"]}


def verdict(ctx, ecases, res):
    if res is None:
        return
    ctx.log("e2e: %d cases; model mismatches %s; specification violations %s" % (len(ecases), res["mismatch"], res["violations"]))
    for i in res["violations"][:3]:
        k = ecases[i]
        ctx.violation("C19 violated end-to-end: `uftrace replay` is not the call forest the program logged, selected by "
                      "the options (libcall %s, filters %s)" % (k["lib"], k["env"]),
                      dict(k["rep"], logged=k["forest"], replayed=k["replay"]), True)
    if res["mismatch"] and not res["violations"]:
        k = ecases[res["mismatch"][0]]
        ctx.violation("model and real uftrace record/replay disagree on %d generated Python programs; the specification "
                      "accepts every explored trace" % len(res["mismatch"]),
                      dict(k["rep"], correspondence="C19.Model.run + mc_run vs uftrace record + replay",
                           logged=k["forest"], replayed=k["replay"]), False)
    # unpaired exits reported by libmcount: never, whatever the ending of the script
    for k in ecases:
        if k["unpaired"]:
            ctx.violation("libmcount reported an unpaired cygprof exit for a Python program (ending: %s)" % k["rep"]["ending"],
                          k["rep"], True)
            break
    ctx.extra["e2e_cases"] = len(ecases)


def run(ctx, objdir):
    rng = ctx.rng
    w = World(ctx, objdir)
    ecases = []
    # a script ended by sys.exit(): ordinary case (two unpaired exits reached libmcount before fix d27b480)
    w.write(SYSEXIT_PROG)
    nat = w.native()
    for lib in ("SINGLE", "NESTED"):
        k = one_config(ctx, w, SYSEXIT_PROG, nat, lib, None)
        if k is not None:
            ecases.append(k)
            ctx.case(key=("e2e-fixed", "sys.exit", lib), tags=["e2e:fixed-sys.exit", "e2e:lib:" + lib])
    # tests/s-abc.py -F a -N .getpid: ordinary case (unbalanced before fix 5445264)
    w.write(ABC_PROG)
    nat = w.native()
    k = one_config(ctx, w, ABC_PROG, nat, "SINGLE", ["a", "!.getpid"])
    if k is not None:
        ecases.append(k)
        ctx.case(key=("e2e-fixed", "abc -F a -N .getpid"), tags=["e2e:fixed-abc-FN", "e2e:filter:mixed"])
    # witness of the third finding: -F <python function> when the interpreter has a native symbol of that name
    w.write(MAIN_PROG)
    nat = w.native()
    k = one_config(ctx, w, MAIN_PROG, nat, "SINGLE", ["main"])
    if k is not None:
        ctx.case(key=("e2e-witness", "-F main"), tags=["e2e:witness-native-symbol-filter"])
        text = ("`uftrace record -F main script.py` records nothing when the interpreter binary (or a loaded library) has a "
                "native symbol matching the pattern (here: main of python3.11): libmcount applies UFTRACE_FILTER to the "
                "native symbols, enters opt-in mode and drops every Python pseudo-address; -F math.sqrt (regex) "
                "matches math_sqrt the same way")
        if k["replay"] == [] and k["forest"]:
            ctx.known_finding(NATIVE_KEY, text, True, dict(k["rep"], key=NATIVE_KEY))
        else:
            ecases.append(k)      # behaves as documented in this environment: judged like every other case
            ctx.known_finding(NATIVE_KEY, text, False)
    for prog, name, forms in ((TB_PROG, "own-traceback", ("abs", "rel")), (UNCAUGHT_PROG, "uncaught-exception", ("abs", "path")),
                              (DYN_PROG, "functions-made-at-run-time", ("abs", "rel"))):
        w.write(prog)
        for form in forms:
            k = one_config(ctx, w, prog, None, "SINGLE" if form == "abs" else "NESTED", None, None, form)
            if k is not None:
                ecases.append(k)
                ctx.case(key=("e2e-fixed", name, form), tags=["e2e:fixed-" + name, "e2e:script-path:" + form])
    w.write(SIB_PROG)
    for order, cwdname, lib in (("lib:main", "root", "SINGLE"), ("lib:main", "root", "NONE"), ("main:lib", "lib", "SINGLE"),
                                ("main:lib", "root", "NONE")):       # (not --nest-libcall: the inside of the import machinery is not logged)
        w.order, w.cwdname = order, cwdname
        k = one_config(ctx, w, SIB_PROG, None, lib, None, None, "abs")
        if k is not None:
            k["rep"]["pythonpath_order"], k["rep"]["cwd"] = order, cwdname
            ecases.append(k)
            ctx.case(key=("e2e-fixed", "sibling-module", order, cwdname, lib),
                     tags=["e2e:fixed-sibling-module", "e2e:PYTHONPATH:" + order, "e2e:cwd:" + cwdname, "e2e:lib:" + lib])
    w.write(CWD_PROG)
    for lib in ("SINGLE", "NONE"):
        w.order, w.cwdname = "lib:main", "cw"
        k = one_config(ctx, w, CWD_PROG, None, lib, None, None, "abs")
        if k is not None:
            k["rep"]["cwd"] = "cw"
            ecases.append(k)
            ctx.case(key=("e2e-fixed", "module-in-cwd", lib), tags=["e2e:fixed-module-in-cwd", "e2e:cwd:cw", "e2e:lib:" + lib])
    w.order, w.cwdname = "lib:main", "root"
    # a script ended by os._exit: the hook of python/uftrace.py must still write the symbol table
    w.write(OSEXIT_PROG)
    nat = w.native()
    for lib in ("SINGLE", "NESTED"):
        k = one_config(ctx, w, OSEXIT_PROG, nat, lib, None)
        if k is not None:
            ecases.append(k)
            ctx.case(key=("e2e-fixed", "os._exit", lib), tags=["e2e:fixed-os._exit", "e2e:lib:" + lib])
    nprog = ctx.n(7, 50)
    for pi in range(nprog):
        prog = gen_program(rng)
        w.write(prog)
        nat = w.native()
        if nat[3] is None or nat[0] not in (0, 1, 3, 4, 5):
            ctx.broken("generated program failed natively (generator bug) rc=%s: %s" % (nat[0], nat[2][-400:]), prog["src"][-3000:])
            continue
        # unfiltered in the three libcall modes (cheap), then option sets with -F/-N (libmcount resolves the patterns
        # against every native symbol table of the interpreter: about 2 s per recording)
        nconf = 3 + ctx.n(1, 2)
        logged = sorted(set(l.split(" ", 1)[1] for l in nat[3] if l))
        for ci in range(nconf):
            lib, env, patt = gen_options(rng, prog, allow_mixed=True, logged=logged,
                                         plain_lib=["NESTED", "SINGLE", "NONE"][(pi + ci) % 3] if ci < 3 else None)
            k = one_config(ctx, w, prog, nat, lib, env, patt, form=["abs", "rel", "path"][pi % 3])
            if k is None:
                continue
            ecases.append(k)
            fk = "none" if env is None else "mixed" if any(e.startswith("!") for e in env) and not all(e.startswith("!") for e in env) \
                else "N" if env[0].startswith("!") else "F"
            ctx.case(key=("e2e", prog["src"], lib, tuple(env or ()), patt), tags=["e2e:" + t for t in prog["tags"]] +
                     ["e2e:lib:" + lib, "e2e:filter:" + fk, "e2e:match:" + str(patt), "e2e:script-path:" + ["abs", "rel", "path"][pi % 3]], size=len(nat[3]),
                     sample={"e2e_cmd": k["rep"]["cmd"], "log_lines": len(nat[3])} if len(ctx.samples) < 5 else None)
    ctx.log("e2e: %d recordings made (%.0f s inside `uftrace record`)" % (len(ecases), getattr(w, "t_record", 0.0)))
    res = evaluate(ctx, ecases)
    verdict(ctx, ecases, res)


def replay(ctx, objdir, obj):
    w = World(ctx, objdir)
    prog = {"src": obj["program"], "ending": obj.get("ending", "normal"), "fnames": [], "tags": []}
    w.write(prog)
    nat = w.native()
    k = one_config(ctx, w, prog, nat, obj.get("libcall", "SINGLE"), obj.get("filters"), obj.get("match"),
                   obj.get("script_path", "abs"))
    ctx.case(key="replay-e2e")
    if k is None:
        return
    ctx.log("replayed e2e: logged", k["forest"], "replay", k["replay"])
    res = evaluate(ctx, [k], name="ereplay")
    verdict(ctx, [k], res)
