"""C02 - The recorded trace is exactly each thread's call history.

Theorems: coq/theories/Properties_C02.v over UV.Mcount.Model (libmcount's hook automaton as it is)
and UV.Mcount.Forest (the specification on call trees).
Tie: (a) the real libmcount (normal, -fast, -single objects of the current tree) is driven
in-process by harness/c/mc_harness.c with a fake clock; after EVERY hook call the filter/stack state
and at the end the bytes of the shm buffers are compared with the model inside Coq; the checker
ok_c02 (observed stream = specification) is applied to the implementation's records;
(b) generated C programs built with -pg / -mfentry / -finstrument-functions / patchable+-P are
recorded by the real `uftrace record`; <tid>.dat is decoded by an independent parser and compared
with the program's known call forest.
"""
import glob
import os
import struct

from vf import build, coq, forest as F, mch, mcgen
from vf.core import VERIF, sh



# ---------------------------------------------------------------- generators
def chain(depth, t0=1000, k=0):
    """recursion chain of given depth: f_k calls itself"""
    root = cur = F.Call(k, t0, 0)
    t = t0
    nodes = [root]
    for _ in range(depth - 1):
        t += 1
        n = F.Call(k, t, 0)
        cur.kids.append(n)
        cur = n
        nodes.append(n)
    for n in reversed(nodes):
        t += 1
        n.t1 = t
    return [root]


def gen_plain(ctx, rng):
    cfg = {"shape": rng.choice(["pg", "cyg"]), "trig": {}}
    if rng.random() < 0.35:
        cfg["depth"] = rng.choice([1, 2, 3, 5])
    if rng.random() < 0.3:
        cfg["threshold"] = rng.choice([1, 5, 10])
    if rng.random() < 0.3:
        cfg["max_stack"] = rng.choice([1, 2, 3, 4, 6])
    zero = rng.random() < 0.15
    durs = (0, 1, 4, 5, 6, 9, 10, 11, 50) if zero else (1, 4, 5, 6, 9, 10, 11, 50)
    fo = F.assign_times(rng, F.gen_shape(rng, 6, rng.choice([3, 8, 20, 40]), rng.choice([3, 6, 9])), durs=durs)
    return cfg, fo


def positive(fo):
    def go(c):
        return c.t1 > c.t0 and all(go(k) for k in c.kids)
    return all(go(c) for c in fo)


# ---------------------------------------------------------------- checks
def coq_plain_check(cfg, fo, recs):
    gd = cfg.get("depth") if cfg.get("depth") is not None else 1024
    ms = cfg.get("max_stack") if cfg.get("max_stack") is not None else 1024
    return "ok_c02 %d %d %d %s %s" % (cfg.get("threshold") or 0, gd, ms, F.coq_forest(fo), mcgen.coq_recs(recs))


def height(fo):
    return max([c.height() for c in fo] or [0])


def inproc(ctx):
    rng = ctx.rng
    cases = []      # dict(cfg, forest, evs, res, kind, variant, check(bool))
    h = mch.Harness(ctx)
    hv = {"": h}

    def add(cfg, fo, evs, kind, variant="", check=True, tags=()):
        hh = hv.get(variant)
        if hh is None:
            hh = hv[variant] = mch.Harness(ctx, variant)
        res = mcgen.run_case(hh, cfg, evs)
        if not res["errno_ok"]:
            ctx.violation("errno not preserved by a hook", {"cfg": cfg, "events": evs}, True)
        cases.append({"cfg": cfg, "forest": fo, "evs": evs, "res": res, "kind": kind, "variant": variant,
                      "check": check})
        ctx.case(key=(repr(cfg), tuple(evs), variant), nontrivial=len(evs) >= 4 and height(fo) >= 2,
                 tags=list(tags) + ["shape:" + cfg.get("shape", "pg"), "variant:" + (variant or "normal"), kind],
                 size=len(evs),
                 sample={"cfg": cfg, "events": evs[:12], "records": res["recs"][:8]} if len(ctx.samples) < 3 else None)

    # 1. random plain forests
    for _ in range(ctx.n(70, 900)):
        cfg, fo = gen_plain(ctx, rng)
        evs = F.flatten(fo)
        ms = cfg.get("max_stack") or 1024
        thr = cfg.get("threshold") or 0
        chk = True
        # with a threshold the overflow flush forces records (modelled, not in the spec): correspondence only
        if thr > 0 and height(fo) > ms:
            chk = False
        tags = []
        if height(fo) > ms:
            tags.append("overflow")
        if cfg.get("depth") and height(fo) > cfg["depth"]:
            tags.append("beyond-D")
        add(cfg, fo, evs, "random", check=chk, tags=tags)
    # 2. deep recursion around the default limits
    for depth in ([1023, 1024, 1030] if ctx.thorough() else [1024, 1030]):
        for shape in ("pg", "cyg"):
            fo = chain(depth)
            add({"shape": shape, "trig": {}}, fo, F.flatten(fo), "deep", tags=["depth=%d" % depth])
    fo = chain(9)
    add({"shape": "pg", "trig": {}, "max_stack": 8}, fo, F.flatten(fo), "deep", tags=["max_stack=8,depth=9"])
    # 3. open calls at the end of the data (truncated history): correspondence, and the append-only theorem:
    #    the stream of the truncated run must be a list prefix of the stream of the complete run
    prefix_pairs = []
    for _ in range(ctx.n(10, 100)):
        cfg, fo = gen_plain(ctx, rng)
        evs = F.flatten(fo)
        cut = evs[:rng.randrange(1, len(evs))]
        add(cfg, fo, cut, "open-tail", check=False)
        add(cfg, fo, evs, "open-tail-full", check=False)
        prefix_pairs.append((len(cases) - 2, len(cases) - 1))
    # 3b. the shadow stack overflows several times and the history ends at the bottom of the last dive (exit() called
    #     beyond --max-stack): the overflow flush of mcount_check_rstack is the only thing that writes the ENTRY records
    #     of the open chain, and it must run at EVERY descent through the limit (C02_overflow_flushes_open_chain)
    for shape in ("pg", "cyg"):
        for ms, episodes in ((3, 2), (5, 3)) + (((8, 5),) if ctx.thorough() else ()):
            t = 1000
            kids = []
            for _ in range(episodes):
                d = chain(ms + 2, t0=t + 1, k=1)[0]
                kids.append(d)
                t = d.t1 + 1
            root = F.Call(0, 999, t + 1, kids)
            evs = F.flatten([root])
            last_enter = max(i for i, e in enumerate(evs) if e[0] == "E")
            cfg = {"shape": shape, "trig": {}, "max_stack": ms + 1}       # root + ms levels of the dive fit
            add(cfg, [root], evs[:last_enter + 1], "overflow-open", check=False,
                tags=["overflow-episodes=%d" % episodes, "ends-beyond-max-stack"])
            i = len(cases) - 1
            want = ms            # the ms dive levels inside the limit are still open: their ENTRY records end the stream
            opened = [r for r in cases[i]["res"]["recs"][-want:] if r[1] == 0]
            if len(opened) != want or [r[3] for r in opened] != list(range(1, ms + 1)):
                ctx.violation("a history that ends beyond --max-stack during overflow number %d leaves only %d of the %d "
                              "ENTRY records of its open calls" % (episodes, len(opened), want),
                              {"cfg": cfg, "events": evs[:last_enter + 1], "impl_records": cases[i]["res"]["recs"]}, True)
    # 4. fast / single variants
    for variant in ("-fast", "-single", "-fast-single"):
        for _ in range(ctx.n(6, 60)):
            cfg, fo = gen_plain(ctx, rng)
            if "fast" in variant:
                cfg.pop("depth", None)      # the fast variants have no depth filter
            add(cfg, fo, F.flatten(fo), "variant", variant=variant,
                check=not ((cfg.get("threshold") or 0) > 0 and height(fo) > (cfg.get("max_stack") or 1024)))
    # 5. filtered recordings (any -F/-N/-C/-D/-t/-Z and depth=/time=/size=/trace triggers, no trace_on/off):
    #    the stream must be an embedded sub-history (theorem C02_filtered_trace_is_subhistory, checker ok_emb)
    from . import c05 as _c05
    for _ in range(ctx.n(40, 500)):
        cfg = _c05.gen_cfg(rng)
        for t in cfg["trig"].values():
            t.pop("trace_on", None)
            t.pop("trace_off", None)
        fo = F.assign_times(rng, F.gen_shape(rng, 6, rng.choice([3, 8, 20]), 6), durs=_c05.DURS)
        add(cfg, fo, F.flatten(fo), "filtered", check=False, tags=["trig:" + k for t in cfg["trig"].values() for k in t])
    # evaluate
    terms = []
    checks = []
    for i, c in enumerate(cases):
        terms.append(mcgen.case_term(c["cfg"], c["evs"], c["res"]))
        if c["check"]:
            checks.append((i, coq_plain_check(c["cfg"], c["forest"], c["res"]["recs"])))
        elif c["kind"] == "filtered":
            checks.append((i, "ok_emb %s %s" % (F.coq_forest(c["forest"]), mcgen.coq_recs(c["res"]["recs"]))))
        if c["kind"] in ("random", "deep") and not c["variant"]:
            # plain option sets are switch-free too: the weaker statement must hold as well, at any depth
            # (also beyond --max-stack: C02_filtered_trace_is_subhistory_any_depth)
            checks.append((i, "ok_emb %s %s" % (F.coq_forest(c["forest"]), mcgen.coq_recs(c["res"]["recs"]))))
    for (i1, i2) in prefix_pairs:
        checks.append((i1, "prefix5 %s %s" % (mcgen.coq_recs(cases[i1]["res"]["recs"]), mcgen.coq_recs(cases[i2]["res"]["recs"]))))
    fast_idx = [i for i, c in enumerate(cases) if "fast" in c["variant"]]
    defs = "Definition cases : list case4 := [\n%s\n].\n" % ";\n".join(terms)
    defs += "Definition isfast : list bool := [%s].\n" % "; ".join(coq.coq_bool("fast" in c["variant"]) for c in cases)
    defs += "Definition checks : list bool := [\n%s\n].\n" % ";\n".join(t for _, t in checks)
    res = coq.run_cases(ctx, "c02_cases", mcgen.PRE, defs, [
        ("mismatch", "bad_indices (fun p : case4 * bool => if snd p then agree_fast (fst p) else agree4 (fst p)) (combine cases isfast) 0"),
        ("violations", "bad_indices (fun b : bool => b) checks 0"),
    ], timeout=1200)
    if res is None:
        return
    mism = coq.parse_nat_list(res["mismatch"])
    viol = [checks[i][0] for i in coq.parse_nat_list(res["violations"])]
    for i in viol[:3]:
        c = cases[i]
        ctx.violation("C02: the recorded stream differs from the thread's call history",
                      {"mode": "inproc", "cfg": c["cfg"], "variant": c["variant"],
                       "forest": [x.to_json() for x in c["forest"]], "events": c["evs"],
                       "impl_records": c["res"]["recs"]}, True)
    if mism and not viol:
        c = cases[mism[0]]
        ctx.violation("model and libmcount disagree on %d case(s); the history checker accepts every explored "
                      "implementation output" % len(mism),
                      {"correspondence": "UV.Mcount.Model vs libmcount hooks (states after each hook + records)",
                       "cfg": c["cfg"], "variant": c["variant"], "events": c["evs"],
                       "impl_states": c["res"]["states"], "impl_records": c["res"]["recs"]}, False)
    ctx.extra["disagreements_checked"] = len(mism)
    ctx.extra["history_checks"] = len(checks)
    ctx.extra["filtered_subhistory_checks"] = sum(1 for c in cases if c["kind"] == "filtered")


def depth_field_regression(ctx):
    """--max-stack above the 10-bit depth field (repaired defect depth-ge-1024): recursion 1023/1024/1100 deep with
    --max-stack=2000: the calls at depth >= 1024 must be dropped whole, every other record written unchanged"""
    h = mch.Harness(ctx)
    items, defs = [], ""
    for n, (depth, shape) in enumerate([(1100, "pg"), (1100, "cyg"), (1025, "pg"), (1023, "pg")]):
        fo = chain(depth)
        cfg = {"shape": shape, "trig": {}, "max_stack": 2000, "depth": 2000}
        res = mcgen.run_case(h, cfg, F.flatten(fo))
        bad = [r for r in res["recs"] if r[4] != 0 or r[3] >= 1024]      # f0 has address 0 in the model's address space
        defs += "Definition c%d := %s.\nDefinition chk%d := %s.\n" % (n, mcgen.case_term(cfg, F.flatten(fo), res),
                                                                     n, coq_plain_check(cfg, fo, res["recs"]))
        items += [("agree%d" % n, "agree4 c%d" % n), ("ok%d" % n, "chk%d" % n)]
        ctx.case(key="depth-field-%d-%s" % (depth, shape), tags=["max_stack=2000,depth=%d" % depth], size=2 * depth)
        if bad:
            ctx.violation("records at depth >= 1024 are corrupted (depth wraps, address off by one): %d of %d records of a "
                          "%d-deep recursion with --max-stack=2000" % (len(bad), len(res["recs"]), depth),
                          {"cfg": cfg, "chain_depth": depth, "bad_records": bad[:8]}, True)
    r = coq.run_cases(ctx, "c02_depthfield", mcgen.PRE, defs, items, timeout=900)
    if r is None:
        return
    for k, _ in items:
        if r[k] != "true":
            ctx.violation("--max-stack=2000, deep recursion: %s" % ("model and libmcount disagree" if k.startswith("agree")
                          else "the stream is not the history pruned at depth 1024"),
                          {"item": k, "note": "cases: 1100 pg, 1100 cyg, 1025 pg, 1023 pg (in this order)"}, False)


def zero_duration_regression(ctx):
    """repaired defect zero-duration-dropped (/repo: end - start >= threshold): a call whose entry and exit hooks read the
    same clock value is recorded like any other, also when it runs exactly the -t threshold"""
    h = mch.Harness(ctx)
    items, defs = [], ""
    for n, (thr, fo) in enumerate([
            (0, [F.Call(0, 10, 20, [F.Call(1, 12, 12), F.Call(2, 13, 14)])]),
            (0, [F.Call(0, 10, 10)]),
            (5, [F.Call(0, 10, 40, [F.Call(1, 12, 17), F.Call(2, 20, 24), F.Call(3, 30, 36)])])]):
        cfg = {"shape": "pg" if n != 1 else "cyg", "trig": {}}
        if thr:
            cfg["threshold"] = thr
        res = mcgen.run_case(h, cfg, F.flatten(fo))
        defs += "Definition c%d := %s.\nDefinition chk%d := %s.\n" % (n, mcgen.case_term(cfg, F.flatten(fo), res),
                                                                     n, coq_plain_check(cfg, fo, res["recs"]))
        items += [("agree%d" % n, "agree4 c%d" % n), ("ok%d" % n, "chk%d" % n)]
        ctx.case(key="zero-duration-%d" % n, tags=["zero-duration" if not thr else "exactly-threshold"], size=2 * len(F.flatten(fo)))
    r = coq.run_cases(ctx, "c02_zero", mcgen.PRE, defs, items, timeout=600)
    if r is None:
        return
    for k, _ in items:
        if r[k] != "true":
            ctx.violation("zero-duration / exactly-threshold call: %s" % ("model and libmcount disagree" if k.startswith("agree")
                          else "a call whose two clock readings are equal (or that runs exactly the threshold) is not recorded"),
                          {"item": k, "cases": "0: main{f1 [12,12]; f2 [13,14]} -t 0; 1: main [10,10] cyg; 2: -t 5 with calls of 5, 4, 6 ticks"},
                          not k.startswith("agree"))


def threads_and_fork(ctx):
    """several threads with interleaved hook calls; a forked child"""
    rng = ctx.rng
    h = mch.Harness(ctx)
    for it in range(ctx.n(6, 60)):
        nth = rng.choice([2, 3, 4])
        cfg = {"shape": rng.choice(["pg", "cyg"]), "trig": {}}
        if rng.random() < 0.3:
            cfg["threshold"] = 5
        per = []
        for t in range(nth):
            fo = F.assign_times(rng, F.gen_shape(rng, 6, rng.choice([3, 8, 15]), 5), t0=1000 + 7 * t,
                                durs=(1, 4, 6, 10, 50))
            per.append((fo, F.flatten(fo)))
        # random interleaving
        pos = [0] * nth
        lines = ["AUTOSTATE 0"]
        while any(pos[t] < len(per[t][1]) for t in range(nth)):
            t = rng.choice([x for x in range(nth) if pos[x] < len(per[x][1])])
            burst = rng.randrange(1, 4)
            lines.append("T %d" % (t + 1))
            for _ in range(burst):
                if pos[t] >= len(per[t][1]):
                    break
                e = per[t][1][pos[t]]
                pos[t] += 1
                if cfg["shape"] == "cyg":
                    lines.append("CE %d %d" % (e[1], e[2]) if e[0] == "E" else "CX %d %d" % (e[1], e[2]))
                else:
                    lines.append("E %d %d" % (e[1], e[2]) if e[0] == "E" else "X %d" % e[2])
        dump_at = []
        for t in range(nth):
            lines.append("T %d" % (t + 1))
            lines.append("TEND" if rng.random() < 0.5 else "DUMP")
        out, err = h.run(lines, mch.cfg_env(cfg), timeout=120)
        # split the dumps: each DUMP/TEND section ends with END
        sections, cur = [], None
        for l in out:
            if l.startswith("BUF ") and cur is None:
                cur = []
            if cur is not None:
                cur.append(l)
            if l == "END":
                sections.append(cur or [])
                cur = None
        if len(sections) != nth:
            ctx.broken("thread harness produced %d dumps for %d threads" % (len(sections), nth), "\n".join(out[-20:]))
            continue
        checks = []
        for t in range(nth):
            recs = [(a, b, c, d, mch.addr_canon(e)) for (a, b, m, c, d, e, p) in mch.parse_records(sections[t])]
            checks.append(coq_plain_check(cfg, per[t][0], recs))
        r = coq.run_cases(ctx, "c02_thr%d" % it, mcgen.PRE,
                          "Definition checks : list bool := [\n%s\n].\n" % ";\n".join(checks),
                          [("violations", "bad_indices (fun b : bool => b) checks 0")])
        ctx.case(key=("threads", repr(cfg), tuple(lines)), tags=["threads=%d" % nth], size=len(lines))
        if r is None:
            continue
        for i in coq.parse_nat_list(r["violations"])[:2]:
            ctx.violation("C02: a thread's stream differs from its own history under interleaved hooks",
                          {"mode": "threads", "cfg": cfg, "script": lines, "thread": i + 1}, True)
    # a thread that ends in pthread_exit() with calls still open (libmcount/wrap.c records and drops them): at depths around
    # --max-stack in particular
    for it in range(ctx.n(10, 120)):
        shape = rng.choice(["pg", "cyg"])
        M = rng.choice([3, 4, 6, 9, None])
        cfg = {"shape": shape, "trig": {}}
        if M is not None:
            cfg["max_stack"] = M
        if rng.random() < 0.2:
            cfg["threshold"] = 5
        fo = F.assign_times(rng, F.gen_shape(rng, 6, rng.choice([0, 3, 8]), min(3, (M or 4) - 1)), t0=1000, durs=(1, 4, 6, 10, 50))
        evs = F.flatten(fo)
        t = max([e[2] for e in evs] + [1000]) + 5
        d_open = rng.choice([1, 2, 3] + ([M - 1, M, M, M + 1, M + 2] if M else [5, 8]))
        for lvl in range(d_open):
            evs.append(("E", rng.randrange(6), t))
            t += 3
            if rng.random() < 0.3:           # a completed leaf call inside the open one
                k = rng.randrange(6)
                evs.append(("E", k, t))
                evs.append(("X", k, t + 2))
                t += 5
        lines = ["AUTOSTATE 0", "T 1"]
        for e in evs:
            if shape == "cyg":
                lines.append("CE %d %d" % (e[1], e[2]) if e[0] == "E" else "CX %d %d" % (e[1], e[2]))
            else:
                lines.append("E %d %d" % (e[1], e[2]) if e[0] == "E" else "X %d" % e[2])
        lines += ["T 1", "TPEXIT"]
        try:
            out, err = h.run(lines, mch.cfg_env(cfg), timeout=120)
        except RuntimeError as ex:
            ctx.violation("C02: a thread ending in pthread_exit() with %d open calls (--max-stack %s) crashes the traced process"
                          % (d_open, M), {"mode": "pexit", "cfg": cfg, "script": lines, "error": str(ex)[-400:]}, True)
            continue
        recs = [(a, b, c, d, mch.addr_canon(e)) for (a, b, m, c, d, e, p) in mch.parse_records(out)]
        plain_ok = (not cfg.get("threshold")) and (M is None or d_open + height(fo) <= M) and d_open <= (M or 1024)
        defs = "Definition chk := ok_pexit %s %s %s.\n" % (F.coq_cfg(cfg, mch.SIZES), F.coq_events(evs), mcgen.coq_recs(recs))
        defs += "Definition chk2 := %s.\n" % (("ok_pexit_plain %s %s" % (F.coq_events(evs), mcgen.coq_recs(recs)))
                                               if plain_ok and M is None else "true")
        r = coq.run_cases(ctx, "c02_pexit%d" % it, mcgen.PRE, defs, [("model", "chk"), ("plain", "chk2")])
        ctx.case(key=("pexit", repr(cfg), tuple(lines)), tags=["pthread_exit:open=%d" % d_open, "pthread_exit:max_stack=%s" % M,
                                                               "shape:" + shape], size=len(lines))
        if r is None:
            continue
        if r["plain"] != "true":
            ctx.violation("C02: the stream of a thread that ended in pthread_exit() is not its call history (an ENTRY for every "
                          "call entered, an EXIT for every call left)",
                          {"mode": "pexit", "cfg": cfg, "script": lines, "records": recs}, True)
        elif r["model"] != "true":
            ctx.violation("C02: model and libmcount disagree on the records of a thread ending in pthread_exit() with %d open "
                          "calls (--max-stack %s): an open call within --max-stack must leave its ENTRY" % (d_open, M),
                          {"mode": "pexit", "cfg": cfg, "script": lines, "records": recs}, True)
    # forked child
    for it in range(ctx.n(6, 50)):
        shape = rng.choice(["pg", "cyg"])
        cfg = {"shape": shape, "trig": {}}
        k = rng.randrange(0, 5)
        pre = [("E", rng.randrange(6), 1000 + i) for i in range(k)]
        fo = F.assign_times(rng, F.gen_shape(rng, 6, rng.choice([2, 6, 12]), 4), t0=2000, durs=(1, 4, 6, 10))
        evs = pre + [("F",)] + F.flatten(fo)
        # inherited frames return in the child
        t = 9000
        for i in range(k):
            t += 3
            evs.append(("X", pre[k - 1 - i][1], t))
        res = mcgen.run_case(h, cfg, evs)
        term = mcgen.case_term(cfg, evs, res)
        # the child's own calls: everything before the inherited EXITs
        nchild = 2 * sum(c.size() for c in fo)
        chk = "ok_fork 0 1024 1024 %s %s %s %s" % ("CYG" if shape == "cyg" else "PG", F.coq_events(pre),
                                                  F.coq_forest(fo), mcgen.coq_recs(res["recs"][:nchild]))
        exits_ok = all(r[1] == 1 and r[3] == k - 1 - i for i, r in enumerate(res["recs"][nchild:])) and \
            len(res["recs"]) == nchild + k
        r = coq.run_cases(ctx, "c02_fork%d" % it, mcgen.PRE, "Definition c : case4 := %s.\nDefinition chk := %s.\n" % (term, chk),
                          [("agree", "agree4 c"), ("ok", "chk")])
        ctx.case(key=("fork", repr(cfg), tuple(evs)), tags=["fork:open=%d" % k], size=len(evs))
        if r is None:
            continue
        if r["ok"] != "true" or not exits_ok:
            ctx.violation("C02: forked child's stream does not continue the parent's open calls",
                          {"mode": "fork", "cfg": cfg, "events": evs, "impl_records": res["recs"]}, True)
        elif r["agree"] != "true":
            ctx.violation("model and libmcount disagree on a fork history",
                          {"mode": "fork", "cfg": cfg, "events": evs, "impl_states": res["states"],
                           "impl_records": res["recs"]}, False)

    # forked child under filters (any switch-free option set, both shapes): the parent's history is cut at a random
    # point, the child continues it.  Judged: a child never writes the ENTRY of a call entered before the fork
    # (atfork_child_handler marks every inherited frame WRITTEN), plus the model correspondence.
    from . import c05 as _c05
    ff = []
    for it in range(ctx.n(16, 160)):
        cfg = _c05.gen_cfg(rng, rng.choice(["cyg", "cyg", "pg"]))
        for t in cfg["trig"].values():
            t.pop("trace_on", None)
            t.pop("trace_off", None)
        if it % 2 == 0:
            # unrecorded frames BELOW recorded ones at the fork: an opt-in filter (or notrace / size) on an inner function
            cfg["trig"].setdefault(rng.choice([1, 2, 3]), {})["filter"] = True
            cfg.pop("max_stack", None)
            cfg.pop("threshold", None)
        fo = F.assign_times(rng, F.gen_shape(rng, 4 if it % 2 == 0 else 6, rng.choice([8, 14, 20]), 6), t0=2000, durs=_c05.DURS)
        full = F.flatten(fo)
        # cut inside nested calls (after an Enter at nesting depth >= 2) most of the time
        deep, d = [], 0
        for i, e in enumerate(full):
            d += 1 if e[0] == "E" else -1
            if e[0] == "E" and d >= 3 and i + 1 < len(full):
                deep.append(i + 1)
        cut = rng.choice(deep) if deep and rng.random() < 0.8 else rng.randrange(1, len(full))
        evs = full[:cut] + [("F",)] + full[cut:]
        tmin = full[cut][2]
        res = mcgen.run_case(h, cfg, evs)
        ff.append((cfg, evs, res, tmin))
        ctx.case(key=("fork-filtered", repr(cfg), tuple(evs)), tags=["fork-filtered", "shape:" + cfg["shape"]], size=len(evs))
    if ff:
        defs = "Definition cs : list case4 := [\n%s\n].\n" % ";\n".join(mcgen.case_term(c, e, r) for c, e, r, _ in ff)
        defs += "Definition chks : list bool := [\n%s\n].\n" % ";\n".join(
            "forallb (fun r : seen5 => let '(t, ty, _, _, _) := r in (ty =? UFTRACE_EXIT) || (%d <=? t)) (%s : list seen5)"
            % (tmin, mcgen.coq_recs(r["recs"])) for _, _, r, tmin in ff)
        rr = coq.run_cases(ctx, "c02_ffork", mcgen.PRE, defs,
                           [("agree", "bad_indices agree4 cs 0"), ("ok", "bad_indices (fun b : bool => b) chks 0")])
        if rr is not None:
            bad_ok = coq.parse_nat_list(rr["ok"])
            bad_ag = coq.parse_nat_list(rr["agree"])
            for i in bad_ok[:2]:
                cfg, evs, res, _ = ff[i]
                ctx.violation("C02: a forked child wrote the ENTRY of a call that was entered before the fork (it belongs to "
                              "the parent's stream)", {"mode": "fork-filtered", "cfg": cfg, "events": evs,
                                                       "impl_records": res["recs"]}, True)
            if bad_ag and not bad_ok:
                cfg, evs, res, _ = ff[bad_ag[0]]
                ctx.violation("model and libmcount disagree on %d fork histories under filters" % len(bad_ag),
                              {"mode": "fork-filtered", "cfg": cfg, "events": evs, "impl_states": res["states"],
                               "impl_records": res["recs"]}, False)

# ---------------------------------------------------------------- end-to-end
def c_program(fo_main, fo_threads, loc_of=None):
    """one C function per call node; main runs its forest, then each thread runs its own.
    loc_of: function class k -> label; the function is then compiled as if it stood in the source file loc<label>.c
    (#line directive: that is the DW_AT_decl_file the location filter -L looks at)"""
    names = {}
    out = ["#include <stdio.h>", "#include <pthread.h>", "#include <time.h>", "static volatile unsigned long sink;",
           # the program's own readings of the clock uftrace uses (CLOCK_MONOTONIC), taken just before a call and
           # just after its return; clock_gettime is expanded inline (vDSO call, never instrumented)
           "static unsigned long long BR[4096][2]; static int nbr;",
           "#ifndef VERIF_CLOCK\n#define VERIF_CLOCK CLOCK_MONOTONIC\n#endif",
           "#define NOW(x) do { struct timespec ts_; clock_gettime(VERIF_CLOCK, &ts_); "
           "(x) = ts_.tv_sec * 1000000000ULL + ts_.tv_nsec; } while (0)",
           "#define BRACKET(i, call) do { NOW(BR[i][0]); call; NOW(BR[i][1]); } while (0)"]
    cnt = [0]
    protos, bodies = [], []

    def emit(c):
        cnt[0] += 1
        name = "n%d_f%d" % (cnt[0], c.k)
        names[id(c)] = name
        kids = [emit(k) for k in c.kids]
        protos.append("void %s(void);" % name)
        if loc_of is not None:
            bodies.append('#line 1 "loc%s.c"' % loc_of(c.k))
        bodies.append("__attribute__((noinline)) void %s(void) { for (volatile int i = 0; i < 20; i++) sink += i; %s }"
                      % (name, " ".join("%s();" % k for k in kids)))
        return name
    mains = [emit(c) for c in fo_main]
    workers = []
    nb = [len(mains)]
    brk = {"main": list(range(len(mains)))}
    for ti, fo in enumerate(fo_threads):
        roots = [emit(c) for c in fo]
        idxs = list(range(nb[0], nb[0] + len(roots)))
        nb[0] += len(roots)
        brk["worker%d" % ti] = idxs
        protos.append("void *worker%d(void *a);" % ti)
        if loc_of is not None:
            bodies.append('#line 1 "locmain.c"')
        bodies.append("__attribute__((noinline)) void *worker%d(void *a) { %s return a; }"
                      % (ti, " ".join("BRACKET(%d, %s());" % (i, r) for i, r in zip(idxs, roots))))
        workers.append("worker%d" % ti)
    names["__brackets__"] = brk
    out += protos + bodies
    if loc_of is not None:
        out.append('#line 1 "locmain.c"')
    m = ["int main(void) {", "  pthread_t th[%d];" % max(1, len(workers))]
    m += ["  BRACKET(%d, %s());" % (i, r) for i, r in enumerate(mains)]
    for i, w in enumerate(workers):
        m.append("  pthread_create(&th[%d], NULL, %s, NULL);" % (i, w))
    for i, w in enumerate(workers):
        m.append("  pthread_join(th[%d], NULL);" % i)
    m += ["  for (int i = 0; i < %d; i++) printf(\"BR %%d %%llu %%llu\\n\", i, BR[i][0], BR[i][1]);" % nb[0]]
    m += ["  return 0;", "}"]
    return "\n".join(out + m) + "\n", names


def expected_stream(root_name, fo, names, d0=0):
    """(type, depth, name) list for: root_name { forest }"""
    ev = [(0, d0, root_name)]

    def go(c, d):
        ev.append((0, d, names[id(c)]))
        for k in c.kids:
            go(k, d + 1)
        ev.append((1, d, names[id(c)]))
    for c in fo:
        go(c, d0 + 1)
    ev.append((1, d0, root_name))
    return ev


def decode_dir(d):
    """independent decoder of <tid>.dat + .sym + map -> {tid: [(type, depth, name, time)]}"""
    syms = []
    base = None
    exe = None
    for mp in glob.glob(os.path.join(d, "sid-*.map")):
        for line in open(mp):
            k = line.split()
            if len(k) >= 6 and "/" in k[5] and base is None and not k[5].endswith(".so") and "libmcount" not in k[5]:
                base = int(k[0].split("-")[0], 16)
                exe = os.path.basename(k[5])
    for sf in glob.glob(os.path.join(d, "*.sym")):
        if exe and os.path.basename(sf) != exe + ".sym":
            continue
        for line in open(sf, errors="replace"):
            if line.startswith("#"):
                continue
            k = line.split()
            if len(k) >= 4:
                syms.append((int(k[0], 16), int(k[1], 16), k[3]))
    syms.sort()
    res = {}
    for df in glob.glob(os.path.join(d, "*.dat")):
        tid = os.path.basename(df)[:-4]
        if not tid.isdigit():
            continue
        data = open(df, "rb").read()
        recs = []
        for off in range(0, len(data) - 15, 16):
            t, w = struct.unpack_from("<QQ", data, off)
            ty, magic, depth, addr = w & 3, (w >> 3) & 7, (w >> 6) & 0x3ff, w >> 16
            name = "?%x" % addr
            rel = addr - (base or 0)
            for a, s, n in syms:
                if a <= rel < a + max(s, 1):
                    name = n
            recs.append((ty, depth, name, t, magic))
        res[int(tid)] = recs
    return res


METHODS = [
    ("pg", ["-pg"], []),
    ("fentry", ["-pg", "-mfentry"], []),
    ("cyg", ["-finstrument-functions"], []),
    ("patchable", ["-fpatchable-function-entry=5"], ["-P", "."]),
]


LIBCALL_PROG = r"""
#include <stdlib.h>
int rec(int n) { if (n == 0) return atoi("7") + abs(-3); return rec(n - 1) + 1; }
int main(void) { int a = rec(%d); int b = atoi("5"); int c = abs(-6); int d = atoi("4"); return (a + b + c + d) & 0; }
"""


def e2e_libcall_after_overflow(ctx, objdir):
    """library calls (PLT hooking): a function whose FIRST call happens beyond --max-stack must still be recorded when
    it is called again inside the limit (repaired defect plt-first-call-beyond-max-stack)"""
    uft = os.path.join(objdir, "uftrace")
    work = os.path.join(ctx.scratch, "e2e-plt")
    os.makedirs(work, exist_ok=True)
    for ms, depth in ((8, 20), (3, 3)):
        src = LIBCALL_PROG % depth
        cfile = os.path.join(work, "l%d.c" % ms)
        open(cfile, "w").write(src)
        exe = os.path.join(work, "l%d" % ms)
        rc, o, e = sh(["gcc", "-O0", "-pg", "-fno-builtin", "-o", exe, cfile], timeout=120)
        if rc != 0:
            ctx.broken("libcall program does not compile", e[-300:])
            return
        dd = os.path.join(work, "d%d" % ms)
        rc, o, e = sh(["timeout", "60", uft, "record", "--no-pager", "--no-event", "--libmcount-path=" + objdir,
                       "--max-stack=%d" % ms, "-d", dd, exe], timeout=90)
        if rc != 0:
            ctx.violation("uftrace record failed on the library-call program (rc=%d)" % rc, {"mode": "e2e", "program": src}, True)
            continue
        streams = decode_dir(dd)
        recs = [r for v in streams.values() for r in v]
        later = [(r[2], r[1]) for r in recs if r[0] == 0 and r[1] == 1 and r[2] in ("atoi", "abs")]
        ctx.case(key=("e2e-plt", ms), tags=["e2e:libcall-after-overflow", "max_stack=%d" % ms], size=len(recs))
        if later != [("atoi", 1), ("abs", 1), ("atoi", 1)]:
            ctx.violation("C02 violated (end to end): library calls made from main() at depth 1, inside --max-stack=%d, are "
                          "missing from the trace after the same functions were first called beyond the limit: recorded %s, "
                          "expected atoi, abs, atoi" % (ms, [n for n, _ in later]),
                          {"mode": "e2e", "program": src, "max_stack": ms,
                           "records": [(r[0], r[1], r[2]) for r in recs][:80]}, True)


def e2e(ctx, objdir):
    rng = ctx.rng
    uft = os.path.join(objdir, "uftrace")
    work = os.path.join(ctx.scratch, "e2e")
    os.makedirs(work, exist_ok=True)
    nprog = ctx.n(3, 20)
    shim = os.path.join(work, "clock_shift_shim.so")
    sh(["gcc", "-shared", "-fPIC", "-O1", "-o", shim, os.path.join(VERIF, "harness/c/clock_shift_shim.c"), "-ldl"], check=True)
    for pi in range(nprog):
        fo_main = F.gen_shape(rng, 6, rng.choice([3, 10, 25]), 6)
        fo_threads = [F.gen_shape(rng, 6, rng.choice([3, 8]), 5) for _ in range(rng.choice([0, 1, 3]))]
        src, names = c_program(fo_main, fo_threads)
        cfile = os.path.join(work, "p%d.c" % pi)
        open(cfile, "w").write(src)
        for mname, cflags, rflags in METHODS:
            exe = os.path.join(work, "p%d_%s" % (pi, mname))
            # the clock the trace is stamped with (record --clock=): the program reads the same one for its brackets;
            # the shim moves the three clocks 1000 s apart so that a wrong clock cannot pass by accident
            clk = rng.choice([None, "mono", "mono_raw", "boot"])
            cid = {None: "CLOCK_MONOTONIC", "mono": "CLOCK_MONOTONIC", "mono_raw": "CLOCK_MONOTONIC_RAW",
                   "boot": "CLOCK_BOOTTIME"}[clk]
            rflags = rflags + (["--clock=" + clk] if clk else [])
            rc, o, e = sh(["gcc", "-O%s" % rng.choice("012"), "-DVERIF_CLOCK=" + cid, "-o", exe, cfile, "-pthread"] + cflags,
                          timeout=120)
            if rc != 0:
                ctx.broken("e2e program does not compile with %s" % cflags, e[-500:])
                continue
            dd = os.path.join(work, "d%d_%s" % (pi, mname))
            rc, o, e = sh(["timeout", "60", uft, "record", "--no-pager", "--no-event", "--no-libcall",
                           "--libmcount-path=" + objdir, "-d", dd] + rflags + [exe], timeout=90,
                          env={"LD_PRELOAD": shim})
            if rc != 0:
                ctx.violation("uftrace record failed/timed out on a generated program (rc=%d)" % rc,
                              {"mode": "e2e", "method": mname, "program": src, "stderr": e[-500:]}, True)
                continue
            streams = decode_dir(dd)
            expect = [expected_stream("main", fo_main, names)] + \
                     [expected_stream("worker%d" % i, fo, names) for i, fo in enumerate(fo_threads)]
            got = sorted([[(r[0], r[1], r[2]) for r in v] for v in streams.values()])
            bad_magic = any(r[4] != 5 for v in streams.values() for r in v)
            mono = all(all(v[i][3] <= v[i + 1][3] for i in range(len(v) - 1)) for v in streams.values())
            # every timestamp lies between the program's own clock readings just before the call and just after the return
            br = {}
            for ln in o.split("\n"):
                k = ln.split()
                if len(k) == 4 and k[0] == "BR":
                    br[int(k[1])] = (int(k[2]), int(k[3]))
            bracket_bad = []
            for v in streams.values():
                if not v:
                    continue
                idxs = names["__brackets__"].get(v[0][2])
                if idxs is None:
                    continue
                tops = [r for r in v if r[1] == 1]            # ENTRY/EXIT records of the bracketed (depth 1) calls
                for j, ix in enumerate(idxs):
                    if 2 * j + 1 >= len(tops) or ix not in br:
                        bracket_bad.append((v[0][2], j, "missing"))
                        continue
                    ent, ext = tops[2 * j], tops[2 * j + 1]
                    if not (ent[0] == 0 and ext[0] == 1 and br[ix][0] <= ent[3] <= ext[3] <= br[ix][1]):
                        bracket_bad.append((v[0][2], j, br[ix], ent[3], ext[3]))
            ctx.case(key=("e2e", mname, src), tags=["e2e:" + mname, "e2e:threads=%d" % len(fo_threads), "e2e:clock=" + str(clk)],
                     size=sum(len(x) for x in expect))
            if bracket_bad and got == sorted(expect):
                ctx.violation("C02 (end-to-end, %s): a recorded timestamp lies outside the program's own clock readings taken "
                              "just before the call and just after the return" % mname,
                              {"mode": "e2e-bracket", "method": mname, "program": src, "bad": bracket_bad[:5]}, True)
            if got != sorted(expect) or bad_magic or not mono:
                ctx.violation("C02 (end-to-end, %s): decoded per-thread streams differ from the program's call forest"
                              % mname, {"mode": "e2e", "method": mname, "program": src,
                                        "expected": sorted(expect), "got": got,
                                        "timestamps_monotone": mono, "bad_magic": bad_magic}, True)


# ---------------------------------------------------------------- entry points
def meta(ctx):
    ctx.rule = ("in-process: random call forests (<=40 calls, depth<=9) x {-pg shape, cygprof shape} x -D/-t/--max-stack "
                "values around the forest height, deep recursion at 1023/1024/1030, truncated histories, 3 library "
                "variants, 2-4 interleaved threads, forked children with 0-4 open calls; end-to-end: generated C "
                "programs x 4 instrumentation methods; distinct = distinct (cfg, event list); non-trivial = >=4 events "
                "and nesting >= 2")
    ctx.trusted = [
        "Coq 8.16.1 kernel incl. vm_compute; no axioms (Print Assumptions: closed under the global context)",
        "hand-written model coq/theories/Mcount/Model.v of libmcount/mcount.c + record.c hook automaton; "
        "spec coq/theories/Mcount/Forest.v",
        "generated coq/theories/Gen/Consts.v (record bit-field layout, RECORD_MAGIC, flags) from gen/gen_consts.py",
        "harness/c/mc_harness.c (fake clock, fake return slots), vf/mch.py, vf/mcgen.py, independent .dat decoder in props/c02.py",
    ]
    ctx.assume = [
        "exact equality with the history is proved for the plain configuration (no -F/-N/-T/-C) within --max-stack; "
        "for every switch-free filtered configuration the embedded-sub-history theorem applies, for every "
        "configuration at all the append-only theorem; stack-overflow dropping (--max-stack) under -t and the "
        "-fast/-single variants are covered by the correspondence only",
        "clock readings < 2^64, non-decreasing inside a call; thread interleaving does not matter because all "
        "hook state is per-thread (checked by the interleaved-thread cases, not proved)",
        "buffer hand-off to the recorder is C03's subject: here the bytes in the shm buffers are compared",
    ]


def run(ctx):
    meta(ctx)
    coq.prove(ctx, "C02", extra_files=["Mcount/Check", "Mcount/Table"])
    objdir = build.get_build("plain", ctx.log)
    inproc(ctx)
    depth_field_regression(ctx)
    zero_duration_regression(ctx)
    threads_and_fork(ctx)
    e2e(ctx, objdir)
    e2e_libcall_after_overflow(ctx, objdir)


def replay(ctx, obj):
    meta(ctx)
    coq.prove(ctx, "C02", extra_files=["Mcount/Check", "Mcount/Table"])
    if obj.get("mode") == "e2e" or "events" not in obj:
        ctx.log("replay: re-running the whole check for this kind of case")
        return run(ctx)
    h = mch.Harness(ctx, obj.get("variant", ""))
    cfg = obj["cfg"]
    evs = [tuple(e) for e in obj["events"]]
    res = mcgen.run_case(h, cfg, evs)
    ctx.case(key="replay", sample={"cfg": cfg, "events": evs[:20], "records": res["recs"][:20]})
    defs = "Definition c := %s.\n" % mcgen.case_term(cfg, evs, res)
    evals = [("agree", "agree4 c")]
    if obj.get("forest"):
        fo = [F.Call.from_json(j) for j in obj["forest"]]
        defs += "Definition chk := %s.\n" % coq_plain_check(cfg, fo, res["recs"])
        evals.append(("ok", "chk"))
    r = coq.run_cases(ctx, "c02_replay", mcgen.PRE, defs, evals)
    ctx.log("replay:", r, "records:", res["recs"][:10])
    if r and r.get("ok", "true") != "true":
        ctx.violation("C02: the recorded stream differs from the thread's call history (replay)", obj, True)
    elif r and r["agree"] != "true":
        ctx.violation("model and libmcount disagree (replay)", obj, False)
