"""C06 - Replay shows all tasks in time order with correct nesting and durations.

Theorems: coq/theories/Properties_C06.v over coq/theories/C06/Model.v (model of the k-way merge
of utils/fstack.c, the func_stack/display-depth bookkeeping and cmds/replay.c's graph printer).
Tie: for generated task sets a synthetic data directory is written (vf/datadir.py), the REAL
`uftrace replay` of the current tree is run with every option variant (default, --no-merge,
-f ..., --tid, --column-view, --task-newline and combinations), its stdout is parsed back into
structured lines and compared INSIDE Coq (vm_compute) with the model's output; the executable
property checker (ok_output / same_events of Model.v) judges the implementation's own output.
"""
import os
import re
import shutil

from vf import build, coq, datadir
from vf.forest import Call, gen_shape

E, X, LOSTREC = 0, 1, 2
BASE = 0x400000
BASE2 = 0x700000            # load address of the module in a task's second session
SID2 = "b1b2c3d4e5f60719"
NAMES = ["main", "alpha", "beta", "gamma", "delta", "eps", "zeta", "eta", "theta", "iota"]
FORKS = ["fork", "vfork", "daemon"]
FIELD_ORDER = ["duration", "tid", "addr", "time", "delta", "elapsed", "task", "module"]
FIELD_WIDTH = {"duration": 10, "tid": 9, "addr": 12, "time": 18, "delta": 10, "elapsed": 10, "task": 15, "module": 16}
UNITS = {"us": 0, "ms": 1, " s": 2, " m": 3, " h": 4}
BAD = ("B", 0, 0, 77777, 0, 0, 0, 0, 0)          # a line that could not be parsed: matches nothing


# ------------------------------------------------------------------ function ids
EXEC_NAMES = ["execl", "execlp", "execle", "execv", "execve", "execvp", "execvpe"]
SETJMP_NAMES = ["setjmp", "_setjmp", "sigsetjmp", "__sigsetjmp"]
LONGJMP_NAMES = ["longjmp", "siglongjmp", "__longjmp_chk"]


def fid_of_name(n, k):
    """id of the k-th symbol: the fix-up class of fstack_entry (fixup_syms, matched by name) is visible in the id"""
    if n in EXEC_NAMES:
        return 1000000 + k + 1
    if n in SETJMP_NAMES:
        return 2000000 + k + 1
    if n in LONGJMP_NAMES:
        return 3000000 + k + 1
    return k + 1


def fid(case, k):
    return fid_of_name(case["names"][k], k)


def name_ids(case):
    return {n: fid_of_name(n, k) for k, n in enumerate(case["names"])}


# ------------------------------------------------------------------ case generation
def sym_table(case):
    return [(0x1000 + 0x100 * i, 0x80, "T", n) for i, n in enumerate(case["names"])]


def flatten(forest, d0):
    """forest of Call -> [t, type, depth, k] records"""
    out = []

    def go(c, d):
        out.append([c.t0, E, d, c.k])
        for k in c.kids:
            go(k, d + 1)
        out.append([c.t1, X, d, c.k])
    for c in forest:
        go(c, d0)
    return out


class Clock:
    """per-task clock; small ticks produce ties inside and across tasks"""

    def __init__(self, rng, t0, ticks):
        self.rng, self.t, self.ticks = rng, t0, ticks

    def tick(self):
        self.t += self.rng.choice(self.ticks)
        return self.t


def stamp(forest, clk):
    def go(c):
        c.t0 = clk.tick()
        for k in c.kids:
            go(k)
        c.t1 = clk.tick()
    for c in forest:
        go(c)


def find_calls(forest, pred, path=()):
    res = []
    for c in forest:
        p = path + (c,)
        if pred(c):
            res.append(p)
        res += find_calls(c.kids, pred, p)
    return res


TICKS = [
    (0, 1, 1, 2, 3),                       # dense: many ties
    (1, 2, 5, 50, 100),                    # sparse
    (0, 0, 1),                             # almost everything ties
    (1, 7, 999, 1000, 1001),               # around the us boundary of print_time_unit
    (3, 999999, 1000000, 59999999999, 60000000000, 3600000000000),   # ms / s / m / h units
]


def gen_jump_case(rng):
    """streams that hit the fix-ups of fstack_entry/fstack_update: setjmp ... longjmp from a deeper frame (the frames in
    between never return), longjmp to an OUTER setjmp (the guess "latest setjmp" is corrected by the next EXIT), exec* at
    some depth followed by the new program image from depth 0; one to three tasks (the setjmp pair is static in
    fstack.c, i.e. shared by the tasks), optionally a plain thread next to them"""
    names = ["main", "alpha", "beta", "gamma", "leaf"] + [rng.choice(SETJMP_NAMES), rng.choice(LONGJMP_NAMES),
                                                         rng.choice(EXEC_NAMES), "vfork"]
    SJ, LJ, EX = 5, 6, 7
    tasks = []
    for ti in range(rng.choice([1, 1, 2, 3])):
        clk = Clock(rng, 1000 + rng.randrange(0, 5), rng.choice([(1, 2, 3), (1, 1, 2, 10), (5, 50)]))
        recs = []
        d0 = rng.choice([0, 0, 1])
        d = d0

        def ent(k):
            nonlocal d
            recs.append([clk.tick(), E, d, k])
            d += 1

        def ext(k):
            nonlocal d
            d -= 1
            recs.append([clk.tick(), X, d, k])

        def leaf(k):
            ent(k)
            ext(k)
        ent(0)
        for _ in range(rng.choice([1, 1, 2])):
            shape = rng.choice(["deep", "deep", "outer", "same", "exec", "exec"])
            if shape in ("deep", "same", "outer"):
                ent(1)
                dsj = d                       # depth of the setjmp call
                leaf(SJ)
                path = [2, 3][:rng.choice([1, 2])] if shape != "same" else []
                for k in path:
                    ent(k)
                    if rng.random() < 0.5:
                        leaf(4)
                    if shape == "outer" and k == path[0]:
                        leaf(SJ)              # an inner setjmp: the jump goes back to the OUTER one
                recs.append([clk.tick(), E, d, LJ])                  # longjmp never returns
                d = dsj
                recs.append([clk.tick(), X, d, SJ])                  # setjmp returns a second time
                if rng.random() < 0.7:
                    leaf(4)
                ext(1)
            else:
                ent(rng.choice([1, 2]))
                if rng.random() < 0.5:
                    leaf(4)
                recs.append([clk.tick(), E, d, EX])                  # exec*: the process image is replaced
                d = 0
                ent(0)
                leaf(4)
                if rng.random() < 0.5:
                    ent(3)
                    leaf(4)
                    ext(3)
                if rng.random() < 0.6:
                    ext(0)
        while d > d0 and rng.random() < 0.8:
            d -= 1
            recs.append([clk.tick(), X, d, 0 if d == d0 else 1])
        tasks.append({"tid": None, "parent": None, "recs": recs, "kind": "jump", "cut": False, "lost": False, "created": ti})
    if rng.random() < 0.4:
        f = gen_shape(rng, 5, rng.randrange(2, 8), 3)
        stamp(f, Clock(rng, 1001, (1, 2, 5)))
        tasks.append({"tid": None, "parent": None, "recs": flatten(f, 0), "kind": "thread", "cut": False, "lost": False,
                      "created": len(tasks)})
    tids = rng.sample(range(2, 99999), len(tasks))
    for t, tid in zip(tasks, tids):
        t["tid"] = tid
    return {"names": names, "forks": [8], "tasks": tasks, "max_stack": 1024, "illformed": False, "sess2": None, "jump": True}


def gen_case(rng, size="small"):
    if rng.random() < 0.12:
        return gen_jump_case(rng)
    while True:
        c = gen_case1(rng, size)
        if any(t["recs"] for t in c["tasks"]):      # `replay` refuses a directory without any record
            return c


def gen_case1(rng, size="small"):
    nfun = rng.randrange(3, 9)
    names = list(NAMES[:nfun])
    nfork = rng.choice([0, 1, 1, 2, 3])
    forks = list(range(nfun, nfun + nfork))
    names += FORKS[:nfork]
    ticks = rng.choice(TICKS[:4] if rng.random() < 0.85 else TICKS)
    ntask = rng.choice([1, 2, 2, 3, 3, 4, 5, 6])
    max_calls = {"small": 6, "medium": 14, "large": 40}[size]
    tasks = []
    t_base = 1000
    for i in range(ntask):
        parent = None
        cands = []
        if forks and tasks and rng.random() < 0.6:
            # fork a child from a task that calls a fork-like function
            for pi, pt in enumerate(tasks):
                for path in find_calls(pt["forest"], lambda c: c.k in forks):
                    cands.append((pi, path))
        if cands:
            pi, path = rng.choice(cands)
            pt = tasks[pi]
            d0 = pt["d0"] + pt.get("inherited", 0)
            fork_call = path[-1]
            depth_fork = d0 + len(path) - 1
            start = rng.choice([fork_call.t0, fork_call.t0, fork_call.t0 + 1, fork_call.t1, fork_call.t0 + rng.randrange(0, 5)])
            clk = Clock(rng, start, ticks)
            recs = []
            mode = rng.random()
            d = depth_fork + 1          # stack depth inside fork()
            if mode < 0.25:
                # the child calls something inside fork() first (atfork handlers)
                f = gen_shape(rng, len(names), rng.randrange(1, 4), 3)
                stamp(f, clk)
                recs += flatten(f, d)
            # return from fork and (some of) the inherited callers
            chain = list(path)
            # frames below the parent's own first depth are unknown to us: name them by main
            nexits = rng.randrange(0, len(chain) + 1) if rng.random() < 0.5 else len(chain)
            forest_all = []
            for j in range(nexits):
                c = chain[-1 - j]
                d -= 1
                recs.append([clk.tick(), X, d, c.k])
                if rng.random() < 0.6:
                    f = gen_shape(rng, len(names), rng.randrange(1, max_calls), 4)
                    f = f[:2]
                    stamp(f, clk)
                    recs += flatten(f, d)
                    forest_all += f
            if not recs:
                f = gen_shape(rng, len(names), 2, 2)
                stamp(f, clk)
                recs += flatten(f, d)
                forest_all += f
            tasks.append({"parent": pi, "recs": recs, "forest": forest_all, "d0": recs[0][2] if recs[0][1] == E else recs[0][2] + 1,
                          "inherited": 0, "kind": "child"})
            continue
        d0 = rng.choice([0, 0, 0, 0, 1, 3])
        f = gen_shape(rng, len(names), rng.randrange(1, max_calls + 1), rng.choice([2, 3, 5, 8]))
        if forks and rng.random() < 0.7:
            # plant a fork()-like call
            allc = find_calls(f, lambda c: True)
            host = rng.choice(allc)[-1]
            host.kids.insert(rng.randrange(0, len(host.kids) + 1), Call(rng.choice(forks)))
        clk = Clock(rng, t_base + rng.randrange(0, 6), ticks)
        stamp(f, clk)
        tasks.append({"parent": None, "recs": flatten(f, d0), "forest": f, "d0": d0, "kind": "thread"})
    # open tails: cut some streams
    for t in tasks:
        if t["recs"] and rng.random() < 0.3:
            t["recs"] = t["recs"][:rng.randrange(0, len(t["recs"]) + 1)]
            t["cut"] = True
    # LOST markers (libmcount buffer overflow): a marker replaces a run of records, so the depth may jump
    # up or down across it; also as first / last record, several per task, in several tasks
    if rng.random() < (0.35 if size != "large" else 0.5):
        for t in tasks:
            if not t["recs"] or rng.random() < 0.4:
                continue
            for _ in range(rng.choice([1, 1, 1, 2, 3])):
                recs = t["recs"]
                pos = rng.choice([0, len(recs), rng.randrange(0, len(recs) + 1), rng.randrange(0, len(recs) + 1)])
                drop = rng.choice([0, 1, 1, 2, 3, 5, 8])
                before = [x[0] for x in recs[:pos] if x[0]]
                after = [x[0] for x in recs[pos + drop:] if x[0]]
                prev_t = max(before) if before else (min(after) if after else 1000)
                tm = 0 if rng.random() < 0.7 else prev_t
                marker = [tm, LOSTREC, rng.choice([0, 0, 0, 1, 3]), rng.choice([0, 1, 2, 7, 100, 4096])]
                t["recs"] = recs[:pos] + [marker] + recs[pos + drop:]
            t["lost"] = True
    # an empty task now and then
    if rng.random() < 0.1:
        tasks.append({"parent": None, "recs": [], "forest": [], "d0": 0, "kind": "empty"})
    # ill-formed (not in the property's domain, correspondence only): an inverted timestamp
    illformed = False
    if rng.random() < 0.07:
        cand = [t for t in tasks if len(t["recs"]) >= 3]
        if cand:
            t = rng.choice(cand)
            j = rng.randrange(1, len(t["recs"]))
            if t["recs"][j][1] != LOSTREC and t["recs"][j - 1][1] != LOSTREC:
                t["recs"][j][0] = max(1000, t["recs"][j - 1][0] - rng.choice([1, 2, 500]))
                illformed = True
    # task order in the info file (= index order of the merge) is independent of creation order
    order = list(range(len(tasks)))
    if rng.random() < 0.6:
        rng.shuffle(order)
    pos = {old: new for new, old in enumerate(order)}
    tids = rng.sample(range(2, 99999), len(tasks))
    out_tasks = []
    for new, old in enumerate(order):
        t = tasks[old]
        out_tasks.append({"tid": tids[new], "parent": None if t["parent"] is None else pos[t["parent"]],
                          "recs": [list(r) for r in t["recs"]], "kind": t["kind"], "cut": bool(t.get("cut")),
                          "lost": bool(t.get("lost")),
                          "created": old})
    # a second session (the forked process maps the program again at another address) in a leaf child
    sess2 = None
    if rng.random() < 0.2:
        cand = []
        for i, t in enumerate(out_tasks):
            if t["parent"] is None or t["lost"] or any(u["parent"] == i for u in out_tasks):
                continue
            rs = t["recs"]
            # between two top-level calls of the task (no call of this session stays open across the switch)
            js = [j for j in range(1, len(rs)) if rs[j][0] > rs[j - 1][0] and rs[j][1] == E and rs[j - 1][1] == X
                  and rs[j][2] == rs[j - 1][2] and all(x[2] >= rs[j][2] for x in rs[:j] if x[1] == E)]
            if js:
                cand.append((i, js))
        if cand and not illformed:
            i, js = rng.choice(cand)
            sess2 = {"task": i, "at": rng.choice(js)}
    maxd = max([r[2] for t in out_tasks for r in t["recs"]] or [0])
    if any(t["lost"] for t in out_tasks):
        maxd += 4            # the slots user_stack_count + 0..depth are touched after a marker
    max_stack = rng.choice([1024, 1024, maxd + 1, maxd + 2])
    return {"names": names, "forks": forks, "tasks": out_tasks, "max_stack": max(max_stack, 1), "illformed": illformed,
            "sess2": sess2}


def hand_cases():
    """the boundaries of DESIGN Appendix B, written out"""
    cs = []
    # equal timestamps across two tasks and inside one; leaf separated from its EXIT by another task
    cs.append({"names": ["main", "a", "b"], "forks": [], "max_stack": 1024, "illformed": False, "tasks": [
        {"tid": 300, "parent": None, "recs": [[1000, E, 0, 0], [1000, E, 1, 1], [1005, X, 1, 1], [1010, E, 1, 2], [1010, X, 1, 2], [1020, X, 0, 0]]},
        {"tid": 200, "parent": None, "recs": [[1000, E, 0, 1], [1005, E, 1, 2], [1005, X, 1, 2], [1010, X, 0, 1]]},
        {"tid": 100, "parent": None, "recs": [[1003, E, 0, 2], [1010, X, 0, 2]]}]})
    # child stream starting with k EXITs, parent after child in index order, tie at the fork entry
    cs.append({"names": ["main", "a", "b", "fork"], "forks": [3], "max_stack": 4, "illformed": False, "tasks": [
        {"tid": 50, "parent": 1, "recs": [[1200, X, 2, 3], [1210, E, 2, 2], [1220, X, 2, 2], [1230, X, 1, 1], [1240, X, 0, 0]]},
        {"tid": 40, "parent": None, "recs": [[1000, E, 0, 0], [1100, E, 1, 1], [1200, E, 2, 3], [1300, X, 2, 3], [1400, X, 1, 1], [1500, X, 0, 0]]}]})
    cs.append({"names": ["main", "a", "b", "fork"], "forks": [3], "max_stack": 1024, "illformed": False, "tasks": [
        {"tid": 40, "parent": None, "recs": [[1000, E, 0, 0], [1100, E, 1, 1], [1200, E, 2, 3], [1300, X, 2, 3], [1400, X, 1, 1], [1500, X, 0, 0]]},
        {"tid": 50, "parent": 0, "recs": [[1200, X, 2, 3], [1210, E, 2, 2], [1220, X, 2, 2], [1230, X, 1, 1], [1240, E, 1, 2], [1250, E, 2, 1]]},
        {"tid": 60, "parent": 1, "recs": [[1300, E, 3, 2], [1310, X, 3, 2]]}]})
    # regression (fix: fstack_account_time sets the inherited depth of a child whose parent is not selected at
    # once): the selected child 31 of the unselected 30 starts with the ENTRY of vfork(); its own child 32 must
    # continue at the depth vfork() is displayed at (found by the thorough tier, replay C06-ee965118fba4)
    cs.append({"names": ["main", "a", "b", "fork", "vfork"], "forks": [3, 4], "max_stack": 1024, "illformed": False,
               "variants": [{"fold": False, "sel": [1, 2], "fields": ["duration", "tid", "addr", "time", "delta", "elapsed", "module"],
                             "column": None, "newline": False},
                            {"fold": True, "sel": [1, 2], "fields": ["duration", "tid"], "column": None, "newline": False}],
               "tasks": [
        {"tid": 30, "parent": None, "recs": [[1000, E, 0, 0], [1010, E, 1, 1], [1020, E, 2, 3], [1030, X, 2, 3], [1090, X, 1, 1], [1100, X, 0, 0]]},
        {"tid": 31, "parent": 0, "recs": [[1025, E, 3, 4], [1040, X, 3, 4], [1050, X, 2, 3], [1060, X, 1, 1]]},
        {"tid": 32, "parent": 1, "recs": [[1035, X, 3, 4], [1045, E, 3, 2], [1046, X, 3, 2], [1055, X, 2, 3]]}]})
    # LOST markers: the seeded-regression shape (main{foo{bar{qux{ LOST baz() at depth 1, } main at depth 0) next to
    # an unrelated thread, with --tid variants
    cs.append({"names": ["main", "foo", "bar", "qux", "baz"], "forks": [], "max_stack": 1024, "illformed": False,
               "variants": [{"fold": True, "sel": [0], "fields": ["duration", "tid"], "column": None, "newline": False},
                            {"fold": False, "sel": [0], "fields": ["duration", "tid", "addr", "time", "delta", "elapsed", "module"],
                             "column": None, "newline": False},
                            {"fold": True, "sel": [1], "fields": ["duration", "tid"], "column": None, "newline": False}],
               "tasks": [
        {"tid": 1000, "parent": None, "lost": True, "recs": [[1000, E, 0, 0], [1010, E, 1, 1], [1020, E, 2, 2], [1030, E, 3, 3],
                                                            [0, LOSTREC, 0, 12], [1100, E, 1, 4], [1110, X, 1, 4], [1200, X, 0, 0]]},
        {"tid": 1001, "parent": None, "recs": [[1005, E, 0, 1], [1105, E, 1, 2], [1106, X, 1, 2], [1150, X, 0, 1]]}]})
    # regression (fix 48624de): fork() is the first call after a LOST marker; the child continues at the depth that
    # fork() line is displayed at (depth jump up across the gap)
    cs.append({"names": ["main", "a", "b", "fork"], "forks": [3], "max_stack": 1024, "illformed": False, "tasks": [
        {"tid": 70, "parent": None, "lost": True, "recs": [[1000, E, 0, 0], [1010, E, 1, 1], [1020, X, 1, 1], [0, LOSTREC, 0, 3],
                                                          [1030, E, 2, 3], [1040, X, 2, 3], [1050, X, 1, 2], [1060, X, 0, 0]]},
        {"tid": 71, "parent": 0, "recs": [[1035, X, 2, 3], [1036, E, 2, 2], [1037, X, 2, 2], [1038, X, 1, 2]]}]})
    # nesting up to the largest depth a record can carry (10-bit depth field, max_stack 1024 = default -D)
    deep = [[1000 + d, E, d, d % 3] for d in range(1024)] + [[3000 + (1023 - d), X, d, d % 3] for d in range(1023, -1, -1)]
    cs.append({"names": ["main", "a", "b"], "forks": [], "max_stack": 1024, "illformed": False, "variants_only": True,
               "variants": [{"fold": True, "sel": None, "fields": ["duration", "tid"], "column": None, "newline": False},
                            {"fold": False, "sel": [0], "fields": ["duration", "tid", "time"], "column": None, "newline": False}],
               "tasks": [{"tid": 9, "parent": None, "recs": deep},
                         {"tid": 8, "parent": None, "recs": [[1500, E, 0, 1], [2500, X, 0, 1]]}]})
    # fix-ups of fstack_entry / fstack_update: longjmp three frames below its setjmp (the frames in between never
    # return), then execl at depth 2 followed by the new image from depth 0; a second task shares the static setjmp pair
    cs.append({"names": ["main", "outer", "middle", "thrower", "leaf", "setjmp", "longjmp", "execl", "do_exec"], "forks": [],
               "max_stack": 1024, "illformed": False, "jump": True, "sess2": None, "tasks": [
        {"tid": 500, "parent": None, "recs": [
            [1000, E, 0, 0], [1010, E, 1, 5], [1020, X, 1, 5], [1030, E, 1, 1], [1040, E, 2, 2], [1050, E, 3, 4], [1060, X, 3, 4],
            [1070, E, 3, 3], [1080, E, 4, 4], [1090, X, 4, 4], [1100, E, 4, 6], [1110, X, 1, 5], [1120, E, 1, 4], [1130, X, 1, 4],
            [1140, E, 1, 8], [1150, E, 2, 4], [1160, X, 2, 4], [1170, E, 2, 7],
            [1200, E, 0, 0], [1210, E, 1, 4], [1220, X, 1, 4], [1230, X, 0, 0]]},
        {"tid": 501, "parent": None, "recs": [[1005, E, 0, 1], [1015, E, 1, 2], [1025, E, 2, 5], [1035, X, 2, 5], [1105, E, 2, 4],
                                              [1115, X, 2, 4], [1125, X, 1, 2], [1135, X, 0, 1]]}]})
    # durations at the unit boundaries
    cs.append({"names": ["main", "a"], "forks": [], "max_stack": 2, "illformed": False, "tasks": [
        {"tid": 7, "parent": None, "recs": [[1000, E, 0, 0], [1000, E, 1, 1], [1999, X, 1, 1], [2000, E, 1, 1], [3000, X, 1, 1],
                                            [4000, E, 1, 1], [1003999, X, 1, 1], [2000000, E, 1, 1], [1001999999, X, 1, 1],
                                            [2000000000, E, 1, 1], [62000000000, X, 1, 1], [70000000000, E, 1, 1],
                                            [3670000000000, X, 1, 1], [3670000000000, X, 0, 0]]}]})
    return cs


# ------------------------------------------------------------------ variants
def fields_of(v):
    return v["fields"]


def gen_variants(rng, case, thorough):
    if case.get("variants_only"):
        return [dict(v) for v in case["variants"]]
    n = len(case["tasks"])
    allf = ["duration", "tid", "addr", "time", "delta", "elapsed", "module"]

    def closed_sel():
        """a task selection that keeps the parent of every selected forked child"""
        k = rng.randrange(1, n + 1)
        s = set(rng.sample(range(n), k))
        ch = True
        while ch:
            ch = False
            for i in list(s):
                p = case["tasks"][i]["parent"]
                if p is not None and p not in s:
                    s.add(p)
                    ch = True
        return sorted(s)
    def any_sel():
        """any selection: a forked child selected without its parent continues at its inherited stack depth"""
        return sorted(rng.sample(range(n), rng.randrange(1, n + 1))) if rng.random() < 0.6 else closed_sel()
    D = {"fold": True, "sel": None, "fields": ["duration", "tid"], "column": None, "newline": False}
    vs = [dict(D)]
    vs.append(dict(D, fold=False))
    vs.append(dict(D, fields=allf))
    vs.append(dict(D, sel=any_sel()))
    vs.append(dict(D, column=rng.choice([8, 8, 1, 3])))
    extra = [
        dict(D, fields=[]),
        dict(D, newline=True),
        dict(D, fold=False, fields=allf, sel=any_sel()),
        dict(D, fields=rng.sample(allf, rng.randrange(1, 5))),
        dict(D, fold=rng.random() < 0.5, column=rng.choice([8, 2]), newline=True, fields=["tid", "time", "duration"], sel=any_sel()),
        dict(D, fields=["time", "elapsed", "delta"], fold=False),
        dict(D, fields=list(FIELD_ORDER), fspec="all"),
        dict(D, fields=["duration", "tid", "task"] + rng.sample(["addr", "time", "delta", "elapsed", "module"], 2), fspec="+"),
    ]
    if thorough:
        vs += extra
    else:
        vs += rng.sample(extra, 2)
    vs += [dict(v) for v in case.get("variants", [])]      # variants a hand-written / regression case insists on
    for v in vs:
        v["fields"] = [f for f in FIELD_ORDER if f in v["fields"]]
        if v.get("fspec") == "+":
            v["fspec"] = "+" + ",".join(f for f in v["fields"] if f not in ("duration", "tid"))
    return vs


def variant_args(v, case):
    a = []
    if not v["fold"]:
        a.append("--no-merge")
    if v["sel"] is not None:
        a.append("--tid=" + ",".join(str(case["tasks"][i]["tid"]) for i in v["sel"]))
    if v.get("fspec"):
        a += ["-f", v["fspec"]]          # `all`, or `+a,b` (the default fields plus a, b)
    elif v["fields"] != ["duration", "tid"]:
        a += ["-f", ",".join(v["fields"]) if v["fields"] else "none"]
    if v["column"] is not None:
        a += ["--column-view", "--column-offset=%d" % v["column"]]
    if v["newline"]:
        a.append("--task-newline")
    return a


# ------------------------------------------------------------------ running the implementation
def write_dir(case, d):
    if os.path.exists(d):
        shutil.rmtree(d)
    syms = sym_table(case)
    tl = []
    s2 = case.get("sess2")          # {"task": i, "at": j}: records j.. of task i belong to a second session of its process
    for ti, t in enumerate(case["tasks"]):
        tl.append({"tid": t["tid"], "pid": t["tid"], "ppid": None,
                   "recs": [{"t": r[0], "type": r[1], "depth": r[2],
                             "addr": r[3] if r[1] == LOSTREC else
                             (BASE2 if s2 and s2["task"] == ti and ri >= s2["at"] else BASE) + syms[r[3]][0],
                             # optional 5th component: the argument / return-value payload (hex, on-disk form; used by C18)
                             "payload": bytes.fromhex(r[4]) if len(r) > 4 else b""}
                            for ri, r in enumerate(t["recs"])]})
    desc = {"syms": syms, "base": BASE, "tasks": tl, "max_stack": case["max_stack"]}
    if case.get("argspec"):
        desc["args"] = True
    if case.get("perf"):
        # {cpu: [[time, task index, "out"|"preempt"|"in"], ...]}: context-switch events of the perf source
        desc["perf"] = {int(cpu): [(e[0], case["tasks"][e[1]]["tid"], e[2]) for e in evs] for cpu, evs in case["perf"].items()}
    datadir.write(desc, d, argspec=case.get("argspec"))
    # task.txt in creation order (a parent before its children); threads belong to the first root
    tasks = case["tasks"]
    done, lines = set(), []
    roots = [i for i, t in enumerate(tasks) if t["parent"] is None]
    lead = roots[0] if roots else 0
    lines.append('SESS timestamp=0.000000100 pid=%d sid=a1b2c3d4e5f60718 exename="/fake/prog"' % tasks[lead]["tid"])
    pending = list(range(len(tasks)))
    pending.sort(key=lambda i: tasks[i].get("created", i))
    k = 0
    while pending:
        progressed = False
        for i in list(pending):
            t = tasks[i]
            if t["parent"] is None:
                lines.append("TASK timestamp=0.%09d tid=%d pid=%d" % (200 + k, t["tid"], tasks[lead]["tid"]))
            elif t["parent"] in done:
                lines.append("FORK timestamp=0.%09d pid=%d ppid=%d" % (200 + k, t["tid"], tasks[t["parent"]]["tid"]))
            else:
                continue
            k += 1
            done.add(i)
            pending.remove(i)
            progressed = True
        if not progressed:
            raise RuntimeError("cyclic parents in case")
    if s2:
        # a new session of the (forked) process: same program mapped at another address; libmcount sends
        # SESSION and then TASK again
        t = tasks[s2["task"]]
        ts = t["recs"][s2["at"]][0]
        lines.append('SESS timestamp=%d.%09d pid=%d sid=%s exename="/fake/prog"' % (ts // 10**9, ts % 10**9, t["tid"], SID2))
        lines.append("TASK timestamp=%d.%09d tid=%d pid=%d" % (ts // 10**9, ts % 10**9, t["tid"], t["tid"]))
        with open(os.path.join(d, "sid-%s.map" % SID2), "w") as f:
            f.write("%x-%x r-xp 00000000 08:01 1234                       /fake/prog\n" % (BASE2, BASE2 + 0x100000))
            f.write("7ffc00000000-7ffc00021000 rw-p 00000000 00:00 0                          [stack]\n")
    with open(os.path.join(d, "task.txt"), "w") as f:
        f.write("\n".join(lines) + "\n")


def parse_time_unit(s):
    if not s.strip():
        return 0
    m = re.fullmatch(r" *(\d+)\.(\d{3}) (us|ms| s| m| h)", s)
    if not m:
        return None
    return UNITS[m.group(3)] * 1000000 + int(m.group(1)) * 1000 + int(m.group(2))


def parse_output(out, v, case):
    """stdout of replay -> (lines, remaining); lines are 9-tuples (kind, task, indent, name, dur, addr, time, delta, elapsed)"""
    name_idx = name_ids(case)
    tid_idx = {t["tid"]: i for i, t in enumerate(case["tasks"])}
    syms = sym_table(case)
    addr_idx = {BASE + s[0]: fid(case, i) for i, s in enumerate(syms)}
    addr_idx.update({BASE2 + s[0]: fid(case, i) for i, s in enumerate(syms)})
    addr_idx[0] = 0
    marker = "\nuftrace stopped tracing with remaining functions\n================================================\n"
    rem_txt = ""
    if marker in out:
        out, rem_txt = out.split(marker, 1)
    fields = v["fields"]
    plen = sum(1 + FIELD_WIDTH[f] for f in fields)
    body = out.split("\n")
    if body and body[-1] == "":
        body.pop()
    lines = []
    first = True
    for ln in body:
        if first:
            first = False
            if fields:
                if ln.startswith("#") or (ln == "" and len(body) == 1):
                    continue        # header line; without any record only its newline is printed
                lines.append(BAD)
                continue
        vals = {"duration": 0, "tid": 0, "addr": 0, "time": 0, "delta": 0, "elapsed": 0}
        ok = True
        blank_prefix = True
        if fields:
            if len(ln) < plen + 3 or ln[plen:plen + 3] != " | ":
                lines.append(BAD)
                continue
            pre, text = ln[:plen], ln[plen + 3:]
            blank_prefix = not pre.strip()
            off = 0
            for f in fields:
                w = FIELD_WIDTH[f]
                s = pre[off + 1:off + 1 + w]
                if pre[off] != " ":
                    ok = False
                off += 1 + w
                if f in ("duration", "delta", "elapsed"):
                    x = parse_time_unit(s)
                    if x is None:
                        ok = False
                    else:
                        vals[f] = x
                elif f == "tid":
                    m = re.fullmatch(r"\[ *(\d+)\]", s)
                    if m:
                        vals[f] = tid_idx.get(int(m.group(1)), 999)
                    elif s.strip():
                        ok = False
                    else:
                        vals[f] = None
                elif f == "addr":
                    if s.strip():
                        try:
                            vals[f] = addr_idx.get(int(s.strip(), 16), 99999)
                        except ValueError:
                            ok = False
                elif f == "time":
                    m = re.fullmatch(r" *(\d+)\.(\d{9})", s)
                    if m:
                        vals[f] = int(m.group(1)) * 10**9 + int(m.group(2))
                    elif s.strip():
                        ok = False
                elif f == "task":
                    if s.strip() not in ("prog", ""):      # comm of every task of the synthetic directory
                        ok = False
                elif f == "module":
                    if s.strip() == "[unknown]":
                        # an inherited func_stack slot has no address
                        if "addr" in fields and vals["addr"] != 0:
                            ok = False
                    elif s.strip() not in ("prog", ""):
                        ok = False
        else:
            text = ln
        m = re.fullmatch(r"( *)(.*)", text)
        sp, rest = len(m.group(1)), m.group(2)
        kind = None
        name = 0
        if rest == "" and blank_prefix:
            kind, indent = "B", 0
            if sp != 0 and not fields:
                ok = False
        elif re.fullmatch(r"/\* LOST (\d+|some) records!! \*/", rest):
            mm = re.fullmatch(r"/\* LOST (\d+|some) records!! \*/", rest)
            kind, indent = "T", sp // 2
            name = 0 if mm.group(1) == "some" else int(mm.group(1))
            if sp % 2 or vals["duration"] or vals["addr"]:
                ok = False
        elif re.fullmatch(r"/\* linux:sched-(in|out|out \(pre-empted\)) \*/", rest):
            # a context-switch event of the perf source (sched cases only)
            kind, indent = "S", sp // 2
            name = {"in": 1, "out": 2, "out (pre-empted)": 3}[re.fullmatch(r"/\* linux:sched-(.*) \*/", rest).group(1)]
            if sp % 2:
                ok = False          # (the addr column shows the event id: not compared)
        elif rest == "/* inverted time: broken data? */" and blank_prefix:
            kind, indent = "W", (sp - 1) // 2
            if sp % 2 != 1:
                ok = False
        else:
            m1 = re.fullmatch(r"([A-Za-z_][A-Za-z_0-9.]*)\(\) \{", rest)
            m2 = re.fullmatch(r"([A-Za-z_][A-Za-z_0-9.]*)\(\);", rest)
            m3 = re.fullmatch(r"\} /\* ([A-Za-z_][A-Za-z_0-9.]*) \*/", rest)
            mm = m1 or m2 or m3
            if mm is None or sp % 2:
                ok = False
            else:
                kind = "O" if m1 else ("L" if m2 else "C")
                indent = sp // 2
                name = name_idx.get(mm.group(1), 88888)
                if "tid" in fields and vals["tid"] is None:
                    ok = False
        if not ok or kind is None:
            lines.append(BAD)
            continue
        if kind in ("B", "W"):
            lines.append((kind, 0, indent, 0, 0, 0, 0, 0, 0))
        else:
            lines.append((kind, vals["tid"] or 0, indent, name, vals["duration"], vals["addr"], vals["time"], vals["delta"], vals["elapsed"]))
    rem = []
    cur = None
    for ln in rem_txt.split("\n"):
        m = re.fullmatch(r"task: (\d+)", ln)
        if m:
            cur = (tid_idx.get(int(m.group(1)), 999), [])
            rem.append(cur)
            continue
        m = re.fullmatch(r"\[(-?\d+)\] (.*)", ln)
        if m and cur is not None:
            lv = int(m.group(1))
            nm = m.group(2)
            mh = re.fullmatch(r"<([0-9a-f]+)>", nm)
            if mh:
                # after a LOST marker the slot's time is a duration: the symbol lookup by time finds no
                # session and the address is printed instead of the name (not what C06 speaks about)
                k = addr_idx.get(int(mh.group(1), 16), 99999)
            else:
                k = name_idx.get(nm, 88888)
            cur[1].append((lv if lv >= 0 else 55555, k))
        elif ln.strip():
            rem.append((998, []))
    return lines, rem


def run_variant(objdir, d, case, v):
    rc, out, err = datadir.uftrace(objdir, "replay", d, variant_args(v, case), timeout=30)
    if rc != 0:
        return None, "rc=%d %s" % (rc, (out + err)[-400:])
    return parse_output(out, v, case), out


# ------------------------------------------------------------------ Coq terms
KIND = {"O": "KOpen", "L": "KLeaf", "C": "KClose", "W": "KWarn", "B": "KBlank", "T": "KLost"}


def coq_line(l):
    return "L %s %d %d %d %d %d %d %d %d" % ((KIND[l[0]],) + tuple(l[1:]))


def coq_output(o):
    lines, rem = o
    return "([%s], [%s])" % ("; ".join(coq_line(l) for l in lines),
                             "; ".join("(%d%%nat, [%s])" % (i, "; ".join("(%d, %d)" % p for p in ls)) for i, ls in rem))


def coq_task(t, case):
    return "T %s [%s]" % ("None" if t["parent"] is None else "(Some %d%%nat)" % t["parent"],
                          "; ".join("R %d %s %d %d" % (r[0], ["ENTRY", "EXIT", "LOST"][r[1]], r[2],
                                                       r[3] if r[1] == LOSTREC else fid(case, r[3]))
                                    for r in t["recs"]))


def coq_variant(v):
    f = v["fields"]
    return "V %s %s (F %s) %s %s" % (
        coq.coq_bool(v["fold"]),
        "None" if v["sel"] is None else "(Some [%s])" % "; ".join("%d%%nat" % i for i in v["sel"]),
        " ".join(coq.coq_bool(x in f) for x in ["duration", "tid", "addr", "time", "delta", "elapsed"]),
        "None" if v["column"] is None else "(Some %d)" % v["column"], coq.coq_bool(v["newline"]))


def chk_of(v, idx):
    f = v["fields"]
    if v["column"] is not None and "tid" not in f:
        return "ChkNone"
    if "tid" in f and "duration" in f:
        return "(ChkSpec %s)" % coq.coq_bool("time" in f)
    if idx == 0:
        return "ChkNone"
    return "(ChkSame %s %s)" % (coq.coq_bool("tid" in f), coq.coq_bool("duration" in f))


PRE = """From Coq Require Import NArith List Bool.
Import ListNotations.
Require Import UV.C06.Model.
Local Open Scope N_scope.
Definition L := mkline. Definition R := mkrec. Definition T := mktask. Definition V := mkvariant. Definition F := mkfields.
"""


def evaluate(ctx, items, name="cases"):
    """items: list of (case, [(variant, observed_output)...]); returns dict of flat index lists"""
    defs = []
    for ci, (case, obs) in enumerate(items):
        defs.append("Definition c%d : tcase := ([%s], [%s], [%s])." % (
            ci, "; ".join(str(fid(case, k)) for k in case["forks"]), ";\n ".join(coq_task(t, case) for t in case["tasks"]),
            ";\n ".join("(%s, %s, %s)" % (coq_variant(v), coq_output(o), chk_of(v, vi)) for vi, (v, o) in enumerate(obs))))
    defs.append("Definition cases : list tcase := [%s]." % "; ".join("c%d" % i for i in range(len(items))))
    res = coq.run_cases(ctx, name, PRE, "\n".join(defs), [
        ("mismatch", "bad_indices (fun b : bool => b) (flat_map agree_case cases) 0"),
        ("violations", "bad_indices (fun b : bool => b) (flat_map check_case cases) 0"),
    ])
    if res is None:
        return None
    return {k: coq.parse_nat_list(v) for k, v in res.items()}


# ------------------------------------------------------------------ perf source: context-switch events
def gen_sched_case(rng, k=0):
    """a LOST-free task set + sched-out / sched-in pairs of its tasks in perf-cpuN.dat: each pair lies between two consecutive
    records of its task (or after the last), with time stamps equal to / 1 ns around those records"""
    while True:
        case = gen_case1(rng, "small" if k % 3 else "medium")
        if case["illformed"] or case.get("sess2") or any(r[1] == LOSTREC for t in case["tasks"] for r in t["recs"]):
            continue
        if any(t["parent"] is not None for t in case["tasks"]):
            continue        # events in forked children (inherited frames) are not modelled
        if any(t["recs"] for t in case["tasks"]):
            break
    ncpu = rng.choice([1, 2, 2, 3])
    perf = {c: [] for c in range(ncpu)}
    for ti, t in enumerate(case["tasks"]):
        rs = t["recs"]
        if not rs or rng.random() < 0.15:
            continue
        js = sorted(rng.sample(range(len(rs)), min(len(rs), rng.choice([1, 1, 2, 3]))))
        js = [j for n, j in enumerate(js) if n == 0 or j - js[n - 1] > 1]
        for j in js:
            lo = rs[j][0]
            hi = rs[j + 1][0] if j + 1 < len(rs) else lo + rng.choice([1, 2, 1000, 5000])
            if hi <= lo:
                continue
            a = rng.choice([lo, lo, lo, lo + 1, lo + (hi - lo) // 2])
            b = rng.choice([hi, hi, hi, hi - 1, a + 1])
            a = min(a, hi - 1)
            b = max(min(b, hi), a + 1)
            perf[rng.randrange(ncpu)].append([a, ti, rng.choice(["out", "out", "preempt"])])
            perf[rng.randrange(ncpu)].append([b, ti, "in"])
    for c in perf:
        perf[c].sort(key=lambda e: e[0])            # stable: a cpu's events in time order
    # a sched-in queued behind another task's event of the same time on the same cpu cannot overtake it (file order):
    # outside the tie rule (see manifest) - such a sched-in goes to a cpu of its own
    for c in list(perf):
        keep = []
        for e in perf[c]:
            if e[2] == "in" and keep and keep[-1][0] == e[0] and keep[-1][1] != e[1]:
                perf[len(perf)] = [e]
            else:
                keep.append(e)
        perf[c] = keep
    case["perf"] = {str(c): evs for c, evs in perf.items()}
    # the virtual schedule frame needs a slot of its own above the deepest call
    maxd = max([r[2] for t in case["tasks"] for r in t["recs"]] or [0])
    case["max_stack"] = max(case["max_stack"], maxd + 3)      # (the comment line looks at the slot above it too)
    return case


def sched_hand_cases():
    base = {"names": ["main", "alpha", "beta"], "forks": [], "max_stack": 1024, "illformed": False, "sess2": None}
    one = lambda recs, evs: dict(base, tasks=[{"tid": 100, "parent": None, "recs": recs}], perf={"0": evs})
    return [
        # sched-out at the time of EXIT alpha (the user record comes first), sched-in one ns before the next record
        one([[1000, E, 0, 0], [2000, E, 1, 1], [3000, X, 1, 1], [6000, X, 0, 0]], [[3000, 0, "out"], [5000, 0, "in"]]),
        # sched-in at the time of EXIT alpha (repaired defect: the sched-in comes first)
        one([[1000, E, 0, 0], [2000, E, 1, 1], [5000, X, 1, 1], [6000, X, 0, 0]], [[3000, 0, "out"], [5000, 0, "in"]]),
        # sched-in at the time of ENTRY beta, sched-out at the time of EXIT alpha
        one([[1000, E, 0, 0], [2000, E, 1, 1], [3000, X, 1, 1], [5000, E, 1, 2], [5500, X, 1, 2], [6000, X, 0, 0]],
            [[3000, 0, "out"], [5000, 0, "in"]]),
        # two tasks, two cpus, the task migrates
        dict(base, tasks=[{"tid": 100, "parent": None, "recs": [[1000, E, 0, 0], [2000, E, 1, 1], [3000, X, 1, 1], [7000, X, 0, 0]]},
                          {"tid": 101, "parent": None, "recs": [[1500, E, 0, 2], [2500, E, 1, 1], [3000, X, 1, 1], [3500, X, 0, 2]]}],
             perf={"0": [[3000, 0, "preempt"], [3000, 1, "out"]], "1": [[3400, 1, "in"], [5000, 0, "in"]]}),
    ]


def coq_xline(l):
    if l[0] == "S":
        return "XE %d%%nat %d %d %d %d" % (l[1], l[2], l[3], l[4], l[6])
    return "XL (%s)" % coq_line(l)


SCHED_FIELDS = [["duration", "tid", "time"], ["duration", "tid"], ["duration", "tid", "addr", "time"]]
PRE_X = PRE + "Require Import UV.C06.Sched.\n"


def run_sched(ctx, objdir, cases, name="xcases"):
    """data with perf context-switch events: the real `replay --no-merge` against the model replay_x (tie rule of the code)
    and the property checker ok_sched"""
    items = []
    for case in cases:
        d = os.path.join(ctx.scratch, "xdata")
        write_dir(case, d)
        n = len(case["tasks"])
        sels = [None]
        if n > 1:
            from props import c18 as _c18   # parent-closed selections
            sels.append(_c18.closed_sel(ctx.rng, case))
        obs = []
        for vi, sel in enumerate(sels):
            v = {"fold": False, "sel": sel, "fields": SCHED_FIELDS[(len(items) + vi) % len(SCHED_FIELDS)] if vi == 0 else SCHED_FIELDS[0],
                 "column": None, "newline": False}
            o, raw = run_variant(objdir, d, case, v)
            if o is None:
                ctx.violation("uftrace replay failed on a directory with perf context-switch events: %s" % raw,
                              {"sched_case": case, "variant": v}, True)
                continue
            obs.append((v, o[0]))
        items.append((case, obs))
        evs = [e for c in case["perf"].values() for e in c]
        times = {(ti, r[0]): r[1] for ti, t in enumerate(case["tasks"]) for r in t["recs"]}
        tags = ["perf-sched", "cpus=%d" % len(case["perf"])]
        for e in evs:
            ty = times.get((e[1], e[0]))
            if ty is not None:
                tags.append("sched-%s-ties-%s" % ("in" if e[2] == "in" else "out", "ENTRY" if ty == E else "EXIT"))
            elif (e[1], e[0] - 1) in times or (e[1], e[0] + 1) in times:
                tags.append("sched-1ns-from-record")
        for v, o in obs:
            ctx.case(key=("sched", repr([t["recs"] for t in case["tasks"]]), repr(case["perf"]), repr(v["sel"]), repr(v["fields"])),
                     nontrivial=bool(evs), tags=sorted(set(tags)) + (["--tid"] if v["sel"] else []), size=len(o))
    if not items:
        return
    kinds = {"in": 1, "out": 2, "preempt": 3}
    defs = []
    for ci, (case, obs) in enumerate(items):
        cpus = "; ".join("[%s]" % "; ".join("mkpev %d %d%%nat %d" % (e[0], e[1], kinds[e[2]]) for e in case["perf"][c])
                         for c in sorted(case["perf"], key=int))
        vs = ";\n ".join("(%s, F %s, [%s])" % (
            "None" if v["sel"] is None else "(Some [%s])" % "; ".join("%d%%nat" % i for i in v["sel"]),
            " ".join(coq.coq_bool(x in v["fields"]) for x in ["duration", "tid", "addr", "time", "delta", "elapsed"]),
            "; ".join(coq_xline(l) for l in o)) for v, o in obs)
        defs.append("Definition c%d : xcase := ([%s], [%s], [%s], [%s])." % (
            ci, "; ".join(str(fid(case, k)) for k in case["forks"]), ";\n ".join(coq_task(t, case) for t in case["tasks"]), cpus, vs))
    defs.append("Definition cases : list xcase := [%s]." % "; ".join("c%d" % i for i in range(len(items))))
    res = coq.run_cases(ctx, name, PRE_X, "\n".join(defs), [
        ("mismatch", "bad_indices (fun b : bool => b) (flat_map (agree_xcase tie_sched_in_first) cases) 0"),
        ("violations", "bad_indices (fun b : bool => b) (flat_map check_xcase cases) 0"),
    ])
    if res is None:
        return
    flat = [(ci, vi) for ci, (case, obs) in enumerate(items) for vi in range(len(obs))]
    bad = coq.parse_nat_list(res["violations"])
    mis = coq.parse_nat_list(res["mismatch"])
    for k in bad[:3]:
        ci, vi = flat[k]
        case, obs = items[ci]
        ctx.violation("C06 violated with perf context-switch events: the user calls `uftrace replay %s` shows do not have the "
                      "durations (exit - entry) / nesting they have without the events, or a sched-in does not show the time "
                      "its task was switched out" % " ".join(variant_args(obs[vi][0], case)),
                      {"sched_case": case, "variant": obs[vi][0], "observed": obs[vi][1]}, True)
    if mis and not bad:
        ci, vi = flat[mis[0]]
        case, obs = items[ci]
        ctx.violation("model (C06.Sched.replay_x) and implementation of replay disagree on %d (case, variant) pairs with perf "
                      "events; the property checker accepts the implementation's output" % len(mis),
                      {"correspondence": "C06.Sched.replay_x vs `uftrace replay --no-merge`", "sched_case": case,
                       "variant": obs[vi][0], "observed": obs[vi][1]}, False)
    ctx.extra["disagreements_checked"] = ctx.extra.get("disagreements_checked", 0) + len(mis)


# ------------------------------------------------------------------ folding under -F / -N / -D
def gen_nest_case(rng):
    """one or two tasks of deep call chains over few names (nested and recursive -F hits are frequent)"""
    nfun = rng.choice([3, 4, 5])
    names = list(NAMES[:nfun])
    tasks = []
    for ti in range(rng.choice([1, 1, 2])):
        clk = [1000 + rng.randrange(0, 5)]

        def tick():
            clk[0] += rng.choice([1, 1, 2, 7])
            return clk[0]
        recs = []

        def call(d, budget):
            k = rng.randrange(nfun)
            recs.append([tick(), E, d, k])
            n = 0 if d >= 7 else rng.choice([0, 1, 1, 1, 2, 3])
            for _ in range(n):
                if budget[0] <= 0:
                    break
                budget[0] -= 1
                call(d + 1, budget)
            recs.append([tick(), X, d, k])
        for _ in range(rng.choice([1, 2])):
            call(0, [rng.choice([6, 10, 16])])
        tasks.append({"tid": 700 + ti, "parent": None, "recs": recs})
    return {"names": names, "forks": [], "tasks": tasks, "max_stack": 1024, "illformed": False, "sess2": None}


def fold_hand_cases():
    names = ["main", "outer", "mid", "inner", "leaf"]
    chain = [[1000 + 10 * i, E, i, i] for i in range(5)] + [[1100 + 10 * i, X, 4 - i, 4 - i] for i in range(5)]
    c1 = {"names": names, "forks": [], "tasks": [{"tid": 800, "parent": None, "recs": chain}], "max_stack": 1024, "illformed": False}
    rec = [[1000 + 10 * i, E, i, 1 if i else 0] for i in range(6)] + [[1100 + 10 * i, X, 5 - i, 1 if i < 5 else 0] for i in range(6)]
    c2 = {"names": ["main", "rec"], "forks": [], "tasks": [{"tid": 801, "parent": None, "recs": rec}], "max_stack": 1024, "illformed": False}
    out = []
    for d in (1, 2, 3):
        out.append((c1, {"depth": d, "F": ["outer", "inner"], "N": [], "t": None}))
        out.append((c1, {"depth": d, "F": ["outer", "mid", "leaf"], "N": [], "t": None}))
        out.append((c2, {"depth": d, "F": ["rec"], "N": [], "t": None}))
    out.append((c1, {"depth": 2, "F": ["outer", "inner"], "N": ["leaf"], "t": None}))
    return out


def run_fold_opts(ctx, objdir, pairs, name="fcases"):
    """folding is presentation also under replay-time filters: for the same data and option set the calls of the default view
    (a folded leaf = its entry and exit) are the calls of the --no-merge view: same order, task, indentation, name, duration"""
    from props import c18 as _c18
    items = []
    for case, o in pairs:
        d = os.path.join(ctx.scratch, "fdata")
        write_dir(case, d)
        outs = []
        for fold in (False, True):
            v = {"fold": fold, "sel": None, "fields": ["duration", "tid"], "column": None, "newline": False}
            rc, out, err = datadir.uftrace(objdir, "replay", d, variant_args(v, case) + _c18.opts_args(o), timeout=30)
            if rc != 0:
                ctx.violation("uftrace replay failed with filter options (rc=%d): %s" % (rc, (out + err)[-300:]),
                              {"fold_case": case, "opts": o}, True)
                break
            outs.append(parse_output(out, v, case)[0])
        if len(outs) != 2:
            continue
        items.append((case, o, outs))
        nhit = sum(1 for t in case["tasks"] for r in t["recs"] if r[1] == E and case["names"][r[3]] in o["F"])
        ctx.case(key=("fold-opts", repr([t["recs"] for t in case["tasks"]]), repr(_c18.opts_args(o))),
                 nontrivial=len(outs[0]) > 0,
                 tags=["fold-vs-no-merge", "opts:" + "".join(a for a in _c18.opts_args(o) if a.startswith("-"))]
                 + (["filter-hits>=2"] if nhit >= 2 else []) + (["-F x2"] if len(o["F"]) >= 2 else []),
                 size=len(outs[0]))
    if not items:
        return
    defs = "Definition runs : list (list line * list line) := [%s]." % ";\n".join(
        "([%s], [%s])" % ("; ".join(coq_line(l) for l in outs[0]), "; ".join(coq_line(l) for l in outs[1])) for _, _, outs in items)
    res = coq.run_cases(ctx, name, PRE, defs, [("bad", "bad_indices (fun x => same_events true true None (fst x) (snd x)) runs 0")])
    if res is None:
        return
    from props import c18 as _c18b
    for i in coq.parse_nat_list(res["bad"])[:3]:
        case, o, outs = items[i]
        ctx.violation("C06 violated: with `%s` the default (folded) view of `uftrace replay` does not show the calls of the "
                      "--no-merge view (a call's line is missing / its indentation or duration differs): folding changed more "
                      "than the presentation" % " ".join(_c18b.opts_args(o)),
                      {"fold_case": case, "opts": o, "no_merge": outs[0], "default": outs[1]}, True)


# ------------------------------------------------------------------ entry points
def common_meta(ctx):
    ctx.rule = ("a case = one generated task set (1-6 tasks: threads, forked children starting with k EXITs or inside fork(), "
                "open tails, empty tasks, shuffled task order, tick patterns producing ties, unit-boundary durations, "
                "hdr.max_stack = deepest+1) x one option variant of `uftrace replay`; distinct = distinct (records, options); "
                "non-trivial = at least two tasks or a forked child or an open call")
    ctx.trusted = [
        "Coq 8.16.1 kernel incl. vm_compute (no native_compute); Print Assumptions: closed under the global context",
        "hand-written model coq/theories/C06/Model.v of utils/fstack.c (read_user_stack, get_task_ustack head order, "
        "fstack_account_time, fstack_update_stack_count, fstack_entry/update/skip) and cmds/replay.c (print_graph_rstack, "
        "print_remaining_stack, fields, print_time_unit)",
        "synthetic data directory writer vf/datadir.py (+ task.txt writer in props/c06.py) and the stdout parser of props/c06.py",
    ]
    ctx.assume = [
        "records are ENTRY/EXIT of user functions and the LOST marker of libmcount (no EVENT, no kernel/extern data, no arguments); perf "
        "context-switch events only in the sched cases (--no-merge view, no forked children, no LOST, events after the task's first record)",
        "nesting depth < hdr.max_stack <= 1024 (default -D), no -t/-F/-N/-T/-r options, one session, symbols resolve",
        "fix-up symbols fork/vfork/daemon, exec*, *setjmp*, *longjmp* are modelled (ids carry the class); the property checker is applied to streams of plain functions, jump/exec streams are compared with the model only",
        "--tid: presentation fields (-f without tid/duration) are compared with the full view only under parent-closed selections; a forked child selected without its parent continues at its inherited stack depth (modelled; the repaired defect tid-child-without-parent has a dedicated witness)",
        "timestamps >= 1000 ns and < 2^63; well-formed = per-task non-decreasing times, balanced against inherited frames",
    ]


def setup(ctx):
    coq.prove(ctx, "C06")
    return build.get_build("plain", ctx.log)


def run_case(ctx, objdir, case, variants):
    d = os.path.join(ctx.scratch, "data")
    write_dir(case, d)
    obs = []
    for v in variants:
        o, raw = run_variant(objdir, d, case, v)
        if o is None:
            ctx.violation("uftrace replay failed on a well-formed synthetic directory: %s" % raw,
                          {"case": case, "variant": v}, True)
            continue
        obs.append((v, o))
    return obs


def case_tags(case):
    tags = ["tasks=%d" % len(case["tasks"])]
    if any(t["parent"] is not None for t in case["tasks"]):
        tags.append("forked-child")
    for t in case["tasks"]:
        if t["parent"] is not None and t["recs"]:
            k = 0
            for r in t["recs"]:
                if r[1] != X:
                    break
                k += 1
            tags.append("child-leading-exits=%d" % min(k, 3))
            if t["parent"] > case["tasks"].index(t):
                tags.append("child-before-parent-in-index")
    times = [(r[0], i) for i, t in enumerate(case["tasks"]) for r in t["recs"]]
    ts = {}
    for tm, i in times:
        ts.setdefault(tm, set()).add(i)
    if any(len(s) > 1 for s in ts.values()):
        tags.append("tie-across-tasks")
    if any(a[0] == b[0] for t in case["tasks"] for a, b in zip(t["recs"], t["recs"][1:])):
        tags.append("tie-inside-task")
    if case.get("sess2"):
        tags.append("second-session")
    if case.get("jump"):
        nm = case["names"]
        ks = {nm[r[3]] for t in case["tasks"] for r in t["recs"] if r[1] != LOSTREC}
        tags += ["fixup:" + ("exec" if n in EXEC_NAMES else "setjmp" if n in SETJMP_NAMES else "longjmp")
                 for n in ks if n in EXEC_NAMES + SETJMP_NAMES + LONGJMP_NAMES]
    if any(t.get("cut") for t in case["tasks"]):
        tags.append("open-tail")
    for t in case["tasks"]:
        rs = t["recs"]
        for j, r in enumerate(rs):
            if r[1] != LOSTREC:
                continue
            tags.append("lost-marker")
            if j == 0:
                tags.append("lost-first-record")
            if j == len(rs) - 1:
                tags.append("lost-last-record")
            before = [x for x in rs[:j] if x[1] != LOSTREC]
            after = [x for x in rs[j + 1:] if x[1] != LOSTREC]
            if before and after:
                db = before[-1][2] + (1 if before[-1][1] == E else 0)
                da = after[0][2] + (1 if after[0][1] == X else 0)
                tags.append("lost-depth-" + ("up" if da > db else "down" if da < db else "same"))
            if r[0] == 0:
                tags.append("lost-time-0")
    if case["illformed"]:
        tags.append("illformed-inverted-time")
    maxd = max([r[2] for t in case["tasks"] for r in t["recs"]] or [0])
    if case["max_stack"] == maxd + 1:
        tags.append("depth=max_stack-1")
    if any(t["recs"] and t["recs"][0][1] == E and t["recs"][0][2] > 0 and t["parent"] is None for t in case["tasks"]):
        tags.append("start-depth>0")
    return tags


def verdict(ctx, items, res):
    if res is None:
        return
    flat = [(ci, vi) for ci, (case, obs) in enumerate(items) for vi in range(len(obs))]
    for k in res["violations"][:3]:
        ci, vi = flat[k]
        case, obs = items[ci]
        ctx.violation("C06 violated: the lines `uftrace replay %s` printed are not the tasks' calls in order with "
                      "indentation = nesting depth and duration = exit - entry (or differ from the default view)"
                      % " ".join(variant_args(obs[vi][0], case)),
                      {"case": case, "variant": obs[vi][0], "observed": obs[vi][1]}, True)
    if res["mismatch"] and not res["violations"]:
        ci, vi = flat[res["mismatch"][0]]
        case, obs = items[ci]
        ctx.violation("model and implementation of replay disagree on %d (case, variant) pairs; the property checker accepts "
                      "the implementation's output on every explored case" % len(res["mismatch"]),
                      {"correspondence": "C06.Model.replay vs `uftrace replay` stdout", "case": case,
                       "variant": obs[vi][0], "observed": obs[vi][1]}, False)
    ctx.extra["disagreements_checked"] = ctx.extra.get("disagreements_checked", 0) + len(res["mismatch"])


# ------------------------------------------------------------------ known finding: --tid <forked child> alone
KF_KEY = "tid-child-without-parent"
KF_TEXT = ("`uftrace replay --tid <forked child>` without its parent shows the child's inherited calls at depth 0 instead "
           "of the parent's depth at fork(), so --tid changes the indentation of the calls shown")


def kf_case():
    """the witness of C06_tid_child_only_refuted: parent main{a{fork}}, child leaves fork(), calls b, leaves a"""
    return {"names": ["main", "a", "b", "fork"], "forks": [3], "max_stack": 1024, "illformed": False, "tasks": [
        {"tid": 40, "parent": None, "recs": [[1000, E, 0, 0], [1100, E, 1, 1], [1200, E, 2, 3], [1300, X, 2, 3], [1400, X, 1, 1], [1500, X, 0, 0]]},
        {"tid": 50, "parent": 0, "recs": [[1250, X, 2, 3], [1260, E, 2, 2], [1270, X, 2, 2], [1280, X, 1, 1]]}]}


def known_witness(ctx, objdir):
    """dedicated witness of the listed defect (the generators never select a child without its parent)"""
    case = kf_case()
    D = {"fold": True, "sel": None, "fields": ["duration", "tid"], "column": None, "newline": False}
    v_child = dict(D, sel=[1])
    obs = run_case(ctx, objdir, case, [D, v_child])
    if len(obs) != 2:
        return
    full = [(l[0], l[2], l[3], l[4]) for l in obs[0][1][0] if l[1] == 1 and l[0] in "OLC"]
    alone = [(l[0], l[2], l[3], l[4]) for l in obs[1][1][0] if l[0] in "OLC"]
    still = full != alone
    ctx.case(key=("known-finding", KF_KEY), tags=["known-finding:" + KF_KEY],
             sample={"tasks": case["tasks"], "full_view_child_lines": full, "tid_child_only_lines": alone})
    if not still:
        # the model describes the code as it is (the defect is repaired: a child selected alone continues
        # at its inherited stack depth): it must reproduce both outputs
        res = evaluate(ctx, [(case, [(v, (o[0], o[1])) for v, o in obs])], "known_finding")
        if res is not None and res["mismatch"]:
            ctx.violation("model and implementation disagree on the witness of the repaired defect %s" % KF_KEY,
                          {"case": case, "variant": v_child, "observed": obs[1][1]}, False)
    ctx.known_finding(KF_KEY, KF_TEXT, still,
                      {"known_finding": KF_KEY, "case": case, "variant": v_child,
                       "full_view_child_lines": full, "tid_child_only_lines": alone})


KF2_KEY = "fold-hidden-fork-depth"
KF2_TEXT = ("default (folded) view with -D: when the ENTRY of fork() is hidden by the depth limit and is the first record after its "
            "caller's ENTRY, the caller's look-ahead (fstack_skip) consumes it before the caller's display depth is updated, "
            "fork_display_depth is one too small and the forked child's lines are printed one level shallower than with --no-merge "
            "(main{a{fork}} -D 2: `} /* fork */`, b(), `} /* a */` of the child at indentation 1,1,0 instead of 2,2,1)")


def known_witness_fold_fork(ctx, objdir):
    from props import c18 as _c18
    case = kf_case()
    o = {"depth": 2, "F": [], "N": [], "t": None}
    d = os.path.join(ctx.scratch, "kf2data")
    write_dir(case, d)
    outs = []
    for fold in (False, True):
        v = {"fold": fold, "sel": None, "fields": ["duration", "tid"], "column": None, "newline": False}
        rc, out, err = datadir.uftrace(objdir, "replay", d, variant_args(v, case) + _c18.opts_args(o), timeout=30)
        if rc != 0:
            return
        outs.append([(l[2], l[3]) for l in parse_output(out, v, case)[0] if l[1] == 1 and l[0] in "OLC"])
    nm = [x for x in outs[0]]
    df = []
    for ind, name in outs[1]:
        df.append((ind, name))
    # a folded leaf is one line in the default view: compare the indentation of the first line of every call
    still = [i for i, _ in nm][:1] != [i for i, _ in df][:1]
    ctx.case(key=("known-finding", KF2_KEY), tags=["known-finding:" + KF2_KEY], sample={"no_merge": nm, "default": df})
    ctx.known_finding(KF2_KEY, KF2_TEXT, still, {"known_finding": KF2_KEY, "no_merge": nm, "default": df})


def run(ctx):
    common_meta(ctx)
    objdir = setup(ctx)
    rng = ctx.rng
    known_witness(ctx, objdir)
    known_witness_fold_fork(ctx, objdir)
    cases = hand_cases()
    n = ctx.n(110, 1500)
    for k in range(n):
        size = "small" if k % 3 else ("medium" if k % 9 else "large")
        cases.append(gen_case(rng, size))
    items = []
    for case in cases:
        variants = gen_variants(rng, case, ctx.thorough())
        obs = run_case(ctx, objdir, case, variants)
        items.append((case, obs))
        tags = case_tags(case)
        nontriv = len(case["tasks"]) > 1 or any(t.get("cut") for t in case["tasks"])
        for v, o in obs:
            key = (repr([(t["parent"], t["recs"]) for t in case["tasks"]]), repr(sorted(v.items(), key=str)), case["max_stack"])
            vt = ["opt:" + (" ".join(a.split("=")[0] for a in variant_args(v, case) if a.startswith("-")) or "default")]
            ctx.case(key=key, nontrivial=nontriv, tags=tags + vt,
                     sample={"tasks": case["tasks"], "args": variant_args(v, case), "lines": len(o[0])} if len(ctx.samples) < 3 and nontriv else None,
                     size=sum(len(t["recs"]) for t in case["tasks"]))
    # evaluate in chunks (keeps every cases.v small)
    chunk = 60
    for s in range(0, len(items), chunk):
        part = items[s:s + chunk]
        res = evaluate(ctx, part, "cases%d" % (s // chunk))
        verdict(ctx, part, res)
    # folding under replay-time filter options: default view vs --no-merge view of the real code
    from props import c18 as _c18
    pairs = fold_hand_cases()
    for k in range(ctx.n(60, 600)):
        case = gen_nest_case(rng) if k % 2 else None
        while case is None:
            c = gen_case1(rng, "small" if k % 3 else "medium")
            if (not c["illformed"] and not c.get("sess2") and not any(r[1] == LOSTREC for t in c["tasks"] for r in t["recs"])
                    and all(t["parent"] is None for t in c["tasks"]) and any(t["recs"] for t in c["tasks"])):
                case = c       # (forked children under -D differ between the two views: not covered, see manifest)
        used = sorted({case["names"][r[3]] for t in case["tasks"] for r in t["recs"]}) or case["names"][:1]
        o = {"depth": rng.choice([None, 1, 1, 2, 2, 3, 4]), "F": rng.sample(used, min(len(used), rng.choice([0, 1, 2, 2, 3]))),
             "N": [], "t": None}
        rest = [n for n in used if n not in o["F"]]
        if rest and rng.random() < 0.3:
            o["N"] = [rng.choice(rest)]
        pairs.append((case, o))
    for s in range(0, len(pairs), 100):
        run_fold_opts(ctx, objdir, pairs[s:s + 100], "fcases%d" % (s // 100))
    # the perf source: context-switch events tied with / next to the records of their task
    xcases = sched_hand_cases() + [gen_sched_case(rng, k) for k in range(ctx.n(30, 400))]
    for s in range(0, len(xcases), 80):
        run_sched(ctx, objdir, xcases[s:s + 80], "xcases%d" % (s // 80))


def replay(ctx, obj):
    common_meta(ctx)
    objdir = setup(ctx)
    if obj.get("known_finding") == KF_KEY:
        known_witness(ctx, objdir)
        return
    if obj.get("known_finding") == KF2_KEY:
        known_witness_fold_fork(ctx, objdir)
        return
    if obj.get("fold_case"):
        run_fold_opts(ctx, objdir, [(obj["fold_case"], obj["opts"])], "replay_f")
        return
    if obj.get("sched_case"):
        run_sched(ctx, objdir, [obj["sched_case"]], "replay_x")
        return
    case = obj.get("case")
    if not case:
        ctx.log("replay file has no case; nothing to re-execute")
        return
    v = obj.get("variant")
    D = {"fold": True, "sel": None, "fields": ["duration", "tid"], "column": None, "newline": False}
    variants = [D] + ([v] if v and v != D else [])
    obs = run_case(ctx, objdir, case, variants)
    for vv, o in obs:
        ctx.log("replayed `replay %s`: %d lines, remaining %s" % (" ".join(variant_args(vv, case)), len(o[0]), o[1]))
        ctx.case(key=("replay", repr(vv)), sample={"args": variant_args(vv, case), "lines": [list(l) for l in o[0]][:40]})
    res = evaluate(ctx, [(case, obs)], "replay")
    verdict(ctx, [(case, obs)], res)
