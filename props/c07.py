"""C07 - Analysis-time filters mean the same as record-time filters.

Theorems: coq/theories/Properties_C07.v over coq/theories/C07/Model.v (replay-side automaton of
utils/fstack.c + the driver loops of replay/report/graph/dump/script; tree-level spec `select`;
bridge to the libmcount model coq/theories/Mcount/Model.v).

Tie, line 1: a generated call forest is written as a synthetic data directory (vf/datadir.py); the
REAL uftrace of /repo's current tree runs replay / replay --no-merge / script / report / graph /
dump / dump --chrome on it with a generated option set; every output is reduced to what it shows of
the visible call stream and compared, inside Coq, with the model's driver for that command
(mismatch), and the executable property checker (commands agree; stream = select for the proved
option class) is applied to the implementation's outputs (violations).
Tie, line 2: the same forest is driven through the real libmcount (vf/mch.py) with the option set
at record time; the records it writes are replayed by the real `uftrace replay` without options and
compared with replaying the unfiltered recording with the options, and with the two models.
"""
import json
import os
import re
import shutil

from vf import build, coq, datadir, forest, mch
from vf.core import sh
from vf.forest import Call

NAMES = ["main", "alpha", "beta", "gamma", "delta", "eps", "zeta", "eta", "theta", "iota", "kappa", "lam"]
NFUN = 8
BASE = 0x400000
TID = 100
NOFN = 4095

SCRIPT = """
def uftrace_begin(ctx):
    pass
def uftrace_entry(ctx):
    print("E %s %d" % (ctx["name"], ctx["depth"]))
def uftrace_exit(ctx):
    print("X %s %d" % (ctx["name"], ctx["depth"]))
def uftrace_end():
    pass
"""


# ---------------------------------------------------------------- cfg helpers
def tr_get(cfg, k):
    return cfg.get("trig", {}).get(k, {})


def fmt_ts(t):
    return "%d.%09d" % (t // 10**9, t % 10**9)


def fmt_dur(ns):
    """a duration as uftrace's parse_time() takes it (at most three digits before the decimal point)"""
    if ns < 1000:
        return "%dns" % ns
    if ns < 1000000:
        return "%d.%03dus" % (ns // 1000, ns % 1000)
    return "%d.%06dms" % (ns // 1000000, ns % 1000000)


# names of utils/fstack.c's internal fixup table (fixup_syms) whose special handling does not touch a single,
# well nested task (exec* and longjmp would): a function may carry one of them instead of its ordinary name;
# the table is trigger-only, the selection must not depend on the name
FIXUP_ALIAS = {1: "_setjmp", 2: "fork", 3: "vfork", 4: "daemon", 5: "setjmp", 6: "sigsetjmp", 7: "__sigsetjmp"}


def name_of(cfg, k):
    return FIXUP_ALIAS[k] if k in cfg.get("fixup", ()) else NAMES[k]


def cli_opts(cfg):
    o = []
    for k, tr in sorted(cfg.get("trig", {}).items()):
        n = name_of(cfg, k)
        if tr.get("filter") is True:
            o += ["-F", n]
        elif tr.get("filter") is False:
            o += ["-N", n]
        acts = []
        if tr.get("depth") is not None:
            acts.append("depth=%d" % tr["depth"])
        if tr.get("time") is not None:
            acts.append("time=%s" % fmt_dur(tr["time"]))
        if tr.get("trace_on"):
            acts.append("trace_on")
        if tr.get("trace_off"):
            acts.append("trace_off")
        if tr.get("trace"):
            acts.append("trace")
        if acts:
            o += ["-T", n + "@" + ",".join(acts)]
        if tr.get("caller"):
            o += ["-C", n]
        if tr.get("hide"):
            o += ["-H", n]
    if cfg.get("depth") is not None:
        o += ["-D", str(cfg["depth"])]
    if cfg.get("threshold"):
        o += ["-t", fmt_dur(cfg["threshold"])]
    a, b = cfg.get("range", (0, 0))
    if (a or b) and cfg.get("range_first") is not None:
        # elapsed form: offsets from the first timestamp of the recording (`-r 100ns~2us`)
        first = cfg["range_first"]
        o += ["-r", "%s~%s" % (fmt_dur(a - first) if a else "", fmt_dur(b - first) if b else "")]
    elif a or b:
        o += ["-r", "%s~%s" % (fmt_ts(a) if a else "", fmt_ts(b) if b else "")]
    if cfg.get("erange"):
        # each end of the range on its own: an elapsed time (offset with a unit) or a timestamp; 0 = end not given
        a, ea, b_, eb = cfg["erange"]
        o += ["-r", "%s~%s" % ((fmt_dur(a) if ea else fmt_ts(a)) if a else "", (fmt_dur(b_) if eb else fmt_ts(b_)) if b_ else "")]
    if cfg.get("tid_sel") is not None:
        o += ["--tid", ",".join(str(TID + i) for i in cfg["tid_sel"])]
    for k, v in sorted(cfg.get("loc", {}).items()):
        o += ["-L", src_file(k) + ("" if v else "@hide")]
    if cfg.get("zsize"):
        o += ["-Z", str(cfg["zsize"])]
    for k, z in sorted(cfg.get("ztrig", {}).items()):
        o += ["-T", "%s@size=%d" % (name_of(cfg, k), z)]
    for k, act in cfg.get("decor", []):          # presentation-only trigger actions: must not change the selection
        o += ["-T", "%s@%s" % (name_of(cfg, k), act)]
    if not cfg.get("libcall", True):
        o += ["--no-libcall"]
    return o


def src_file(k):
    return "u%d.c" % k


def coq_opt(v, z=False):
    if v is None:
        return "None"
    return "Some (%d)" % v


def coq_rtrig(tr):
    f = tr.get("filter")
    return ("{| q_filter := %s; q_depth := %s; q_time := %s; q_trace_on := %s; q_trace_off := %s; q_trace := %s; "
            "q_caller := %s; q_hide := %s |}") % (
        "None" if f is None else ("Some true" if f else "Some false"),
        "None" if tr.get("depth") is None else "Some (%d)%%Z" % tr["depth"],
        "None" if tr.get("time") is None else "Some (%d)%%N" % tr["time"],
        coq.coq_bool(tr.get("trace_on")), coq.coq_bool(tr.get("trace_off")), coq.coq_bool(tr.get("trace")),
        coq.coq_bool(tr.get("caller")), coq.coq_bool(tr.get("hide")))


def coq_cfg(cfg, no_merge=False):
    trig = cfg.get("trig", {})
    fm = any(t.get("filter") is True for t in trig.values())
    cl = any(t.get("caller") for t in trig.values())
    a, b = cfg.get("range", (0, 0))
    return "(mkcfgL [%s] %s %s (%d)%%Z (%d)%%N (%d)%%N (%d)%%N [%s] %s %s [%s])" % (
        "; ".join("((%d)%%N, %s)" % (k, coq_rtrig(t)) for k, t in sorted(trig.items())),
        coq.coq_bool(fm), coq.coq_bool(cl), cfg["depth"] if cfg.get("depth") is not None else 1024,
        cfg.get("threshold") or 0, a, b, "; ".join("(%d)%%N" % k for k in cfg.get("plt", [])),
        coq.coq_bool(cfg.get("libcall", True)), coq.coq_bool(no_merge),
        "; ".join("((%d)%%N, %s)" % (k, coq.coq_bool(v)) for k, v in sorted(cfg.get("loc", {}).items())))


def coq_call(c):
    return "Call %d %d %d [%s]" % (c.k, c.t0, c.t1, "; ".join(coq_call(k) for k in c.kids))


def coq_forest(f):
    return "[%s]" % "; ".join(coq_call(c) for c in f)


# ---------------------------------------------------------------- data directory
def syms_for(cfg):
    plt = set(cfg.get("plt", []))
    # `_start` is in every real symbol table; uftrace graph -D hangs its synthetic depth trigger on it (without it the
    # trigger matches nothing, setup_fstack_filters() gives up and the later -C/-H/-L options are dropped)
    sizes = cfg.get("sizes", {})
    return [(0x1000 + 0x100 * i, sizes.get(i, 0x80), "P" if i in plt else "T", name_of(cfg, i)) for i in range(NFUN)] + [
        (0x1000 + 0x100 * (NFUN + 2), 0x40, "T", "_start")]


def addr_of(k):
    return BASE + 0x1000 + 0x100 * k + 4


def write_dir(d, cfg, recs):
    if os.path.exists(d):
        shutil.rmtree(d)
    datadir.write({"syms": syms_for(cfg), "base": BASE, "tasks": [{"tid": TID, "pid": TID, "recs": recs}]}, d)
    write_dbg(d, cfg)


def write_dbg(d, cfg):
    """debug info of the data directory (as `record --srcline` saves it): every function in its own source file"""
    with open(os.path.join(d, "prog.dbg"), "w") as f:
        for i, (a, sz, t, n) in enumerate(syms_for(cfg)[:NFUN]):
            f.write("F: %x %s\nL: %d %s\n" % (a, n, 10 + i, src_file(i)))


FN = {n: i for i, n in enumerate(NAMES)}
FN["<0>"] = NOFN
FN.update({n: k for k, n in FIXUP_ALIAS.items()})


# ---------------------------------------------------------------- output parsers -> observations
class ParseError(Exception):
    pass


def fn_of(name):
    if name not in FN:
        raise ParseError("unknown function name %r" % name)
    return FN[name]


RE_OPEN = re.compile(r"^( *)([\w<>]+)\(\) \{$")
RE_LEAF = re.compile(r"^( *)([\w<>]+)\(\);$")
RE_CLOSE = re.compile(r"^( *)\} /\* ([\w<>]+) \*/$")
RE_BACKTRACE = re.compile(r"^\s*/\* \[\s*\d+\] [\w<>]+ \*/$")


def parse_replay(out):
    ev = []
    for l in out.splitlines():
        if not l.strip():
            continue
        if l.startswith("uftrace stopped tracing"):
            break
        if RE_BACKTRACE.match(l):            # -T f@backtrace: the stack of the next line's call
            continue
        m = RE_OPEN.match(l)
        if m:
            ev.append((False, fn_of(m.group(2)), len(m.group(1)) // 2))
            continue
        m = RE_LEAF.match(l)
        if m:
            d = len(m.group(1)) // 2
            ev += [(False, fn_of(m.group(2)), d), (True, fn_of(m.group(2)), d)]
            continue
        m = RE_CLOSE.match(l)
        if m:
            ev.append((True, fn_of(m.group(2)), len(m.group(1)) // 2))
            continue
        raise ParseError("replay line not understood: %r" % l)
    return ev


def parse_script(out):
    ev = []
    for l in out.splitlines():
        k = l.split()
        if len(k) == 3 and k[0] in ("E", "X"):
            ev.append((k[0] == "X", fn_of(k[1]), int(k[2])))
        elif l.strip():
            raise ParseError("script line not understood: %r" % l)
    return ev


RE_RAW = re.compile(r"^(\d+)\.(\d{9})\s+(\d+): \[(entry|exit )\] ([\w<>]+)\(([0-9a-f]+)\) depth: (\d+)$")


def parse_raw(out):
    ev = []
    for l in out.splitlines():
        if l.startswith("uftrace file header") or l.startswith("reading ") or not l.strip():
            continue
        m = RE_RAW.match(l)
        if not m:
            raise ParseError("dump line not understood: %r" % l)
        ev.append((m.group(4) == "exit ", fn_of(m.group(5)), int(m.group(7)), int(m.group(1)) * 10**9 + int(m.group(2))))
    return ev


RE_CHROME = re.compile(r'^\{"ts":(\d+)\.(\d{3}),"ph":"([BE])","pid":\d+,"name":"([\w<>]+)"')


def parse_chrome(out):
    ev = []
    for l in out.splitlines():
        if '"ph":"M"' in l or '"ph"' not in l:
            continue
        m = RE_CHROME.match(l)
        if not m:
            raise ParseError("chrome line not understood: %r" % l)
        ev.append((m.group(3) == "E", fn_of(m.group(4)), int(m.group(1)) * 1000 + int(m.group(2))))
    return ev


def parse_report(out):
    counts = [0] * (NFUN + 1)
    seen = False
    for l in out.splitlines():
        if l.strip().startswith("=========="):
            seen = True
            continue
        if not seen or not l.strip():
            continue
        m = re.search(r"(\d+)\s+([\w<>]+)\s*$", l)
        if not m:
            raise ParseError("report line not understood: %r" % l)
        k = fn_of(m.group(2))
        counts[NFUN if k == NOFN else k] += int(m.group(1))
    return counts


RE_GRAPH = re.compile(r"^[^:]*: ((?:...)*?)\((\d+)\) ([\w<>]+)$")


def parse_graph(out):
    """-> pre-order list of (depth, fn, calls) below the root node (the root = the program)"""
    lines = []
    on = False
    for l in out.splitlines():
        if l.startswith("# TOTAL TIME") or l.startswith("#  TOTAL TIME") or re.match(r"^#\s+TOTAL TIME", l):
            on = True
            continue
        if not on or "(" not in l:
            continue
        m = RE_GRAPH.match(l)
        if not m:
            raise ParseError("graph line not understood: %r" % l)
        pre = m.group(1)
        lines.append((len(pre) // 3, "+-" in pre, int(m.group(2)), m.group(3)))
    if not lines:
        return []
    # reconstruct parents: a line with the "+-" marker is a child of the latest line printed one
    # indentation unit to the left; a line without marker is the child of the previous line
    depth = []          # absolute depth per line, root = -1
    last_at = {}        # indent -> index of the latest line with that indent
    res = []
    for i, (ind, mark, calls, name) in enumerate(lines):
        if i == 0:
            d = -1
        elif mark:
            if ind - 1 not in last_at:
                raise ParseError("graph: no parent for %r" % (lines[i],))
            d = depth[last_at[ind - 1]] + 1
        else:
            d = depth[i - 1] + 1
        depth.append(d)
        last_at[ind] = i
        for j in [j for j in last_at if j > ind]:
            del last_at[j]
        if i > 0:
            res.append((d, fn_of(name), calls))
    return res


# ---------------------------------------------------------------- running the real commands
COMMANDS = ["replay", "nomerge", "script", "raw", "chrome", "report", "graph", "flame"]


def parse_flame(out):
    """dump --flame-graph: `main;alpha;beta 2` per call path, in the order of the tree -> (depth, fn, count)"""
    res = []
    for l in out.splitlines():
        if not l.strip():
            continue
        m = re.match(r"^([\w<>;]+) (\d+)$", l)
        if not m:
            raise ParseError("flame-graph line not understood: %r" % l)
        path = m.group(1).split(";")
        res.append((len(path) - 1, fn_of(path[-1]), int(m.group(2))))
    return res


def run_commands(objdir, d, cfg, script_path, which=COMMANDS):
    o = cli_opts(cfg)
    res = {}

    def run(cmd, args):
        rc, out, err = datadir.uftrace(objdir, cmd, d, args, timeout=30)
        if rc != 0:
            raise ParseError("uftrace %s %s failed rc=%d: %s" % (cmd, " ".join(args), rc, (out + err)[-400:]))
        return out
    if "replay" in which:
        res["replay"] = parse_replay(run("replay", ["-f", "none"] + o))
    if "nomerge" in which:
        res["nomerge"] = parse_replay(run("replay", ["-f", "none", "--no-merge"] + o))
    if "script" in which:
        res["script"] = parse_script(run("script", ["-S", script_path] + o))
    if "raw" in which:
        res["raw"] = parse_raw(run("dump", o))
    if "chrome" in which:
        res["chrome"] = parse_chrome(run("dump", ["--chrome"] + o))
    if "report" in which:
        res["report"] = parse_report(run("report", o))
    if "graph" in which:
        res["graph"] = parse_graph(run("graph", o))
    if "flame" in which:
        res["flame"] = parse_flame(run("dump", ["--flame-graph"] + o))
    return res


def recs_of(f):
    return datadir.recs_of_forest(f, addr_of)


# ---------------------------------------------------------------- Coq side
PRE = """From Coq Require Import NArith ZArith List Bool.
Import ListNotations.
Require Import UV.C07.Model UV.C07.Check.
Local Open Scope Z_scope.
"""


def b(x):
    return "true" if x else "false"


def coq_nd(l):
    return "[%s]" % "; ".join("(%s, %d%%N, %d)" % (b(x), f, d) for x, f, d in l)


def coq_rt(l):
    return "[%s]" % "; ".join("(%s, %d%%N, %d, %d%%N)" % (b(x), f, d, t) for x, f, d, t in l)


def coq_nt(l):
    return "[%s]" % "; ".join("(%s, %d%%N, %d%%N)" % (b(x), f, t) for x, f, t in l)


def coq_nl(l):
    return "[%s]" % "; ".join("%d%%N" % x for x in l)


def coq_tri(l):
    return "[%s]" % "; ".join("(%d%%N, %d%%N, %d%%N)" % t for t in l)


def case_term(case):
    o = case["out"]
    return ("{| k_cfg := %s; k_forest := %s; k_nfun := %d;\n   o_replay := %s;\n   o_nomerge := %s;\n   o_script := %s;\n"
            "   o_raw := %s;\n   o_chrome := %s;\n   o_report := %s;\n   o_graph := %s;\n   o_flame := %s |}") % (
        coq_cfg(case["cfg"]), coq_forest(case["forest"]), NFUN, coq_nd(o["replay"]), coq_nd(o["nomerge"]),
        coq_nd(o["script"]), coq_rt(o["raw"]), coq_nt(o["chrome"]), coq_nl(o["report"]), coq_tri(o["graph"]),
        coq_tri(o["flame"]))


EVALS = ["replay", "nomerge", "script", "raw", "chrome", "report", "graph", "flame"]


def evaluate(ctx, cases, name="cases"):
    defs = "Definition cases : list case := [\n%s\n].\n" % ";\n".join(case_term(c) for c in cases)
    evs = [("mm_" + e, "bad_indices agree_%s cases 0" % e) for e in EVALS]
    evs += [("v_agree", "bad_indices ok_agree cases 0"), ("v_spec", "bad_indices ok_spec cases 0"),
            ("v_range", "bad_indices ok_range cases 0"), ("v_switch", "bad_indices ok_switch cases 0"),
            ("in_spec", "bad_indices (fun k => negb (spec_class k)) cases 0")]
    res = coq.run_cases(ctx, name, PRE, defs, evs)
    if res is None:
        return None
    return {k: coq.parse_nat_list(v) for k, v in res.items()}


# ---------------------------------------------------------------- generator
def gen_forest(rng, durs, max_calls=None, nfun=NFUN):
    f = forest.gen_shape(rng, nfun, max_calls or rng.choice([4, 8, 14, 24]), rng.choice([2, 3, 4, 6]))
    # main-like root most of the time
    if rng.random() < 0.6:
        f = [Call(0, kids=f)]
    forest.assign_times(rng, f, t0=1000, durs=durs, self_durs=durs)
    return f


def fheight(f):
    return max([c.height() for c in f] or [0])


def fcalls(f):
    out = []

    def go(c):
        out.append(c)
        for k in c.kids:
            go(k)
    for c in f:
        go(c)
    return out


def gen_case(rng, kind, eq=True):
    """returns (cfg, forest, tags); eq=False keeps leaf durations away from the thresholds' exact values"""
    T = rng.choice([3, 10, 100]) if eq else rng.choice([10, 100])
    durs = (1, 2, T - 1, T, T + 1, 2 * T, 5 * T) if eq else (2, 4, T - 3, T + 3, 2 * T + 3, 5 * T + 3)
    f = gen_forest(rng, durs)
    calls = fcalls(f)
    used = sorted(set(c.k for c in calls))
    cfg = {"trig": {}}
    tags = [kind]

    def trig(k):
        return cfg["trig"].setdefault(k, {})
    pick = lambda: rng.choice(used)   # noqa: E731
    h = fheight(f)
    if kind == "plain":
        pass
    if kind in ("depth", "mix", "fd", "mix2"):
        cfg["depth"] = max(1, rng.choice([h - 1, h, h + 1, 1, 2]))
        tags.append("D=h%+d" % (cfg["depth"] - h) if abs(cfg["depth"] - h) <= 1 else "D=other")
    if kind in ("filter", "mix", "fd", "fn", "mix2"):
        for _ in range(rng.choice([1, 1, 2])):
            trig(pick())["filter"] = True
    if kind in ("notrace", "mix", "fn", "mix2"):
        for _ in range(rng.choice([1, 1, 2])):
            k = pick()
            if trig(k).get("filter") is None:
                trig(k)["filter"] = False
    if kind in ("time", "mix", "timetrig", "caller_time", "mix2"):
        cfg["threshold"] = T
        tags.append("t=T")
    if kind in ("timetrig", "mix"):
        for _ in range(rng.choice([1, 2])):
            trig(pick())["time"] = rng.choice([0, 1, T - 1, T, T + 1, 3 * T] if eq else [1, 3, T - 1, T, T + 1, 3 * T, 5 * T])
        if rng.random() < 0.4:
            trig(pick())["trace"] = True
    if kind in ("caller", "caller_time"):
        for _ in range(rng.choice([1, 1, 2])):
            trig(pick())["caller"] = True
    if kind in ("hide", "mix"):
        for _ in range(rng.choice([1, 2])):
            trig(pick())["hide"] = True
    if kind in ("deptrig", "mix", "fdt"):
        for _ in range(rng.choice([1, 2])):
            trig(pick())["depth"] = rng.choice([0, 1, 1, 2, 3])
    if kind == "fdt":       # the shape of DESIGN section 9 #12 stays out (record/replay line only)
        trig(pick())["filter"] = True
        cfg["depth"] = rng.choice([1, 2, 3])
    if kind in ("switch", "switch_f"):
        if kind == "switch_f":
            trig(pick())["filter"] = rng.choice([True, True, False])
            if rng.random() < 0.4:
                cfg["threshold"] = T
        trig(pick())["trace_off"] = True
        k = pick()
        if not trig(k).get("trace_off"):
            trig(k)["trace_on"] = True
        if kind == "switch" and rng.random() < 0.4:
            cfg["depth"] = rng.choice([2, 3])
    if kind == "range":
        ts = sorted(set([c.t0 for c in calls] + [c.t1 for c in calls]))
        a = rng.choice(ts) + rng.choice([-1, 0, 0, 1])
        bnd = rng.choice(ts) + rng.choice([-1, 0, 0, 1])
        lo, hi = min(a, bnd), max(a, bnd)
        cfg["range"] = rng.choice([(lo, hi), (lo, 0), (0, hi)])
        if rng.random() < 0.3:
            cfg["depth"] = rng.choice([1, 2, 3])
    if kind == "range_only":
        # the case splits of Range.v: nothing / something before, inside, after the window; ends on exact
        # timestamps (both included); window starting with an ENTRY or with an EXIT; empty window
        ts = sorted(set([c.t0 for c in calls] + [c.t1 for c in calls]))
        first, last = ts[0], ts[-1]
        a, bnd = sorted([rng.choice(ts), rng.choice(ts)])
        cfg["range"] = rng.choice([(a, bnd), (a, a), (a + 1, bnd - 1) if a + 1 <= bnd - 1 else (a, bnd), (first, bnd),
                                   (a, last), (first - 5, last + 5), (last + 1, last + 50), (1, first - 1), (a, 0),
                                   (0, bnd), (a - 1, bnd + 1)])
        tags.append("range:" + ("empty" if not [t for t in ts if (not cfg["range"][0] or t >= cfg["range"][0])
                                                  and (not cfg["range"][1] or t <= cfg["range"][1])] else "nonempty"))
        for t in ts:
            if t in cfg["range"]:
                tags.append("range:end-on-timestamp")
                break
        lo, hi = cfg["range"]
        if rng.random() < 0.4 and (not lo or lo > first) and (not hi or hi > first):
            cfg["range_first"] = first        # same window, given as elapsed time
            tags.append("range:elapsed")
    if kind in ("loc", "lochide", "locmix"):
        cfg["loc"] = {}
        for _ in range(rng.choice([1, 2, 3])):
            cfg["loc"][pick()] = (kind == "loc") or (kind == "locmix" and rng.random() < 0.6)
        if kind == "locmix":
            what = rng.choice(["depth", "filter", "deptrig", "switch", "time", "hide"])
            tags.append("locmix:" + what)
            if what == "depth":
                cfg["depth"] = rng.choice([1, 2, 3])
            elif what == "filter":
                trig(pick())["filter"] = rng.choice([True, False])
            elif what == "deptrig":
                trig(rng.choice(sorted(cfg["loc"])))["depth"] = rng.choice([0, 1, 2])
            elif what == "switch":
                k0 = rng.choice(sorted(cfg["loc"]))
                trig(k0)["trace_off"] = True
                k1 = pick()
                if k1 != k0:
                    trig(k1)["trace_on"] = True
            elif what == "time":
                cfg["threshold"] = T
            else:
                trig(pick())["hide"] = True
    if kind in ("pltleaf", "plt"):
        cfg["libcall"] = False
        leafs = sorted(set(c.k for c in calls if not c.kids) - set(c.k for c in calls if c.kids))
        if kind == "pltleaf":
            cfg["plt"] = sorted(set(rng.choice(leafs) for _ in range(2))) if leafs else []
        else:
            cfg["plt"] = sorted(set(pick() for _ in range(2)))
        if rng.random() < 0.6:
            cfg["depth"] = max(1, rng.choice([h - 1, h, 2, 3]))
        if rng.random() < 0.3:
            trig(pick())["filter"] = True
    # drop empty triggers
    cfg["trig"] = {k: v for k, v in cfg["trig"].items() if v}
    if kind not in ("plt", "pltleaf") and rng.random() < 0.2:
        cfg["decor"] = [(pick(), rng.choice(["backtrace", "color=red", "color=blue,backtrace"]))
                        for _ in range(rng.choice([1, 2]))]
        tags.append("decor-trigger")
    # boundary tags
    thr_vals = set([cfg.get("threshold") or None] + [t.get("time") for t in cfg["trig"].values()])
    thr_vals.discard(None)
    for c in calls:
        for tv in thr_vals:
            dd = c.t1 - c.t0 - tv
            if dd in (-1, 0, 1):
                tags.append("dur=T%+d" % dd if dd else "dur=T")
    fl = [c for c in calls if tr_get(cfg, c.k).get("filter") is True]
    if fl:
        tags.append("F-hit")
    for c in calls:
        if tr_get(cfg, c.k).get("filter") is True and any(tr_get(cfg, k.k).get("filter") is True for k in fcalls(c.kids)):
            tags.append("nested-F")
        if tr_get(cfg, c.k).get("filter") is False and any(tr_get(cfg, k.k).get("filter") is True for k in fcalls(c.kids)):
            tags.append("F-under-N")
        if tr_get(cfg, c.k).get("filter") is True and any(tr_get(cfg, k.k).get("filter") is False for k in fcalls(c.kids)):
            tags.append("N-under-F")
        if c.kids:
            ks = [tr_get(cfg, k.k).get("filter") is True for k in c.kids]
            if ks[0]:
                tags.append("F-first-child")
            if ks[-1]:
                tags.append("F-last-child")
            if len(ks) > 2 and any(ks[1:-1]):
                tags.append("F-middle-child")
    if rng.random() < 0.4:
        # some functions carry a name of the internal fixup table (fork, _setjmp, ...): nothing may change
        cand = [k for k in used if k in FIXUP_ALIAS]
        if cand:
            cfg["fixup"] = sorted(rng.sample(cand, rng.randint(1, len(cand))))
            tags.append("fixup-named")
            limits = fl or cfg.get("depth") is not None or any(t.get("depth") is not None for t in cfg["trig"].values())
            if limits and any(not cfg["trig"].get(k) for k in cfg["fixup"]):
                tags.append("fixup-named:no-user-entry-under-F-or-D")
    return cfg, f, sorted(set(tags))


KINDS = ["plain", "depth", "filter", "notrace", "fn", "fd", "time", "timetrig", "caller", "caller_time", "hide",
         "deptrig", "fdt", "mix", "mix2", "switch", "switch_f", "range", "range_only", "loc", "lochide", "locmix", "pltleaf", "plt"]


# ---------------------------------------------------------------- meta
def common_meta(ctx):
    ctx.rule = ("a case = (call forest of 1-25 calls over 8 functions with durations drawn around the thresholds, "
                "option set of one of %d kinds; further lines: 2-3 task directories, record-vs-replay through libmcount, compiled programs); the real replay/replay --no-merge/script/dump/dump --chrome/report/"
                "graph run on the synthetic directory of the forest; distinct = distinct (forest, options); "
                "non-trivial = the option set hides at least one call" % len(KINDS))
    ctx.trusted = [
        "Coq 8.16.1 kernel incl. vm_compute; no axioms (Print Assumptions: closed)",
        "hand-written model coq/theories/C07/Model.v of utils/fstack.c (get_task_ustack look-ahead filter, "
        "fstack_entry/exit/update/check_filter/check_skip/skip) and of the loops of cmds/replay.c report.c graph.c "
        "dump.c script.c; spec select/tprune/vis in the same file",
        "coq/theories/Mcount/Model.v (record-time automaton) for the record-vs-replay statements",
        "generated constants coq/theories/Gen/Consts.v",
        "synthetic data directory writer vf/datadir.py, output parsers of props/c07.py (replay text, script "
        "callbacks, dump text, chrome JSON lines, report table, graph indentation)",
        "in-process libmcount harness harness/c/mc_harness.c + vf/mch.py for the record-time line",
    ]
    ctx.assume = [
        "one session, 1-3 tasks, user ENTRY/EXIT records only (no kernel/perf/event/LOST records); well-nested "
        "recordings with non-decreasing timestamps below 2^63; nesting below max_stack (1024)",
        "pattern matching of -F/-N/-T/-C/-H arguments (regex/glob, demangling) is not part of the model: options "
        "name whole functions",
        "not modelled: -Z/size=, -L (needs debug info), elapsed-time ranges, --trace=off, --kernel*, --tid, "
        "exec/setjmp/fork fix-ups (tasks are threads of one process: no fork display-depth inheritance)",
    ]


# ---------------------------------------------------------------- line 1: analysis commands vs model vs select
def setup(ctx):
    coq.prove(ctx, "C07")
    objdir = build.get_build("plain", ctx.log)
    sp = os.path.join(ctx.scratch, "c07_script.py")
    with open(sp, "w") as f:
        f.write(SCRIPT)
    return objdir, sp


def hides_something(case):
    n = sum(c.size() for c in case["forest"])
    return len(case["out"]["chrome"]) != 2 * n


def case_json(case):
    return {"cfg": cfg_json(case["cfg"]), "forest": [c.to_json() for c in case["forest"]],
            "options": cli_opts(case["cfg"]), "kind": case.get("kind")}


def cfg_json(cfg):
    j = dict(cfg)
    j["trig"] = {str(k): v for k, v in cfg.get("trig", {}).items()}
    for key in ("loc", "loc_files", "sizes", "ztrig"):
        if key in j:
            j[key] = {str(k): v for k, v in j[key].items()}
    if "range" in j:
        j["range"] = list(j["range"])
    if "erange" in j:
        j["erange"] = list(j["erange"])
    return j


def cfg_unjson(j):
    cfg = dict(j)
    cfg["trig"] = {int(k): v for k, v in j.get("trig", {}).items()}
    if "range" in cfg:
        cfg["range"] = tuple(cfg["range"])
    for key in ("loc", "loc_files", "sizes", "ztrig"):
        if key in cfg:
            cfg[key] = {int(k): v for k, v in cfg[key].items()}
    return cfg


def run_case(objdir, sp, d, cfg, f):
    write_dir(d, cfg, recs_of(f))
    return run_commands(objdir, d, cfg, sp)


def line1(ctx, objdir, sp, todo):
    cases = []
    d = os.path.join(ctx.scratch, "data")
    for kind, cfg, f, tags in todo:
        try:
            out = run_case(objdir, sp, d, cfg, f)
        except ParseError as e:
            ctx.violation("an analysis command failed or printed something unexpected: %s" % e,
                          {"line": 1, "case": {"cfg": cfg_json(cfg), "forest": [c.to_json() for c in f],
                                               "options": cli_opts(cfg)}}, True)
            continue
        case = {"kind": kind, "cfg": cfg, "forest": f, "out": out, "tags": tags}
        cases.append(case)
    return cases


def verdict1(ctx, cases, res):
    if res is None:
        return
    for i in res["v_spec"][:3]:
        ctx.violation("C07 violated: an analysis command does not show the calls selected by the documented "
                      "filter semantics (select) for options %s" % " ".join(cli_opts(cases[i]["cfg"])),
                      {"line": 1, "check": "ok_spec", "case": case_json(cases[i]),
                       "outputs": {k: v for k, v in cases[i]["out"].items()}}, True)
    for i in res["v_switch"][:3]:
        ctx.violation("C07 violated: trace_on/trace_off do not act as the documented switch for options %s"
                      % " ".join(cli_opts(cases[i]["cfg"])),
                      {"line": 1, "check": "ok_switch", "case": case_json(cases[i]),
                       "outputs": {k: v for k, v in cases[i]["out"].items()}}, True)
    for i in res["v_range"][:3]:
        ctx.violation("C07 violated: -r does not select exactly the records inside the time range: %s"
                      % " ".join(cli_opts(cases[i]["cfg"])),
                      {"line": 1, "check": "ok_range", "case": case_json(cases[i]),
                       "outputs": {k: v for k, v in cases[i]["out"].items()}}, True)
    for i in res["v_agree"][:3]:
        ctx.violation("C07 violated: the analysis commands disagree on the visible calls for options %s"
                      % " ".join(cli_opts(cases[i]["cfg"])),
                      {"line": 1, "check": "ok_agree", "case": case_json(cases[i]),
                       "outputs": {k: v for k, v in cases[i]["out"].items()}}, True)
    mm = {e: res["mm_" + e] for e in EVALS if res["mm_" + e]}
    if mm and not res["v_spec"] and not res["v_agree"] and not res["v_range"] and not res["v_switch"]:
        e, idx = sorted(mm.items())[0]
        ctx.violation("model and implementation disagree for `%s` on %d case(s) (%s); the property checker accepts "
                      "every explored output" % (e, len(idx), ", ".join("%s:%d" % (k, len(v)) for k, v in sorted(mm.items()))),
                      {"line": 1, "correspondence": "C07.Model driver for %s vs the real command" % e,
                       "case": case_json(cases[idx[0]]), "outputs": cases[idx[0]]["out"]}, False)
    ctx.extra["disagreements_checked"] = ctx.extra.get("disagreements_checked", 0) + sum(len(v) for v in mm.values())


# ---------------------------------------------------------------- line 5: the size filter (-Z, size=)
KINDS_Z = ["plain", "plain", "depth", "filter", "notrace", "fn", "fd", "time", "timetrig", "caller", "hide", "deptrig", "mix"]
Z_SIZES = [16, 32, 48, 64, 96, 128]


def gen_zcase(rng, kind):
    """options of `kind` plus symbol sizes, -Z and size= triggers"""
    cfg, f, tags = gen_case(rng, kind)
    cfg = dict(cfg)
    used = sorted(set(c.k for c in fcalls(f)))
    cfg["sizes"] = {k: rng.choice(Z_SIZES) for k in range(NFUN)}
    cfg["zsize"] = rng.choice([0, 40, 40, 70, 100])
    cfg["ztrig"] = {k: rng.choice([1, 20, 50, 80, 130]) for k in rng.sample(used, min(len(used), rng.choice([0, 0, 1, 2])))}
    if not cfg["zsize"] and not cfg["ztrig"]:
        cfg["zsize"] = 70
    return cfg, f, ["size:" + kind, "size:-Z" if cfg["zsize"] else "size:trigger-only"] + (["size:size="] if cfg["ztrig"] else [])


def corpus6():
    """fixed defect kept as ordinary cases: the origin of the elapsed time was taken from the tasks --tid leaves out
    only (or, without any, from the first task of the info file) instead of the oldest record of the recording"""
    def task(st):
        return [C(0, st, st + 200, [C(1, st + 10, st + 60, [C(2, st + 20, st + 30)]), C(3, st + 70, st + 150, [C(2, st + 80, st + 100)])])]
    return [("corpus:elapsed-origin-middle-task-excluded", {"trig": {}, "erange": (75, True, 0, False), "tid_sel": [0, 2]},
             [task(1000), task(1040), task(1100)], ["corpus:elapsed-origin-middle-task-excluded", "tid-range:elapsed"]),
            ("corpus:elapsed-origin-first-task-not-oldest", {"trig": {}, "erange": (75, True, 230, True), "tid_sel": None},
             [task(1040), task(1000), task(1100)], ["corpus:elapsed-origin-first-task-not-oldest", "tid-range:elapsed"]),
            ("corpus:elapsed-origin-owner-excluded", {"trig": {}, "erange": (120, True, 260, True), "tid_sel": [1, 2]},
             [task(1000), task(1040), task(1100)], ["corpus:elapsed-origin-owner-excluded", "tid-range:elapsed",
                                                    "tid-range:origin-owner-excluded"])]


def corpus5():
    """fixed defect kept as ordinary cases: the outermost function(s) hidden by the size filter made the first record
    that gets through look like frames inherited at fork(), and report listed them as `<0>`"""
    f = [C(0, 1000, 9000, [C(1, 1100, 3000, [C(2, 1200, 1900, [C(3, 1300, 1800)]), C(3, 2000, 2900)]), C(4, 5100, 6000)])]
    sizes = {0: 16, 1: 32, 2: 96, 3: 128, 4: 96}
    return [("corpus:size-outermost-hidden", {"trig": {}, "sizes": sizes, "zsize": 48, "ztrig": {}}, f,
             ["corpus:size-outermost-hidden", "size:-Z"]),
            ("corpus:size-outermost-hidden", {"trig": {}, "sizes": sizes, "zsize": 0, "ztrig": {0: 20, 1: 100}}, f,
             ["corpus:size-outermost-hidden", "size:size="])]


def zcase_term(c):
    cfg = c["cfg"]
    return "{| z_case := %s;\n   z_sizes := %s; z_zs := %d%%N; z_ztr := %s |}" % (
        case_term(c), "[%s]" % "; ".join("(%d%%N, %d%%N)" % kv for kv in sorted(cfg.get("sizes", {}).items())),
        cfg.get("zsize", 0), "[%s]" % "; ".join("(%d%%N, %d%%N)" % kv for kv in sorted(cfg.get("ztrig", {}).items())))


def evaluate5(ctx, cases, name="zcases"):
    defs = "Definition zcases : list zcase := [\n%s\n].\n" % ";\n".join(zcase_term(c) for c in cases)
    evs = [("v_size", "bad_indices ok_size zcases 0"), ("v_size_agree", "bad_indices ok_size_agree zcases 0"),
           ("in_spec", "bad_indices (fun k => negb (spec_class (z_case k))) zcases 0"),
           ("hides", "bad_indices (fun k => negb (z_hides k)) zcases 0")]
    res = coq.run_cases(ctx, name, PRE, defs, evs)
    if res is None:
        return None
    return {k: coq.parse_nat_list(v) for k, v in res.items()}


def verdict5(ctx, cases, res):
    if res is None:
        return
    for i in res["v_size"][:3]:
        ctx.violation("C07 violated: with the size filter an analysis command does not show the calls of the documented "
                      "semantics (small functions left out, their callees kept, then the other options): %s"
                      % " ".join(cli_opts(cases[i]["cfg"])),
                      {"line": 5, "check": "ok_size", "zcase": case_json(cases[i]), "outputs": cases[i]["out"]}, True)
    for i in res["v_size_agree"][:3]:
        ctx.violation("C07 violated: the analysis commands disagree on the visible calls under the size filter: %s"
                      % " ".join(cli_opts(cases[i]["cfg"])),
                      {"line": 5, "check": "ok_size_agree", "zcase": case_json(cases[i]), "outputs": cases[i]["out"]}, True)


# ---------------------------------------------------------------- line 2: record time vs replay time
SHARED = ("filter", "depth", "time", "trace_on", "trace_off", "trace", "caller")


def shared_only(cfg):
    """the part of an option set that exists at record time too"""
    c = {"trig": {k: {a: v for a, v in t.items() if a in SHARED} for k, t in cfg.get("trig", {}).items()}}
    c["trig"] = {k: v for k, v in c["trig"].items() if v}
    if cfg.get("depth") is not None:
        c["depth"] = cfg["depth"]
    if cfg.get("threshold"):
        c["threshold"] = cfg["threshold"]
    if cfg.get("fixup"):
        c["fixup"] = cfg["fixup"]
    return c


def mc_record(h, cfg, f, shape):
    """drive the real libmcount with the forest; -> list of (time, exit?, depth, fn)"""
    lines = []
    for e in forest.flatten(f):
        if shape == "cyg":
            lines.append("%s %d %d" % ("CE" if e[0] == "E" else "CX", e[1], e[2]))
        elif e[0] == "E":
            lines.append("E %d %d" % (e[1], e[2]))
        else:
            lines.append("X %d" % e[2])
    lines.append("DUMP")
    mc = dict(cfg)
    mc["shape"] = shape
    out, err = h.run(lines, env=mch.cfg_env(mc))
    blk = []
    for l in out:
        if l.startswith("R "):
            blk.append(l)
    recs = []
    for (t, ty, more, magic, depth, addr, pl) in mch.parse_records(blk):
        if ty not in (0, 1) or addr[0] != "f":
            raise ParseError("unexpected record from libmcount: %r" % ((t, ty, depth, addr),))
        recs.append((t, ty == 1, depth, addr[1]))
    return recs


def line2(ctx, objdir, todo):
    h = mch.Harness(ctx)
    d = os.path.join(ctx.scratch, "data2")
    cases = []
    for kind, cfg, f, tags, shape in todo:
        try:
            recs = mc_record(h, cfg, f, shape)
            write_dir(d, {}, [{"t": t, "type": 1 if x else 0, "depth": dep, "addr": addr_of(k)} for t, x, dep, k in recs])
            if recs:
                rc, out, err = datadir.uftrace(objdir, "replay", d, ["-f", "none"], timeout=30)
                if rc != 0:
                    raise ParseError("replay of the filtered recording failed rc=%d: %s" % (rc, (out + err)[-300:]))
                a = parse_replay(out)
            else:
                a = []          # nothing recorded: replay refuses an empty data file
            write_dir(d, cfg, recs_of(f))
            rc, out, err = datadir.uftrace(objdir, "replay", d, ["-f", "none"] + cli_opts(cfg), timeout=30)
            if rc != 0:
                raise ParseError("replay with options failed rc=%d: %s" % (rc, (out + err)[-300:]))
            bb = parse_replay(out)
        except (ParseError, RuntimeError) as e:
            ctx.violation("record-time / replay-time run failed: %s" % e,
                          {"line": 2, "rcase": {"cfg": cfg_json(cfg), "forest": [c.to_json() for c in f], "shape": shape}}, True)
            continue
        cases.append({"kind": kind, "cfg": cfg, "forest": f, "shape": shape, "records": recs, "rec_replay": a,
                      "opt_replay": bb, "tags": tags})
    return cases


def rcase_term(c):
    return ("{| rr_cfg := %s; rr_forest := %s; rr_shape := %s;\n   rr_records := [%s];\n   rr_rec_replay := %s;\n"
            "   rr_opt_replay := %s |}") % (
        coq_cfg(c["cfg"]), coq_forest(c["forest"]), "MC.CYG" if c["shape"] == "cyg" else "MC.PG",
        "; ".join("(%d%%N, %s, %d, %d%%N)" % (t, b(x), dep, k) for t, x, dep, k in c["records"]),
        coq_nd(c["rec_replay"]), coq_nd(c["opt_replay"]))


def evaluate2(ctx, cases, name="rcases"):
    defs = "Definition rcases : list rcase := [\n%s\n].\n" % ";\n".join(rcase_term(c) for c in cases)
    evs = [("mm_record", "bad_indices agree_record rcases 0"), ("mm_rec_replay", "bad_indices agree_rec_replay rcases 0"),
           ("mm_opt_replay", "bad_indices agree_opt_replay rcases 0"), ("v_rr", "bad_indices ok_rr rcases 0"),
           ("outside", "bad_indices rr_class rcases 0"),
           ("in_sw", "bad_indices (fun k => negb (rr_class_sw k)) rcases 0"),
           ("differ", "bad_indices (fun k => list_eqb nd_eqb (rr_rec_replay k) (rr_opt_replay k)) rcases 0")]
    res = coq.run_cases(ctx, name, PRE, defs, evs)
    if res is None:
        return None
    return {k: coq.parse_nat_list(v) for k, v in res.items()}


def rcase_json(c):
    return {"cfg": cfg_json(c["cfg"]), "forest": [x.to_json() for x in c["forest"]], "shape": c["shape"],
            "record_options": mch.cfg_env(dict(c["cfg"], shape=c["shape"])), "replay_options": cli_opts(c["cfg"]),
            "records_written_by_libmcount": c.get("records"), "replay_of_filtered_recording": c.get("rec_replay"),
            "replay_with_options_of_full_recording": c.get("opt_replay")}


def verdict2(ctx, cases, res):
    if res is None:
        return
    for i in res["v_rr"][:3]:
        ctx.violation("C07 violated: recording with %s and replaying differs from recording everything and replaying "
                      "with the same options" % " ".join(cli_opts(cases[i]["cfg"])),
                      {"line": 2, "check": "ok_rr", "rcase": rcase_json(cases[i])}, True)
    mm = {e: res[e] for e in ("mm_record", "mm_rec_replay", "mm_opt_replay") if res[e]}
    if mm and not res["v_rr"]:
        e, idx = sorted(mm.items())[0]
        ctx.violation("model and implementation disagree on the record-time line (%s) on %d case(s)" % (e, len(idx)),
                      {"line": 2, "correspondence": e, "rcase": rcase_json(cases[idx[0]])}, False)
    ctx.extra["disagreements_checked"] = ctx.extra.get("disagreements_checked", 0) + sum(len(v) for v in mm.values())
    ctx.extra["record_vs_replay"] = {"cases": len(cases), "in_agreement_class": len(cases) - len(res["outside"]),
                                     "differ_outside_class": len(res["differ"])}


KINDS2 = ["plain", "depth", "filter", "notrace", "fn", "fd", "time", "timetrig", "caller", "caller_time", "mix2",
          "deptrig", "fdt", "switch", "switch"]


# ---------------------------------------------------------------- line 3: several tasks
SCRIPT_M = """
def uftrace_begin(ctx):
    pass
def uftrace_entry(ctx):
    print("E %s %d %d" % (ctx["name"], ctx["depth"], ctx["tid"]))
def uftrace_exit(ctx):
    print("X %s %d %d" % (ctx["name"], ctx["depth"], ctx["tid"]))
def uftrace_end():
    pass
"""
RE_TID = re.compile(r"^\s*\[\s*(\d+)\] \| (.*)$")


def parse_replay_m(out):
    ev = []
    for l in out.splitlines():
        if not l.strip() or l.startswith("#"):
            continue
        if l.startswith("uftrace stopped tracing"):
            break
        m = RE_TID.match(l)
        if not m:
            raise ParseError("replay -f tid line not understood: %r" % l)
        t = int(m.group(1)) - TID
        for x, f, d in parse_replay(m.group(2)):
            ev.append((t, (x, f, d)))
    return ev


def parse_script_m(out):
    ev = []
    for l in out.splitlines():
        k = l.split()
        if len(k) == 4 and k[0] in ("E", "X"):
            ev.append((int(k[3]) - TID, (k[0] == "X", fn_of(k[1]), int(k[2]))))
        elif l.strip():
            raise ParseError("script line not understood: %r" % l)
    return ev


def parse_raw_m(out):
    ev = []
    for l in out.splitlines():
        if l.startswith("uftrace file header") or l.startswith("reading ") or not l.strip():
            continue
        m = RE_RAW.match(l)
        if not m:
            raise ParseError("dump line not understood: %r" % l)
        ev.append((int(m.group(3)) - TID, (m.group(4) == "exit ", fn_of(m.group(5)), int(m.group(7)),
                                            int(m.group(1)) * 10**9 + int(m.group(2)))))
    return ev


RE_CHROME_M = re.compile(r'^\{"ts":(\d+)\.(\d{3}),"ph":"([BE])","pid":(\d+),(?:"tid":(\d+),)?"name":"([\w<>]+)"')


def parse_chrome_m(out):
    ev = []
    for l in out.splitlines():
        if '"ph":"M"' in l or '"ph"' not in l:
            continue
        m = RE_CHROME_M.match(l)
        if not m:
            raise ParseError("chrome line not understood: %r" % l)
        tid = int(m.group(5) or m.group(4))
        ev.append((tid - TID, (m.group(3) == "E", fn_of(m.group(6)), int(m.group(1)) * 1000 + int(m.group(2)))))
    return ev


def run_commands_m(objdir, d, cfg, script_path):
    o = cli_opts(cfg)

    def run(cmd, args):
        rc, out, err = datadir.uftrace(objdir, cmd, d, args, timeout=30)
        if rc != 0:
            raise ParseError("uftrace %s %s failed rc=%d: %s" % (cmd, " ".join(args), rc, (out + err)[-400:]))
        return out
    return {"replay": parse_replay_m(run("replay", ["-f", "tid"] + o)),
            "nomerge": parse_replay_m(run("replay", ["-f", "tid", "--no-merge"] + o)),
            "script": parse_script_m(run("script", ["-S", script_path] + o)),
            "raw": parse_raw_m(run("dump", o)),
            "chrome": parse_chrome_m(run("dump", ["--chrome"] + o)),
            "report": parse_report(run("report", o)),
            "graph": parse_graph(run("graph", o))}


def gen_mcase(rng, kind):
    cfg, f, tags = gen_case(rng, kind)
    cfg.pop("fixup", None)          # a call named fork/vfork/daemon hands its display depth on to the other tasks
    tags = [t for t in tags if not t.startswith("fixup-named")]
    ntask = rng.choice([2, 2, 3])
    fs = [f]
    for i in range(1, ntask):
        g = forest.gen_shape(rng, NFUN, rng.choice([3, 6, 10]), rng.choice([2, 3, 4]))
        forest.assign_times(rng, g, t0=rng.choice([1000, 1000, 1001, 1040]), durs=(1, 2, 3, 9, 10, 11, 99, 100, 101, 200))
        fs.append(g)
    times = [set(t for c in fcalls(g) for t in (c.t0, c.t1)) for g in fs]
    if cfg.get("range") and rng.random() < 0.5:
        # elapsed times count from handle->time_range.first, which starts as the first record of the FIRST task:
        # only used when that is the earliest record of the recording (the main thread, as in real data)
        first = min(min(ts) for ts in times)
        lo, hi = cfg["range"]
        if first == min(times[0]) and (not lo or lo > first) and (not hi or hi > first):
            cfg["range_first"] = first            # elapsed form, counted from the first record of all tasks
            tags.append("range:elapsed")
    if any(times[i] & times[j] for i in range(len(fs)) for j in range(i)):
        tags.append("equal-timestamps-across-tasks")
    return cfg, fs, tags + ["tasks=%d" % ntask]


def mcase_term(mc):
    o = mc["out"]

    def tg(l, inner):
        return "[%s]" % "; ".join("(%d%%nat, %s)" % (t, inner(e)) for t, e in l)
    nd = lambda e: "(%s, %d%%N, %d)" % (b(e[0]), e[1], e[2])          # noqa: E731
    rt = lambda e: "(%s, %d%%N, %d, %d%%N)" % (b(e[0]), e[1], e[2], e[3])   # noqa: E731
    nt = lambda e: "(%s, %d%%N, %d%%N)" % (b(e[0]), e[1], e[2])        # noqa: E731
    return ("{| mk_cfg := %s; mk_forests := [%s]; mk_nfun := %d;\n   mo_replay := %s;\n   mo_nomerge := %s;\n"
            "   mo_script := %s;\n   mo_raw := %s;\n   mo_chrome := %s;\n   mo_report := %s;\n   mo_graph := %s |}") % (
        coq_cfg(mc["cfg"]), "; ".join(coq_forest(f) for f in mc["forests"]), NFUN, tg(o["replay"], nd),
        tg(o["nomerge"], nd), tg(o["script"], nd), tg(o["raw"], rt), tg(o["chrome"], nt), coq_nl(o["report"]),
        coq_tri(o["graph"]))


def line3(ctx, objdir, todo):
    sp = os.path.join(ctx.scratch, "c07_script_m.py")
    with open(sp, "w") as f:
        f.write(SCRIPT_M)
    d = os.path.join(ctx.scratch, "data3")
    cases = []
    for kind, cfg, fs, tags in todo:
        try:
            if os.path.exists(d):
                shutil.rmtree(d)
            datadir.write({"syms": syms_for(cfg), "base": BASE,
                           "tasks": [{"tid": TID + i, "pid": TID, "recs": recs_of(f)} for i, f in enumerate(fs)]}, d)
            write_dbg(d, cfg)
            out = run_commands_m(objdir, d, cfg, sp)
        except ParseError as e:
            ctx.violation("an analysis command failed or printed something unexpected (several tasks): %s" % e,
                          {"line": 3, "mcase": {"cfg": cfg_json(cfg), "forests": [[c.to_json() for c in f] for f in fs],
                                                "options": cli_opts(cfg)}}, True)
            continue
        cases.append({"kind": kind, "cfg": cfg, "forests": fs, "out": out, "tags": tags})
    return cases


MEVALS = ["replay", "nomerge", "script", "raw", "chrome", "report", "graph"]


def evaluate3(ctx, cases, name="mcases"):
    defs = "Definition mcases : list mcase := [\n%s\n].\n" % ";\n".join(mcase_term(c) for c in cases)
    evs = [("mm_" + e, "bad_indices magree_%s mcases 0" % e) for e in MEVALS]
    evs += [("v_agree", "bad_indices mok_agree mcases 0"), ("v_spec", "bad_indices mok_spec mcases 0"),
            ("v_range", "bad_indices mok_range mcases 0"),
            ("in_spec", "bad_indices (fun k => negb (mspec_class k)) mcases 0")]
    res = coq.run_cases(ctx, name, PRE, defs, evs)
    if res is None:
        return None
    return {k: coq.parse_nat_list(v) for k, v in res.items()}


def mcase_json(c):
    return {"cfg": cfg_json(c["cfg"]), "forests": [[x.to_json() for x in f] for f in c["forests"]],
            "options": cli_opts(c["cfg"]), "kind": c.get("kind")}


def verdict3(ctx, cases, res):
    if res is None:
        return
    for i in res["v_spec"][:3]:
        ctx.violation("C07 violated (several tasks): a task does not show the calls selected by the documented filter "
                      "semantics for options %s" % " ".join(cli_opts(cases[i]["cfg"])),
                      {"line": 3, "check": "mok_spec", "mcase": mcase_json(cases[i]), "outputs": cases[i]["out"]}, True)
    for i in res["v_agree"][:3]:
        ctx.violation("C07 violated (several tasks): the analysis commands disagree on the visible calls for options %s"
                      % " ".join(cli_opts(cases[i]["cfg"])),
                      {"line": 3, "check": "mok_agree", "mcase": mcase_json(cases[i]), "outputs": cases[i]["out"]}, True)
    for i in res.get("v_range", [])[:3]:
        ctx.violation("C07 violated (several tasks): -r does not select exactly the records of every task inside the "
                      "time range: %s" % " ".join(cli_opts(cases[i]["cfg"])),
                      {"line": 3, "check": "mok_range", "mcase": mcase_json(cases[i]), "outputs": cases[i]["out"]}, True)
    mm = {e: res["mm_" + e] for e in MEVALS if res["mm_" + e]}
    if mm and not res["v_spec"] and not res["v_agree"] and not res.get("v_range"):
        e, idx = sorted(mm.items())[0]
        ctx.violation("model and implementation disagree for `%s` with several tasks on %d case(s) (%s)"
                      % (e, len(idx), ", ".join("%s:%d" % (k, len(v)) for k, v in sorted(mm.items()))),
                      {"line": 3, "correspondence": "C07.Model multi-task driver for %s vs the real command" % e,
                       "mcase": mcase_json(cases[idx[0]]), "outputs": cases[idx[0]]["out"]}, False)
    ctx.extra["disagreements_checked"] = ctx.extra.get("disagreements_checked", 0) + sum(len(v) for v in mm.values())


# ---------------------------------------------------------------- line 6: --tid with (elapsed) time ranges
KINDS_T = ["plain", "plain", "plain", "depth", "filter", "notrace"]


def gen_tcase(rng, kind):
    """2-4 tasks that start at different times (any of them may own the oldest record of the recording), --tid with a
    subset of them, -r whose ends are elapsed times or timestamps"""
    cfg, f, tags = gen_case(rng, kind)
    cfg = dict(cfg)
    cfg.pop("range", None)
    cfg.pop("range_first", None)
    cfg.pop("threshold", None)
    cfg.pop("fixup", None)
    ntask = rng.choice([2, 3, 3, 4])
    # the forest the options were made for (it starts near 1000) is one of the tasks, at any position
    starts = rng.sample([880, 940, 1060, 1150, 1250], ntask - 1)
    fs = []
    for st in starts:
        g = forest.gen_shape(rng, NFUN, rng.choice([3, 6, 10]), rng.choice([2, 3, 4]))
        forest.assign_times(rng, g, t0=st, durs=(1, 2, 3, 9, 10, 11, 99, 100, 101, 200))
        fs.append(g)
    fs.insert(rng.randrange(ntask), f)
    firsts = [min(c.t0 for c in fcalls(g)) for g in fs]
    origin = min(firsts)
    owner = firsts.index(origin)
    times = sorted(set(t for g in fs for c in fcalls(g) for t in (c.t0, c.t1)))
    mode = rng.choice(["owner-out", "owner-out", "middle-out", "all", "any"])
    idx = list(range(ntask))
    if mode == "owner-out":
        sel = [i for i in idx if i != owner and rng.random() < 0.7] or [rng.choice([i for i in idx if i != owner])]
    elif mode == "middle-out":
        out = rng.choice([i for i in idx if i != owner])
        sel = [i for i in idx if i != out]
    elif mode == "all":
        sel = None                          # no --tid: the order of the tasks alone must not move the origin
    else:
        sel = sorted(rng.sample(idx, rng.randint(1, ntask)))
    later = [t for t in times if t > origin]
    a = rng.choice([0] + later[:max(1, len(later) * 2 // 3)] * 2)
    b_ = rng.choice([0] + [t for t in later if t >= a] * 2) if a else rng.choice(later)
    ea = bool(a) and rng.random() < 0.75
    eb = bool(b_) and rng.random() < 0.75
    cfg["erange"] = (a - origin if ea else a, ea, b_ - origin if eb else b_, eb)
    cfg["tid_sel"] = sel
    tags = ["tid-range:" + kind, "tid-range:" + mode, "tasks=%d" % ntask]
    if ea or eb:
        tags.append("tid-range:elapsed")
    if sel is not None and owner not in sel and (ea or eb):
        tags.append("tid-range:origin-owner-excluded")
    if owner != 0:
        tags.append("tid-range:first-task-not-oldest")
    return cfg, fs, tags


def tcase_term(c):
    cfg = c["cfg"]
    a, ea, b_, eb = cfg["erange"]
    sel = cfg["tid_sel"] if cfg.get("tid_sel") is not None else list(range(len(c["forests"])))
    base = dict(cfg)
    return ("{| t_case := %s;\n   t_range := {| e_start := %d%%N; e_start_el := %s; e_stop := %d%%N; e_stop_el := %s |};\n"
            "   t_sel := [%s] |}") % (mcase_term({"cfg": base, "forests": c["forests"], "out": c["out"]}), a, b(ea), b_, b(eb),
                                   "; ".join("%d%%nat" % i for i in sel))


def evaluate6(ctx, cases, name="tcases"):
    defs = "Definition tcases : list tcase := [\n%s\n].\nDefinition rcases := map t_resolved tcases.\n" % ";\n".join(
        tcase_term(c) for c in cases)
    evs = [("mm_" + e, "bad_indices magree_%s rcases 0" % e) for e in MEVALS]
    evs += [("v_agree", "bad_indices mok_agree rcases 0"), ("v_range", "bad_indices mok_range rcases 0"),
            ("in_range", "bad_indices (fun k => negb (mrange_only k)) rcases 0"),
            ("owner_out", "bad_indices (fun k => negb (t_origin_excluded k)) tcases 0")]
    res = coq.run_cases(ctx, name, PRE, defs, evs)
    if res is None:
        return None
    return {k: coq.parse_nat_list(v) for k, v in res.items()}


def verdict6(ctx, cases, res):
    if res is None:
        return
    for i in res["v_range"][:3]:
        ctx.violation("C07 violated: with --tid and a time range a selected task does not show exactly its records inside "
                      "the window (elapsed ends count from the oldest record of the whole recording): %s"
                      % " ".join(cli_opts(cases[i]["cfg"])),
                      {"line": 6, "check": "mok_range", "tcase": mcase_json(cases[i]), "outputs": cases[i]["out"]}, True)
    for i in res["v_agree"][:3]:
        ctx.violation("C07 violated: the analysis commands disagree under --tid and a time range: %s"
                      % " ".join(cli_opts(cases[i]["cfg"])),
                      {"line": 6, "check": "mok_agree", "tcase": mcase_json(cases[i]), "outputs": cases[i]["out"]}, True)
    mm = {e: res["mm_" + e] for e in MEVALS if res["mm_" + e]}
    if mm and not res["v_range"] and not res["v_agree"]:
        e, idx = sorted(mm.items())[0]
        ctx.violation("C07 violated: `%s` with --tid and a time range does not show what the selected tasks show under the "
                      "window counted from the oldest record of the whole recording, on %d case(s) (%s); e.g. %s"
                      % (e, len(idx), ", ".join("%s:%d" % (k, len(v)) for k, v in sorted(mm.items())),
                         " ".join(cli_opts(cases[idx[0]]["cfg"]))),
                      {"line": 6, "check": "magree_%s on t_resolved" % e, "tcase": mcase_json(cases[idx[0]]),
                       "outputs": cases[idx[0]]["out"]}, True)
    ctx.extra["disagreements_checked"] = ctx.extra.get("disagreements_checked", 0) + sum(len(v) for v in mm.values())


KINDS3 = ["plain", "depth", "filter", "fn", "fd", "time", "timetrig", "caller", "hide", "deptrig", "mix", "mix2", "switch", "loc", "locmix",
          "range", "pltleaf", "plt"]


# ---------------------------------------------------------------- line 4: end to end with compiled programs
def gen_program(rng):
    """random call DAG over NAMES[0..7] (main = 0, callees have a higher number) -> (C source, call forest)"""
    for _ in range(50):
        calls = {0: [rng.randrange(1, 4) for _ in range(rng.choice([1, 2, 3]))]}
        for i in range(1, NFUN):
            hi = list(range(i + 1, NFUN))
            calls[i] = [rng.choice(hi) for _ in range(rng.choice([0, 0, 1, 2, 3]))] if hi else []
        count = [0]

        def unfold(i, depth):
            count[0] += 1
            if count[0] > 80 or depth > 12:
                raise OverflowError
            return Call(i, kids=[unfold(j, depth + 1) for j in calls[i]])
        try:
            tree = unfold(0, 0)
        except OverflowError:
            continue
        if count[0] < 4:
            continue
        # function i lives in source file s<i%3>.c (for -L); one header declares everything
        src = {"p.h": "extern volatile int sink;\n#define NI __attribute__((noinline))\n"
               + "".join("void %s(void);\n" % NAMES[i] for i in range(1, NFUN))}
        for j in range(3):
            src["s%d.c" % j] = '#include "p.h"\n' + ("volatile int sink;\n" if j == 0 else "")
        for i in range(NFUN - 1, 0, -1):
            src["s%d.c" % (i % 3)] += "NI void %s(void) { sink++; %s }\n" % (
                NAMES[i], " ".join("%s();" % NAMES[j] for j in calls[i]))
        src["s0.c"] += "int main(void) { %s sink++; return 0; }\n" % " ".join("%s();" % NAMES[j] for j in calls[0])
        f = [tree]
        clock = [1000]

        def stamp(c):
            clock[0] += 3
            c.t0 = clock[0]
            for k in c.kids:
                stamp(k)
            clock[0] += 3
            c.t1 = clock[0]
        stamp(tree)
        return src, f
    raise RuntimeError("could not generate a program")


def gen_e2e_cfg(rng, f):
    used = sorted(set(c.k for c in fcalls(f)))
    cfg = {"trig": {}}
    kind = rng.choice(["depth", "filter", "notrace", "fn", "fd", "fnd", "loc", "loc", "locd"])
    if kind in ("loc", "locd"):
        # -L FILE / -L FILE@hide: every function of the file gets the location trigger
        files = {}
        for _ in range(rng.choice([1, 1, 2])):
            files[rng.randrange(3)] = rng.random() < 0.6
        cfg["loc"] = {k: v for k in range(NFUN) for j, v in files.items() if k % 3 == j}
        cfg["loc_files"] = files
        if kind == "locd":
            cfg["depth"] = rng.choice([1, 2, 3])
        return kind, cfg
    if kind in ("depth", "fd", "fnd"):
        cfg["depth"] = rng.choice([1, 2, 3, max(1, fheight(f) - 1)])
    if kind in ("filter", "fn", "fd", "fnd"):
        for _ in range(rng.choice([1, 2])):
            cfg["trig"].setdefault(rng.choice(used), {})["filter"] = True
    if kind in ("notrace", "fn", "fnd"):
        for _ in range(rng.choice([1, 2])):
            k = rng.choice(used)
            if not cfg["trig"].get(k):
                cfg["trig"][k] = {"filter": False}
    return kind, cfg


def e2e_opts(cfg):
    """command line of an end-to-end option set: -L takes the real source file names"""
    c = dict(cfg)
    files = c.pop("loc_files", {})
    c.pop("loc", None)
    o = cli_opts(c)
    for j, v in sorted(files.items()):
        o += ["-L", "s%d.c%s" % (j, "" if v else "@hide")]
    return o


def parse_replay_known(out):
    """replay output of a real program: lines of functions that are not ours (start-up code) are dropped"""
    keep = []
    for l in out.splitlines():
        m = RE_OPEN.match(l) or RE_LEAF.match(l) or RE_CLOSE.match(l)
        if m and m.group(2) not in FN:
            continue
        keep.append(l)
    return parse_replay("\n".join(keep))


def line4(ctx, objdir, nprog, ncfg):
    rng = ctx.rng
    uft = os.path.join(objdir, "uftrace")
    root = os.path.join(ctx.scratch, "e2e")
    os.makedirs(root, exist_ok=True)
    cases = []

    def record(exe, d, opts):
        shutil.rmtree(d, ignore_errors=True)
        rc, out, err = sh(["timeout", "30", uft, "record", "--no-pager", "--no-event", "--no-libcall",
                           "--libmcount-path=" + objdir, "-d", d] + opts + [exe], timeout=60, cwd=root)
        if rc != 0:
            raise ParseError("uftrace record %s failed rc=%d: %s" % (" ".join(opts), rc, (out + err)[-300:]))

    def replay(d, opts):
        if not any(x.endswith(".dat") and os.path.getsize(os.path.join(d, x)) > 0 for x in os.listdir(d)):
            return []
        rc, out, err = datadir.uftrace(objdir, "replay", d, ["-f", "none"] + opts, timeout=30)
        if rc != 0:
            raise ParseError("uftrace replay %s failed rc=%d: %s" % (" ".join(opts), rc, (out + err)[-300:]))
        return parse_replay_known(out)
    for pi in range(nprog):
        srcs, f = gen_program(rng)
        for name, text in srcs.items():
            with open(os.path.join(root, name), "w") as fh:
                fh.write(text)
        src = "".join("/* %s */\n%s" % (n, t) for n, t in sorted(srcs.items()))
        exes = {}
        for shape, flags in (("pg", ["-pg"]), ("cyg", ["-finstrument-functions"])):
            exe = os.path.join(root, "p_%s" % shape)
            sh(["gcc", "-O0", "-g", "-w", "-fno-builtin"] + flags + ["-o", exe] + ["s0.c", "s1.c", "s2.c"], check=True,
               cwd=root)
            exes[shape] = exe
        for shape, exe in exes.items():
            full = os.path.join(root, "full")
            try:
                record(exe, full, ["--srcline"])
                base = replay(full, [])
                for _ in range(ncfg):
                    kind, cfg = gen_e2e_cfg(rng, f)
                    o = e2e_opts(cfg)
                    record(exe, os.path.join(root, "filt"), o)
                    cases.append({"kind": kind, "shape": shape, "cfg": cfg, "forest": f, "src": src,
                                  "rec": replay(os.path.join(root, "filt"), []), "opt": replay(full, o), "base": base})
            except ParseError as e:
                ctx.violation("end-to-end run failed: %s" % e, {"line": 4, "program": src, "shape": shape}, True)
    return cases


def evaluate4(ctx, cases, name="ecases"):
    defs = "Definition ecases : list ecase := [\n%s\n].\n" % ";\n".join(
        "{| e_cfg := %s; e_forest := %s; e_rec := %s; e_opt := %s |}" % (
            coq_cfg(c["cfg"]), coq_forest(c["forest"]), coq_nd(c["rec"]), coq_nd(c["opt"])) for c in cases)
    res = coq.run_cases(ctx, name, PRE, defs, [("v_e2e", "bad_indices ok_e2e ecases 0")])
    if res is None:
        return None
    return {k: coq.parse_nat_list(v) for k, v in res.items()}


def verdict4(ctx, cases, res):
    if res is None:
        return
    for i in res["v_e2e"][:3]:
        c = cases[i]
        ctx.violation("C07 violated end to end (%s): `record %s` + replay, `record` + `replay %s` and the documented "
                      "selection differ" % (c["shape"], " ".join(e2e_opts(c["cfg"])), " ".join(e2e_opts(c["cfg"]))),
                      {"line": 4, "program": c["src"], "shape": c["shape"], "options": e2e_opts(c["cfg"]),
                       "record_with_options_then_replay": c["rec"], "record_then_replay_with_options": c["opt"],
                       "forest": [x.to_json() for x in c["forest"]], "cfg": cfg_json(c["cfg"])}, True)


# ---------------------------------------------------------------- dedicated witnesses of known divergences
def C(k, t0, t1, kids=None):
    return Call(k, t0, t1, kids or [])


def witnesses1():
    """(key, what, cfg, forest, differs(out) -> bool)"""
    f1 = [C(0, 1000, 2000, [C(1, 1100, 1500, [C(2, 1200, 1400, [C(3, 1250, 1300)])]), C(4, 1600, 1700)])]
    fplt = [C(0, 1000, 2000, [C(4, 1100, 1150), C(2, 1200, 1400, [C(3, 1250, 1300)])])]
    return [
        ("raw-dump-ignores-time-filter",
         "`uftrace dump -t 101ns` (raw format) prints calls that every other command drops (do_dump_file reads the "
         "data files without the look-ahead time/caller filter)",
         {"trig": {}, "threshold": 101}, f1,
         lambda o: [(x, f) for x, f, d, t in o["raw"]] != [(x, f) for x, f, t in o["chrome"]]),
        ("no-libcall-replay-vs-report",
         "`--no-libcall -D 2`: replay shows a callback below a hidden PLT function that report/graph/dump count as "
         "too deep (replay skips fstack_entry for PLT functions, the others run it)",
         {"trig": {}, "depth": 2, "libcall": False, "plt": [2]}, fplt,
         lambda o: [(x, f) for x, f, d in o["replay"]] != [(x, f) for x, f, t in o["chrome"]]),
    ]


def witnesses2():
    return [
        ("filter-below-depth-trigger",
         "-F main -T alpha@depth=1 -F beta: record shows alpha { beta }, replay of the full recording shows beta's "
         "whole subtree (DESIGN section 9 #12)",
         {"trig": {0: {"filter": True}, 1: {"depth": 1}, 2: {"filter": True}}},
         [C(0, 1000, 2000, [C(1, 1100, 1900, [C(2, 1200, 1800, [C(3, 1300, 1700, [C(4, 1400, 1500)])])])])], "pg"),
        ("time-trigger-outside-filter",
         "-F delta -T main@time=300ns -t 100ns: the time= of a function outside the -F scope is honoured at replay "
         "time only",
         {"trig": {0: {"time": 300}, 4: {"filter": True}}, "threshold": 100},
         [C(0, 1000, 3000, [C(4, 1100, 2500, [C(2, 1200, 1403), C(3, 1500, 2000)])])], "pg"),
    ]


def corpus2():
    """fixed defect kept as ordinary cases (/repo 075e798): a call that runs exactly the threshold was dropped by
    `record -t T` (kept `>`) and shown by `replay -t T` (drops `<`)"""
    T = 100
    f = [C(0, 1000, 2000, [C(1, 1100, 1100 + T), C(2, 1300, 1300 + T + 1), C(3, 1500, 1500 + T - 1)])]
    return [("corpus:threshold-boundary", {"trig": {}, "threshold": T}, f, ["corpus:threshold-boundary"], "pg"),
            ("corpus:threshold-boundary", {"trig": {}, "threshold": T}, f, ["corpus:threshold-boundary"], "cyg"),
            ("corpus:threshold-boundary", {"trig": {1: {"time": T + 1}}, "threshold": T}, f, ["corpus:threshold-boundary"], "pg")]


def report_witness(ctx, key, what, still, replay_obj):
    """every divergence witness goes through ctx.known_finding: listed -> KNOWN-FINDING line,
    reproducing but unlisted -> VIOLATION, no longer reproducing -> logged"""
    ctx.extra.setdefault("divergence_witnesses", {})[key] = "reproduces" if still else "no longer reproduces"
    ctx.known_finding(key, what, still, replay_obj)


# fixed defects kept as ordinary (corpus) cases: a regression is a VIOLATION through ok_agree
def corpus1():
    f1 = [C(0, 1000, 2000, [C(1, 1100, 1500, [C(2, 1200, 1400, [C(3, 1250, 1300)])]), C(4, 1600, 1700)])]
    return [("corpus:graph-time-range", {"trig": {}, "range": (1200, 1650)}, f1, ["corpus:graph-time-range"]),
            ("corpus:graph-trace-on", {"trig": {0: {"trace_off": True}, 4: {"trace_on": True}}}, f1,
             ["corpus:graph-trace-on"]),
            # be2fe34: an elapsed end of the range must close / count the calls still open (main, alpha)
            ("corpus:elapsed-range-open-calls", {"trig": {}, "range": (1200, 1450), "range_first": 1000}, f1,
             ["corpus:elapsed-range-open-calls", "range:elapsed"]),
            ("corpus:elapsed-range-stop-only", {"trig": {}, "range": (0, 1650), "range_first": 1000}, f1,
             ["corpus:elapsed-range-stop-only", "range:elapsed"]),
            # functions named like entries of the internal fixup table, no user filter on them: outside the -F scope,
            # beyond -D, below -N - they are ordinary functions for the selection
            ("fixup:explicit", {"trig": {3: {"filter": True}}, "fixup": [1, 2, 4]},
             [C(0, 1000, 2000, [C(2, 1100, 1150), C(1, 1200, 1300, [C(4, 1210, 1220)]), C(3, 1400, 1900, [C(2, 1500, 1600)])])],
             ["fixup-named", "fixup-named:no-user-entry-under-F-or-D", "fixup-named:explicit"]),
            ("fixup:explicit", {"trig": {}, "depth": 2, "fixup": [1, 2, 5]},
             [C(0, 1000, 2000, [C(3, 1100, 1900, [C(1, 1200, 1300, [C(2, 1210, 1290, [C(5, 1220, 1230)])]), C(4, 1400, 1500)])])],
             ["fixup-named", "fixup-named:no-user-entry-under-F-or-D", "fixup-named:explicit"]),
            ("fixup:explicit", {"trig": {3: {"filter": False}, 4: {"filter": True}}, "depth": 2, "fixup": [2, 5]},
             [C(0, 1000, 2000, [C(2, 1050, 1080), C(3, 1100, 1500, [C(2, 1200, 1300)]),
                                C(4, 1600, 1900, [C(1, 1610, 1800, [C(5, 1620, 1700, [C(2, 1630, 1650)])])])])],
             ["fixup-named", "fixup-named:no-user-entry-under-F-or-D", "fixup-named:explicit"])]


def run(ctx):
    common_meta(ctx)
    objdir, sp = setup(ctx)
    rng = ctx.rng
    # ---- line 1
    todo = []
    w1 = witnesses1()
    for key, what, cfg, f, differs in w1:
        todo.append(("witness:" + key, cfg, f, ["witness:" + key]))
    todo += corpus1()
    n = ctx.n(5, 75)
    for kind in KINDS:
        for _ in range(n if kind != "plain" else 3):
            cfg, f, tags = gen_case(rng, kind)
            todo.append((kind, cfg, f, tags))
    cases = line1(ctx, objdir, sp, todo)
    res = evaluate(ctx, cases)
    inside = set(res["in_spec"]) if res else set()      # bad_indices of (negb spec_class) = members of the class
    for i, c in enumerate(cases):
        size = sum(x.size() for x in c["forest"])
        ctx.case(key=(json.dumps(cfg_json(c["cfg"]), sort_keys=True), json.dumps([x.to_json() for x in c["forest"]])),
                 nontrivial=hides_something(c), tags=c["tags"] + (["in-spec-class"] if i in inside else []),
                 size=size, sample=case_json(c) if len(ctx.samples) < 3 and hides_something(c) else None)
    verdict1(ctx, cases, res)
    for (key, what, cfg, f, differs), c in zip(w1, [c for c in cases if c["kind"].startswith("witness:")]):
        report_witness(ctx, key, what, differs(c["out"]), {"line": 1, "case": case_json(c)})
    # ---- line 2
    todo = []
    w2 = witnesses2()
    for key, what, cfg, f, shape in w2:
        todo.append(("witness:" + key, cfg, f, ["witness:" + key], shape))
    todo += corpus2()
    n2 = ctx.n(4, 50)
    for kind in KINDS2:
        for i in range(n2 if kind != "plain" else 2):
            cfg, f, tags = gen_case(rng, kind, eq=(i % 3 != 2))
            todo.append((kind, shared_only(cfg), f, tags, "cyg" if i % 4 == 3 else "pg"))
    rcases = line2(ctx, objdir, todo)
    res2 = evaluate2(ctx, rcases)
    outside2 = set(res2["outside"]) if res2 else set()
    for i, c in enumerate(rcases):
        ctx.case(key=("rr", c["shape"], json.dumps(cfg_json(c["cfg"]), sort_keys=True),
                      json.dumps([x.to_json() for x in c["forest"]])),
                 nontrivial=c["rec_replay"] != [] and len(c["records"]) != 2 * sum(x.size() for x in c["forest"]),
                 tags=["record-vs-replay", "rr:" + c["kind"], "rr:" + c["shape"]]
                 + (["rr:in-agreement-class"] if i not in outside2 else [])
                 + (["rr:in-switch-class"] if res2 and i in res2["in_sw"] else []),
                 size=sum(x.size() for x in c["forest"]),
                 sample=rcase_json(c) if i == len(w2) else None)
    verdict2(ctx, rcases, res2)
    for (key, what, cfg, f, shape), c in zip(w2, [c for c in rcases if c["kind"].startswith("witness:")]):
        report_witness(ctx, key, what, c["rec_replay"] != c["opt_replay"], {"line": 2, "rcase": rcase_json(c)})
    # ---- line 3: several tasks
    todo = []
    n3 = ctx.n(3, 20)
    for kind in KINDS3:
        for _ in range(n3 if kind != "plain" else 1):
            cfg, fs, tags = gen_mcase(rng, kind)
            todo.append((kind, cfg, fs, tags))
    mcases = line3(ctx, objdir, todo)
    res3 = evaluate3(ctx, mcases)
    inside3 = set(res3["in_spec"]) if res3 else set()
    for i, c in enumerate(mcases):
        size = sum(x.size() for f in c["forests"] for x in f)
        ctx.case(key=("mt", json.dumps(cfg_json(c["cfg"]), sort_keys=True),
                      json.dumps([[x.to_json() for x in f] for f in c["forests"]])),
                 nontrivial=len(c["out"]["chrome"]) != 2 * size,
                 tags=["several-tasks", "mt:" + c["kind"]] + [t for t in c["tags"] if t.startswith(("tasks=", "equal-", "range:"))]
                 + (["mt:in-spec-class"] if i in inside3 else []),
                 size=size, sample=mcase_json(c) if i == 1 else None)
    verdict3(ctx, mcases, res3)
    # ---- line 6: --tid and elapsed time ranges, several tasks
    todo = corpus6()
    n6 = ctx.n(2, 20)
    for kind in KINDS_T:
        for _ in range(n6):
            cfg, fs, tags = gen_tcase(rng, kind)
            todo.append(("tid-range:" + kind, cfg, fs, tags))
    tcases = line3(ctx, objdir, todo)
    res6 = evaluate6(ctx, tcases)
    inr6 = set(res6["in_range"]) if res6 else set()
    for i, c in enumerate(tcases):
        size = sum(x.size() for f in c["forests"] for x in f)
        ctx.case(key=("tid", json.dumps(cfg_json(c["cfg"]), sort_keys=True),
                      json.dumps([[x.to_json() for x in f] for f in c["forests"]])),
                 nontrivial=len(c["out"]["chrome"]) != 2 * size, tags=c["tags"] + (["tid-range:in-range-class"] if i in inr6 else []),
                 size=size, sample=mcase_json(c) if i == 2 else None)
    verdict6(ctx, tcases, res6)
    # ---- line 5: size filter (no model of the code: documented semantics + agreement of the commands)
    todo = corpus5()
    n5 = ctx.n(1, 10)
    for kind in KINDS_Z:
        for _ in range(n5):
            cfg, f, tags = gen_zcase(rng, kind)
            todo.append(("size:" + kind, cfg, f, tags))
    zcases = line1(ctx, objdir, sp, todo)
    res5 = evaluate5(ctx, zcases)
    inside5 = set(res5["in_spec"]) if res5 else set()
    hides5 = set(res5["hides"]) if res5 else set()
    for i, c in enumerate(zcases):
        ctx.case(key=("size", json.dumps(cfg_json(c["cfg"]), sort_keys=True), json.dumps([x.to_json() for x in c["forest"]])),
                 nontrivial=i in hides5, tags=c["tags"] + (["size:in-spec-class"] if i in inside5 else []),
                 size=sum(x.size() for x in c["forest"]), sample=case_json(c) if i == 0 else None)
    verdict5(ctx, zcases, res5)
    # ---- line 4: compiled programs, real `uftrace record`
    ecases = line4(ctx, objdir, ctx.n(1, 6), ctx.n(4, 8))
    res4 = evaluate4(ctx, ecases)
    for c in ecases:
        ctx.case(key=("e2e", c["shape"], c["src"], json.dumps(cfg_json(c["cfg"]), sort_keys=True)),
                 nontrivial=c["opt"] != c["base"], tags=["e2e", "e2e:" + c["shape"], "e2e:" + c["kind"]],
                 size=sum(x.size() for x in c["forest"]))
    verdict4(ctx, ecases, res4)


def replay(ctx, obj):
    common_meta(ctx)
    objdir, sp = setup(ctx)
    rj = obj.get("rcase")
    if rj:
        cfg = cfg_unjson(rj["cfg"])
        f = [Call.from_json(x) for x in rj["forest"]]
        rcases = line2(ctx, objdir, [("replay", cfg, f, [], rj.get("shape", "pg"))])
        res2 = evaluate2(ctx, rcases)
        for c in rcases:
            ctx.case(key="replay", sample=rcase_json(c))
            ctx.log("replayed: record", c["rec_replay"], "vs replay", c["opt_replay"])
        verdict2(ctx, rcases, res2)
        return
    mj = obj.get("mcase")
    if mj:
        cfg = cfg_unjson(mj["cfg"])
        fs = [[Call.from_json(x) for x in f] for f in mj["forests"]]
        mcases = line3(ctx, objdir, [("replay", cfg, fs, [])])
        res3 = evaluate3(ctx, mcases)
        for c in mcases:
            ctx.case(key="replay", sample=mcase_json(c))
            ctx.log("replayed (several tasks): options", " ".join(cli_opts(cfg)), "outputs", c["out"])
        verdict3(ctx, mcases, res3)
        return
    tj = obj.get("tcase")
    if tj:
        cfg = cfg_unjson(tj["cfg"])
        fs = [[Call.from_json(x) for x in f] for f in tj["forests"]]
        tcases = line3(ctx, objdir, [("replay", cfg, fs, [])])
        res6 = evaluate6(ctx, tcases)
        for c in tcases:
            ctx.case(key="replay", sample=mcase_json(c))
            ctx.log("replayed (--tid, time range): options", " ".join(cli_opts(cfg)), "outputs", c["out"])
        verdict6(ctx, tcases, res6)
        return
    zj = obj.get("zcase")
    if zj:
        cfg = cfg_unjson(zj["cfg"])
        f = [Call.from_json(x) for x in zj["forest"]]
        zcases = line1(ctx, objdir, sp, [("replay", cfg, f, [])])
        res5 = evaluate5(ctx, zcases)
        for c in zcases:
            ctx.case(key="replay", sample=case_json(c))
            ctx.log("replayed (size filter): options", " ".join(cli_opts(cfg)), "outputs", c["out"])
        verdict5(ctx, zcases, res5)
        return
    cj = obj.get("case")
    if not cj:
        ctx.log("replay file has no case; nothing to re-execute")
        return
    cfg = cfg_unjson(cj["cfg"])
    f = [Call.from_json(x) for x in cj["forest"]]
    cases = line1(ctx, objdir, sp, [("replay", cfg, f, [])])
    res = evaluate(ctx, cases)
    for c in cases:
        ctx.case(key="replay", sample=case_json(c))
        ctx.log("replayed: options", " ".join(cli_opts(cfg)), "outputs", c["out"])
    verdict1(ctx, cases, res)
