"""C20 - Recording never destroys data that is not a uftrace data directory.

Theorems: coq/theories/Properties_C20.v (model of utils/utils.c create_directory & friends).
Tie: the real create_directory() (object code of the current tree) is run on generated
trees for histories of 1-4 runs; every (before, after, result) triple is compared with the
model inside Coq (vm_compute) and judged by the extracted-in-place checker ok_run; a second
line runs the real `uftrace record -d DIR` / `uftrace live` and snapshots the parent tree.
"""
import hashlib
import os
import re
import shutil
import time
import subprocess

from vf import build, coq
from vf.core import REPO, sh

MAGIC = b"Ftrace!\0"


# ---------------------------------------------------------------- tree <-> disk <-> Coq
def T_file(b=b""):
    return ("F", bytes(b))


def T_dir(entries=()):
    return ("D", [(n, t) for n, t in entries])


T_LINK = ("L",)       # a symbolic link to the directory OUTSIDE (next to DIR and DIR.old) which holds foreign files
T_ULINK = ("U",)      # a symbolic link to the directory UOUT (next to DIR and DIR.old) which holds uftrace data
OUTSIDE_FILES = [("precious.txt", b"do not lose me"), ("sub/deep.txt", b"nor me")]
UOUT_FILES = [("info", b"Ftrace!\0\x04\0\0\0"), ("task.txt", b"SESS\n"), ("77.dat", b"0123456789abcdef")]


def make_outside(root):
    o = os.path.join(root, "OUTSIDE")
    os.makedirs(os.path.join(o, "sub"), exist_ok=True)
    for n, b in OUTSIDE_FILES:
        with open(os.path.join(o, n), "wb") as f:
            f.write(b)
    u = os.path.join(root, "UOUT")
    os.makedirs(u, exist_ok=True)
    for n, b in UOUT_FILES:
        with open(os.path.join(u, n), "wb") as f:
            f.write(b)
    return o


def outside_intact(root):
    o = os.path.join(root, "OUTSIDE")
    u = os.path.join(root, "UOUT")
    try:
        return (all(open(os.path.join(o, n), "rb").read() == b for n, b in OUTSIDE_FILES) and
                (not os.path.lexists(u) or all(open(os.path.join(u, n), "rb").read() == b for n, b in UOUT_FILES)))
    except OSError:
        return False


def materialise(path, t):
    if t is None:
        return
    if t[0] in ("L", "U"):
        # relative link to <root>/OUTSIDE (or <root>/UOUT): DIR and DIR.old are direct children of <root>, their
        # entries may be nested; DIR or DIR.old themselves may be such a link
        target = "OUTSIDE" if t[0] == "L" else "UOUT"
        if os.path.basename(path) in ("DIR", "DIR.old"):
            os.symlink(target, path)
            return
        depth = 0
        p = os.path.dirname(path)
        while os.path.basename(p) not in ("DIR", "DIR.old") and depth < 20:
            p = os.path.dirname(p)
            depth += 1
        os.symlink(os.path.join(*([".."] * (depth + 1)), target), path)
    elif t[0] == "F":
        with open(path, "wb") as f:
            f.write(t[1])
    else:
        os.mkdir(path)
        for n, c in t[1]:
            materialise(os.path.join(path, n), c)


def snapshot(path, digest=False):
    """digest=True: contents longer than 16 bytes are replaced by first 8 bytes + sha1[:8]
    (keeps the magic of `info`, keeps equality observable, keeps Coq terms small)"""
    if not os.path.lexists(path):
        return None
    if os.path.islink(path):
        return T_ULINK if os.readlink(path).endswith("UOUT") else T_LINK
    if os.path.isdir(path) and not os.path.islink(path):
        return ("D", [(n, snapshot(os.path.join(path, n), digest))
                      for n in sorted(os.listdir(path), key=lambda s: s.encode())])
    if os.path.isfile(path):
        b = open(path, "rb").read()
        if digest and len(b) > 16:
            b = b[:8] + hashlib.sha1(b).digest()[:8]
        return ("F", b)
    return ("F", b"<special>")     # fifo etc. (uftrace's own .channel)


def coq_tree(t):
    if t[0] == "L":
        return "Link"
    if t[0] == "U":
        return "ULink"
    if t[0] == "F":
        return "File %s" % coq.coq_string(t[1])
    return "Dir [%s]" % "; ".join("(%s, %s)" % (coq.coq_string(n), coq_tree(c)) for n, c in t[1])


def coq_slot(t):
    return "None" if t is None else "Some (%s)" % coq_tree(t)


def coq_world(w):
    return "{| dir := %s; old := %s |}" % (coq_slot(w[0]), coq_slot(w[1]))


# ---------------------------------------------------------------- generator
def shapes(rng):
    """the states of DESIGN.md C20 for one slot (name, tree)"""
    junk = bytes(rng.randrange(256) for _ in range(rng.randrange(0, 12)))
    ufiles = [("task.txt", T_file(b"SESS\n")), ("100.dat", T_file(junk)), ("default.opts", T_file(b"-t 1\n"))]
    return [
        ("absent", None),
        ("empty", T_dir()),
        ("udata", T_dir([("info", T_file(MAGIC + b"\x04\0\0\0" + junk))] + ufiles[:rng.randrange(0, 4)])),
        ("udata+foreign", T_dir([("info", T_file(MAGIC)), ("notes.txt", T_file(b"keep me"))])),
        ("opts-only", T_dir([("default.opts", T_file(b""))])),
        ("magic7", T_dir([("info", T_file(MAGIC[:7]))])),            # short read into a zeroed buffer
        ("bad-info", T_dir([("info", T_file(b"Ftrace?\0"))])),
        ("bad-info+opts", T_dir([("info", T_file(junk or b"x")), ("default.opts", T_file(b""))])),
        ("empty-info", T_dir([("info", T_file(b""))])),
        ("info-is-dir", T_dir([("info", T_dir()), ("default.opts", T_file(b""))])),
        ("foreign", T_dir([("notes.txt", T_file(b"important " + junk))])),
        ("foreign-nested", T_dir([("a", T_dir([("b", T_dir([("c.txt", T_file(junk))]))])), ("z", T_file(b"1"))])),
        ("nested-empty", T_dir([("sub", T_dir())])),
        ("file", T_file(b"i am a file")),
        ("opts-is-dir", T_dir([("default.opts", T_dir())])),
        ("opts-is-dir+x", T_dir([("default.opts", T_dir()), ("x", T_file(b"x"))])),
        # hidden entries: a directory holding only dot-files is NOT empty
        ("dot-only", T_dir([(".env", T_file(b"SECRET=1\n")), (".git", T_dir([("HEAD", T_file(b"ref: x\n"))]))])),
        ("dot-file", T_dir([(".keep", T_file(b""))])),
        ("dotdot-names", T_dir([("..x", T_file(b"1")), ("...", T_file(b"2"))])),
        # symbolic links to a directory outside: removing the directory must not follow them
        ("udata+link", T_dir([("info", T_file(MAGIC + b"\x04\0\0\0")), ("ln", T_LINK), ("task.txt", T_file(b"SESS\n"))])),
        ("udata+nested-link", T_dir([("info", T_file(MAGIC)), ("d", T_dir([("ln", T_LINK), ("x", T_file(b"1"))]))])),
        ("link-only", T_dir([("ln", T_LINK)])),
        ("foreign+link", T_dir([("notes.txt", T_file(b"keep")), ("ln", T_LINK)])),
        ("udata+ulink", T_dir([("info", T_file(MAGIC)), ("prev", T_ULINK)])),
        # DIR / DIR.old themselves are symbolic links: to a foreign directory, to uftrace data elsewhere
        ("toplink-foreign", T_LINK),
        ("toplink-udata", T_ULINK),
    ]


FOREIGN = {"bad-info", "bad-info+opts", "empty-info", "info-is-dir", "foreign", "foreign-nested", "nested-empty",
           "file", "dot-only", "dot-file", "dotdot-names", "link-only", "foreign+link", "toplink-foreign"}


def gen_histories(ctx):
    rng = ctx.rng
    hs = []
    names = [s[0] for s in shapes(rng)]
    # all pairs of shapes, history length 1 (exhaustive over the shape table)
    for i in range(len(names)):
        for j in range(len(names)):
            sh_ = shapes(rng)
            hs.append(((sh_[i][0], sh_[j][0]), (sh_[i][1], sh_[j][1]), [gen_run(rng)]))
    # longer histories
    for _ in range(ctx.n(60, 1500)):
        sh_ = shapes(rng)
        a, b = rng.choice(sh_), rng.choice(sh_)
        hs.append(((a[0], b[0]), (a[1], b[1]), [gen_run(rng) for _ in range(rng.randrange(2, 5))]))
    return hs


def gen_run(rng):
    opts = rng.choice([[], [], ["-t", "1us"], ["-D", "3", "-F", "main"]])
    kind = rng.randrange(4)
    extra = []
    if kind >= 1:     # a completed recording
        extra = [("info", T_file(MAGIC + b"\x04\0\0\0")), ("task.txt", T_file(b"SESS\n"))]
    if kind == 2:
        extra.append(("%d.dat" % rng.randrange(1, 9999), T_file(bytes(rng.randrange(256) for _ in range(16)))))
    if kind == 3:     # killed half way: no info written yet
        extra = [("task.txt", T_file(b""))]
    return (opts, extra)


def opts_bytes(opts):
    return (" ".join(opts) + "\n").encode() if opts else b""


# ---------------------------------------------------------------- running the implementation
def run_history(exe, root, w0, runs):
    """returns list of steps (before, opts_bytes, after_create, rc, after_run)"""
    if os.path.exists(root):
        shutil.rmtree(root)
    os.mkdir(root)
    make_outside(root)
    d, o = os.path.join(root, "DIR"), os.path.join(root, "DIR.old")
    materialise(d, w0[0])
    materialise(o, w0[1])
    steps = []
    for opts, extra in runs:
        before = (snapshot(d), snapshot(o))
        p = subprocess.run([exe, d] + opts, capture_output=True, text=True, timeout=30)
        if not p.stdout.startswith("R "):
            raise RuntimeError("c20 harness crashed: rc=%s %s" % (p.returncode, p.stderr[-500:]))
        rc = int(p.stdout.split()[1])
        after = (snapshot(d), snapshot(o))
        if rc == 0:
            for n, t in extra:
                pth = os.path.join(d, n)
                if not os.path.lexists(pth):
                    materialise(pth, t)
        steps.append({"before": before, "opts": opts, "after": after, "rc": rc, "end": (snapshot(d), snapshot(o)),
                      "outside_ok": outside_intact(root)})
    shutil.rmtree(root)
    return steps


def step_term(st):
    return "(%s, %s, %s, %s)" % (coq_world(st["before"]), coq.coq_string(opts_bytes(st["opts"])),
                                 coq_world(st["after"]), "OK" if st["rc"] == 0 else "Error")


PRE = """From Coq Require Import NArith List Bool.
Import ListNotations.
Require Import UV.C20.Model.
Local Open Scope N_scope.
"""


def evaluate(ctx, steps, hist_pairs, name="cases"):
    defs = "Definition steps : list (world * list N * world * result) := [\n%s\n].\n" % ";\n".join(step_term(s) for s in steps)
    defs += "Definition hists : list (world * world) := [\n%s\n].\n" % ";\n".join(
        "(%s, %s)" % (coq_world(a), coq_world(b)) for a, b in hist_pairs)
    res = coq.run_cases(ctx, name, PRE, defs, [
        ("mismatch", "bad_indices (agrees true) steps 0"),
        ("violations", "bad_indices okc steps 0"),
        ("hist_violations", "bad_indices (fun p => ok_history (fst p) (snd p)) hists 0"),
    ])
    if res is None:
        return None
    return {k: coq.parse_nat_list(v) for k, v in res.items()}


def jsonable(t):
    if t is None:
        return None
    if t[0] == "L":
        return {"symlink": "../OUTSIDE"}
    if t[0] == "U":
        return {"symlink": "../UOUT (a uftrace data directory)"}
    if t[0] == "F":
        return {"file": t[1].hex()}
    return {"dir": {n: jsonable(c) for n, c in t[1]}}


def step_json(st):
    return {"before": {"DIR": jsonable(st["before"][0]), "DIR.old": jsonable(st["before"][1])},
            "default_opts": st["opts"], "create_directory_returned": st["rc"],
            "after": {"DIR": jsonable(st["after"][0]), "DIR.old": jsonable(st["after"][1])}}


# ---------------------------------------------------------------- end-to-end
PROG = "int foo(int x){return x+1;} int main(void){return foo(1)-2;}\n"


def e2e(ctx, objdir):
    """real `uftrace record -d DIR` and `uftrace live` on a -pg program; parent tree snapshots"""
    root = os.path.join(ctx.scratch, "e2e")
    os.makedirs(root)
    src = os.path.join(root, "p.c")
    open(src, "w").write(PROG)
    exe = os.path.join(root, "p")
    sh(["gcc", "-pg", "-o", exe, src], check=True)
    uft = os.path.join(objdir, "uftrace")
    steps, hists = [], []
    sh_ = shapes(ctx.rng)
    picks = [(a, b) for a in sh_ for b in sh_ if a[0] in ("foreign", "file", "udata", "empty", "absent", "bad-info+opts", "opts-only", "dot-only",
                                                           "udata+link", "toplink-udata")
             and b[0] in ("absent", "foreign", "udata", "file", "dot-file", "udata+link", "udata+nested-link",
                          "toplink-udata", "toplink-foreign")]
    if not ctx.thorough():
        picks = picks[::2]
    for a, b in picks:
        work = os.path.join(root, "w")
        if os.path.exists(work):
            shutil.rmtree(work)
        os.mkdir(work)
        make_outside(work)
        d, o = os.path.join(work, "DIR"), os.path.join(work, "DIR.old")
        materialise(d, a[1])
        materialise(o, b[1])
        first = (snapshot(d, True), snapshot(o, True))
        nruns = 3
        for k in range(nruns):
            before = (snapshot(d, True), snapshot(o, True))
            rc, out, err = sh(["timeout", "30", uft, "record", "--no-pager", "--no-event", "--libmcount-path=" + objdir,
                               "-d", d, exe], timeout=60, cwd=work)
            if rc == 124:
                ctx.violation("uftrace record did not terminate (e2e C20 run)", {"DIR": a[0], "DIR.old": b[0]}, True)
                break
            end = (snapshot(d, True), snapshot(o, True))
            # `after create_directory` is not separately observable end-to-end: judge the whole run with ok_run
            steps.append({"before": before, "opts": [], "after": end, "rc": 0 if rc == 0 else -1,
                          "shape": (a[0], b[0]), "e2e": True})
            if not outside_intact(work):
                ctx.violation("C20 violated end to end: `uftrace record -d DIR` deleted files OUTSIDE DIR and DIR.old (reached "
                              "through a symbolic link inside a directory it removed)",
                              {"mode": "e2e", "DIR": a[0], "DIR.old": b[0], "run": k}, True)
                break
            others = sorted(os.listdir(work))
            if [x for x in others if x not in ("DIR", "DIR.old", "OUTSIDE", "UOUT")]:
                ctx.violation("record created stray entries next to DIR: %s" % others, {"DIR": a[0], "DIR.old": b[0]}, True)
        hists.append((first, (snapshot(d, True), snapshot(o, True))))
        ctx.case(key=("e2e", a[0], b[0]), tags=["e2e:DIR=" + a[0], "e2e:OLD=" + b[0]])
    # --host path: record stages into DIR, sends, then removes its own staging directory
    import socket
    sk = socket.socket()
    sk.bind(("127.0.0.1", 0))
    port = sk.getsockname()[1]
    sk.close()                      # nothing listens on this port: connecting fails
    hpicks = [(a, b) for a in sh_ for b in sh_ if a[0] in ("foreign", "file", "dot-only", "udata", "absent", "bad-info+opts")
              and b[0] in ("absent", "foreign")]
    for a, b in hpicks:
        work = os.path.join(root, "wh")
        if os.path.exists(work):
            shutil.rmtree(work)
        os.mkdir(work)
        d, o = os.path.join(work, "DIR"), os.path.join(work, "DIR.old")
        materialise(d, a[1])
        materialise(o, b[1])
        first = (snapshot(d, True), snapshot(o, True))
        rc, out, err = sh(["timeout", "30", uft, "record", "--no-pager", "--no-event", "--libmcount-path=" + objdir,
                           "--host", "127.0.0.1", "--port", str(port), "-d", d, exe], timeout=60, cwd=work)
        if rc == 124:
            ctx.violation("uftrace record --host did not terminate", {"DIR": a[0], "DIR.old": b[0]}, True)
            continue
        end = (snapshot(d, True), snapshot(o, True))
        hists.append((first, end))
        if a[0] in FOREIGN and (rc == 0 or end[0] != first[0]):
            ctx.violation("record --host on a foreign DIR: foreign data changed or the run did not fail (rc=%d)" % rc,
                          {"mode": "e2e-host", "DIR": a[0], "DIR.old": b[0],
                           "before": jsonable(first[0]), "after": jsonable(end[0])}, True)
        ctx.case(key=("e2e-host", a[0], b[0]), tags=["e2e-host:DIR=" + a[0], "e2e-host:OLD=" + b[0]])
    # live mode: removes only its own temporary directory - normal, crashing, failing and interrupted runs
    crash_src = os.path.join(root, "c.c")
    open(crash_src, "w").write("int foo(int x){return x+1;} int main(void){foo(1); *(volatile int*)0 = 1; return 0;}\n")
    crash_exe = os.path.join(root, "c")
    sh(["gcc", "-pg", "-o", crash_exe, crash_src], check=True)
    slow_src = os.path.join(root, "s.c")
    open(slow_src, "w").write("#include <unistd.h>\nint foo(int x){return x+1;} int main(void){foo(1); sleep(20); return 0;}\n")
    slow_exe = os.path.join(root, "s")
    sh(["gcc", "-pg", "-o", slow_exe, slow_src], check=True)

    def ours(name):
        """a /tmp/uftrace-live-* directory belongs to this check iff its info file names one of our programs
        (other processes of the sandbox may run `uftrace live` at the same time)"""
        try:
            data = open(os.path.join("/tmp", name, "info"), "rb").read()
        except OSError:
            return False
        return root.encode() in data
    variants = [("normal", [exe], None), ("crash", [crash_exe], None), ("no-such-program", [os.path.join(root, "nope")], None),
                ("not-elf", [src], None), ("sigterm", [slow_exe], 15), ("sigint", [slow_exe], 2)]
    for vname, argv, sig in variants:
        work = os.path.join(root, "live-" + vname)
        os.mkdir(work)
        materialise(os.path.join(work, "keep"), T_dir([("notes.txt", T_file(b"x"))]))
        materialise(os.path.join(work, "uftrace.data"), T_dir([("mine.txt", T_file(b"foreign"))]))
        tmp_before = set(x for x in os.listdir("/tmp") if x.startswith("uftrace-live-"))
        before = snapshot(work)
        cmd = ["timeout", "30", uft, "live", "--no-pager", "--no-event", "--libmcount-path=" + objdir] + argv
        if sig is None:
            rc, out, err = sh(cmd, timeout=60, cwd=work)
        else:
            import subprocess
            import time as _t
            pr = subprocess.Popen(cmd[2:], cwd=work, stdout=subprocess.PIPE, stderr=subprocess.PIPE)
            _t.sleep(1.5)
            pr.send_signal(sig)
            try:
                o_, e_ = pr.communicate(timeout=40)
            except subprocess.TimeoutExpired:
                pr.kill()
                o_, e_ = pr.communicate()
                ctx.violation("uftrace live did not terminate after signal %d" % sig, {"variant": vname}, True)
            rc, out, err = pr.returncode, o_.decode(errors="replace"), e_.decode(errors="replace")
        after = snapshot(work)
        left = [x for x in os.listdir("/tmp") if x.startswith("uftrace-live-") and x not in tmp_before and ours(x)]
        if before != after:
            ctx.violation("live mode (%s) changed the working directory tree" % vname,
                          {"variant": vname, "before": jsonable(before), "after": jsonable(after)}, True)
        if left:
            ctx.violation("live mode (%s) left its temporary directory behind" % vname, {"variant": vname, "left": sorted(left)}, True)
            for x in left:
                shutil.rmtree(os.path.join("/tmp", x), ignore_errors=True)
        if vname == "normal" and "foo" not in out:
            ctx.broken("e2e live run produced no trace output (rc=%d): %s" % (rc, (out + err)[-300:]))
        ctx.case(key=("e2e", "live", vname), tags=["e2e:live:" + vname])
    # live mode, name taken in between (regression witness of the repaired defect live-cleanup-removes-foreign-directory):
    # an interposed unlink() plants a foreign directory right after live mode released the mkstemp name
    shim_so = os.path.join(root, "live_race_shim.so")
    rc, o_, e_ = sh(["gcc", "-shared", "-fPIC", "-o", shim_so,
                     os.path.join(os.path.dirname(os.path.dirname(os.path.abspath(__file__))), "harness", "c", "live_race_shim.c"),
                     "-ldl"], timeout=60)
    if rc != 0:
        ctx.broken("live race shim does not compile", e_[-300:])
    else:
        rc, out, err = sh(["timeout", "30", uft, "live", "--no-pager", "--no-event", "--libmcount-path=" + objdir, exe],
                          timeout=60, cwd=root, env={"LD_PRELOAD": shim_so})
        m = re.search(r"SHIM planted (/tmp/uftrace-live-[A-Za-z0-9]+)/precious.txt", out + err)
        ctx.case(key=("e2e", "live", "name-taken"), tags=["e2e:live:name-taken"])
        if not m:
            ctx.broken("live race scenario: the shim did not see the unlink of the temporary name", (out + err)[-300:])
        else:
            planted = m.group(1)
            try:
                kept = open(os.path.join(planted, "precious.txt")).read() == "foreign\n"
            except OSError:
                kept = False
            shutil.rmtree(planted, ignore_errors=True)
            if not kept:
                ctx.violation("live mode removed a foreign directory that had taken its temporary name before the directory "
                              "was created", {"mode": "e2e-live-race", "planted": planted, "output": (out + err)[-400:]}, True)
    return steps, hists


# ---------------------------------------------------------------- entry points
def setup(ctx):
    coq.prove(ctx, "C20")
    objdir = build.get_build("plain", ctx.log)
    exe = os.path.join(ctx.scratch, "c20_harness")
    build.cc([os.path.join(os.path.dirname(__file__), "../harness/c/c20_harness.c"), build.uf_archive(objdir)],
             exe, objdir, extra=build.UF_LIBS)
    return objdir, exe


def common_meta(ctx):
    ctx.rule = ("histories of 1-4 create_directory() runs over all pairs of 16 DIR/DIR.old shapes (exhaustive for length 1) "
                "plus random longer histories; a case is one run (before,after,result); distinct = distinct "
                "(before-tree, opts) pairs; non-trivial = DIR or DIR.old exists before the run")
    ctx.trusted = [
        "Coq 8.16.1 kernel incl. vm_compute (no native_compute); no axioms (Print Assumptions: closed)",
        "hand-written model coq/theories/C20/Model.v of utils/utils.c (is_uftrace_directory, is_empty_directory, "
        "can_remove_directory, remove_directory, create_directory, create_default_opts)",
        "generated constants coq/theories/Gen/Consts.v (gen/gen_consts.py probe compiled against /repo headers)",
        "correspondence harness harness/c/c20_harness.c + props/c20.py (tree snapshots, sorted entries)",
    ]
    ctx.assume = [
        "DIR and DIR.old live in a writable parent; the process may read every entry (runs as root, like the test-suite)",
        "rename/mkdir/rmdir/unlink behave as POSIX specifies for the cases modelled (ENOTEMPTY, ENOTDIR, EEXIST)",
        "no concurrent modification of the directories during a run; symbolic links to an outside directory are modelled "
        "(Link) and tied, other special files (fifo, device) are not",
    ]


def run(ctx):
    common_meta(ctx)
    objdir, exe = setup(ctx)
    hs = gen_histories(ctx)
    all_steps, hist_pairs, owner = [], [], []
    root = os.path.join(ctx.scratch, "tree")
    for hi, (shape, w0, runs) in enumerate(hs):
        steps = run_history(exe, root, w0, runs)
        for st in steps:
            st["shape"] = shape
            if not st["outside_ok"]:
                ctx.violation("C20 violated by in-process create_directory: files OUTSIDE DIR and DIR.old (reached through a "
                              "symbolic link inside a directory that was removed) were deleted",
                              {"mode": "inproc", "step": step_json(st), "shape": shape,
                               "outside": "<root>/OUTSIDE with precious.txt and sub/deep.txt"}, True)
            all_steps.append(st)
            owner.append(hi)
            nontriv = st["before"][0] is not None or st["before"][1] is not None
            ctx.case(key=(repr(st["before"]), tuple(st["opts"])), nontrivial=nontriv,
                     tags=["DIR=" + shape[0], "OLD=" + shape[1], "len=%d" % len(runs), "rc=%d" % st["rc"]],
                     sample=step_json(st) if len(ctx.samples) < 3 and nontriv else None)
        hist_pairs.append((steps[0]["before"], steps[-1]["end"]))
    res = evaluate(ctx, all_steps, hist_pairs)
    e_steps, e_hists = e2e(ctx, objdir)
    eres = evaluate_e2e(ctx, e_steps, e_hists)
    verdict(ctx, all_steps, hist_pairs, res, "in-process create_directory")
    verdict(ctx, e_steps, e_hists, eres, "end-to-end uftrace record", e2e=True)


def evaluate_e2e(ctx, steps, hists):
    if not steps:
        return {"mismatch": [], "violations": [], "hist_violations": []}
    r = evaluate(ctx, steps, hists, name="cases_e2e")
    if r is not None:
        r["mismatch"] = []      # the intermediate state is not observable end-to-end
    return r


def verdict(ctx, steps, hist_pairs, res, what, e2e=False):
    if res is None:
        return
    for i in res["violations"][:3]:
        st = steps[i]
        ctx.violation("C20 violated by %s: a run changed data it must not touch (or did not fail)" % what,
                      {"mode": "e2e" if e2e else "inproc", "step": step_json(st), "shape": st.get("shape")}, True)
    for i in res["hist_violations"][:3]:
        a, b = hist_pairs[i]
        ctx.violation("C20 violated by %s: foreign data present before a run history differs afterwards" % what,
                      {"mode": "e2e" if e2e else "inproc",
                       "first": {"DIR": jsonable(a[0]), "DIR.old": jsonable(a[1])},
                       "last": {"DIR": jsonable(b[0]), "DIR.old": jsonable(b[1])}}, True)
    if res["mismatch"] and not res["violations"] and not res["hist_violations"]:
        st = steps[res["mismatch"][0]]
        ctx.violation("model and implementation of create_directory disagree (%d steps); the property checker "
                      "accepts the implementation's behaviour on every explored case" % len(res["mismatch"]),
                      {"correspondence": "C20.Model.create_directory vs utils/utils.c create_directory",
                       "first_disagreement": step_json(st)}, False)
    ctx.extra.setdefault("disagreements_checked", 0)
    ctx.extra["disagreements_checked"] += len(res["mismatch"])


def replay(ctx, obj):
    common_meta(ctx)
    objdir, exe = setup(ctx)
    st = obj.get("step") or obj.get("first_disagreement")
    if not st:
        ctx.log("replay file has no step; nothing to re-execute")
        return

    def back(j):
        if j is None:
            return None
        if "file" in j:
            return ("F", bytes.fromhex(j["file"]))
        return ("D", [(n, back(c)) for n, c in j["dir"].items()])
    w0 = (back(st["before"]["DIR"]), back(st["before"]["DIR.old"]))
    steps = run_history(exe, os.path.join(ctx.scratch, "tree"), w0, [(st["default_opts"], [])])
    res = evaluate(ctx, steps, [(steps[0]["before"], steps[0]["end"])])
    ctx.case(key="replay", sample=step_json(steps[0]))
    ctx.log("replayed: impl returned", steps[0]["rc"], "after:", step_json(steps[0])["after"])
    verdict(ctx, steps, [(steps[0]["before"], steps[0]["end"])], res, "replay")
