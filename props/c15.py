"""C15 - Graph, flame-graph and Chrome exports are faithful projections of the trace.

Theorems: coq/theories/Properties_C15.v (model of utils/graph.c, cmds/graph.c build_graph, cmds/dump.c
flame/graphviz/mermaid/chrome, print_json_escaped_char, json_quote).
Tie, every run:
  * the real print_json_escaped_char / json_quote (object code of the current tree, harness/c/c15_harness.c)
    on all 256 bytes and on generated strings, compared with the model and lexed as JSON strings in Coq;
  * model-written data directories (adversarial symbol names, recursion, several tasks, calls left open,
    zero-length calls) through the real `uftrace graph`, `dump --flame-graph` (count and --sample-time),
    `--graphviz`, `--mermaid`, `--chrome`; the outputs are parsed back and compared in Coq with the model
    (exactly, in print order) and judged by the reference-aggregation checkers ok_*;
  * witnesses of the known chrome-footer/header defects.
"""
import json
import os
import re
import shutil
import struct
import subprocess

from vf import build, coq, datadir
from vf.core import sh

HERE = os.path.dirname(os.path.abspath(__file__))

# defects of /repo found by this check and reported (proposed-fixes/C15-*.diff).  Disposition of a witness that
# still reproduces:  known-findings.txt has `fixed: property=C15 <commit> <key> ...`  -> VIOLATION (regression);
# `finding: property=C15 key=<key> ...` -> KNOWN-FINDING line;  neither (the lead has not decided yet) -> logged and
# recorded in the evidence, the generators stay out of the class.  Once a witness stops reproducing the generators
# enter the class (adversarial command lines, executable names, uncut flame counts).
REPORTED = {
    "chrome-cmdline-escape": "dump --chrome prints info.cmdline raw: json_quote escapes only the double quote, "
                             "a TAB or backslash in argv gives invalid JSON",
    "chrome-no-cmdline-comma": "dump --chrome without CMDLINE in the info mask ends the metadata object with a "
                               "trailing comma (invalid JSON)",
    "flame-count-truncated": "dump --flame-graph writes the count with snprintf(ptr, len, ...) where len is the length of "
                             "the names, so a count with more digits than the path text has characters is cut "
                             "(`main` + 5 digits -> 4 digits; f called 13 times -> `f 1`)",
    "chrome-name-overflow": "dump --chrome escapes a function name into name_buf[2048] without a bound: a name whose "
                            "escaped form needs >= 2048 bytes overruns the stack (SIGSEGV / ASan stack-buffer-overflow)",
    "chrome-no-event-comma": "dump --chrome ends every metadata event with a comma: when the filters leave no function "
                             "event the traceEvents array has a trailing comma (invalid JSON)",
    "argspec-text-overflow": "get_argspec_string wrote the argument text past the end of its buffer (replay 1 KiB, "
                             "dump 2 KiB): print_args let the remaining length wrap, print_char never looked at it",
    "chrome-ptr-symbol-escape": "dump --chrome printed the symbol name a pointer argument resolves to raw inside the JSON "
                                "string of the arguments / retval member",
    "chrome-struct-name-escape": "dump --chrome printed the type name of a struct argument (from the argument spec / "
                                 "debug info) raw inside the JSON string of the arguments member",
    "graph-last-time-alias": "uftrace graph closed the open calls of a task whose last record is a perf (sched) event at the "
                             "time of the last perf event of ANY task: task->rstack pointed to get_perf_record()'s one "
                             "static record",
    "chrome-close-sched-name": "dump --chrome ended the linux:schedule call of a task that is switched out when the data "
                               "ends with an E event named <30d42> / <30d47> (the event id taken for an address)",
    "chrome-comm-event-escape": "dump --chrome printed the new name of a renamed task (perf COMM event) raw into the "
                                "process_name/thread_name metadata events",
    "dump-sched-preempt": "do_dump_replay did not pass the sched-out event of a pre-empted task to the exporters: the "
                          "sched-in that follows closed something never opened (chrome: E without B; graphs: wrong parent)",
    "chrome-comm-escape": "dump --chrome prints task->comm raw in the process_name/thread_name events: a double "
                          "quote or backslash in the executable's file name gives invalid JSON",
}


# ---------------------------------------------------------------------------------------------
# generators
# ---------------------------------------------------------------------------------------------
FORBIDDEN_NAME_BYTES = {0, 9, 10}            # cannot occur in a loaded symbol name (line based .sym, cut at TAB)
PLAIN = [b"main", b"alpha", b"beta", b"gamma", b"delta", b"f", b"g", b"loop", b"std::vector<int>::push_back",
         b"operator new", b"a b", b"x;y", b"semi;colon;", b"(1) fake", b" +-lead", b"q"]
SPECIAL = [0x22, 0x5c, 0x01, 0x07, 0x08, 0x0b, 0x0c, 0x0d, 0x1b, 0x1f, 0x20, 0x27, 0x2f, 0x3b, 0x7e, 0x7f, 0x80,
           0x9f, 0xa0, 0xc2, 0xc3, 0xe2, 0xf0, 0xfe, 0xff]


def name_ok(n):
    if not n or any(b in FORBIDDEN_NAME_BYTES for b in n):
        return False
    if n.startswith((b"_Z", b"_R", b"_GLOBAL__sub_I_", b"exec", b"fork", b"vfork", b"daemon", b"#")):
        return False
    if n in (b"__sym_end", b"__dynsym_end", b"__func_end"):
        return False
    return True


class NamePool:
    """every byte value that can occur in a symbol name is used at least once per run"""

    def __init__(self, rng):
        self.rng = rng
        self.todo = [b for b in range(256) if b not in FORBIDDEN_NAME_BYTES]
        rng.shuffle(self.todo)

    def one(self):
        rng = self.rng
        k = rng.randrange(10)
        if self.todo and rng.random() < 0.25:
            k = 5
        if k < 3:
            n = rng.choice(PLAIN)
        elif k < 5:                       # a plain name with special bytes spliced in
            n = bytearray(rng.choice(PLAIN))
            for _ in range(rng.randrange(1, 4)):
                n.insert(rng.randrange(len(n) + 1), rng.choice(SPECIAL))
            n = bytes(n)
        elif k < 7 and self.todo:         # sweep over all byte values
            take = [self.todo.pop() for _ in range(min(len(self.todo), rng.randrange(1, 9)))]
            n = b"s" + bytes(take)
        elif k < 8:                       # valid UTF-8
            n = rng.choice(["fé", "中文", "\U0001f600x", "naïve::λ"]).encode()
        elif k < 9:                       # text that looks like the output syntax
            n = rng.choice([b'"] -->|9| 1_1["x', b'a" -> "b', b"main;main", b"x 12", b'\\"', b"\\", b'"', b"\\n", b"\\u12",
                            b"\\x", b"{\"ph\":\"E\"}", b"</div>", b"a\\", b"---", b" | "])
        else:
            n = bytes(rng.choice(SPECIAL + list(range(33, 127))) for _ in range(rng.randrange(1, 24)))
        return n if name_ok(n) else b"n" + bytes(b for b in n if b not in FORBIDDEN_NAME_BYTES)


def gen_case(rng, pool, big=False, avoid_trunc=True):
    """returns dict(tasks=[(tid,pid,ppid)], syms=[bytes], recs=[(tid, is_entry, symidx, t)], sample=int, exe=str)"""
    nsym = rng.randrange(1, 7 if not big else 12)
    syms = [pool.one() for _ in range(nsym)]
    if nsym >= 2 and rng.random() < 0.3:
        syms[rng.randrange(nsym)] = syms[rng.randrange(nsym)]          # the same name at two addresses
    argsym = None
    if rng.random() < 0.4 and b"strfn" not in syms:
        argsym = nsym
        syms.append(b"strfn")
        nsym += 1
    # scheduler events (perf: the task is switched out and in again = a leaf call of the pseudo function
    # linux:schedule) and renames of running tasks (perf COMM events)
    with_events = rng.random() < 0.25            # EVENT records in the .dat (read= / diff triggers): ignored by the exporters
    uevents = []
    with_perf = rng.random() < 0.3
    sched_sym = None
    comms = []
    if with_perf and rng.random() < 0.8:
        sched_sym = nsym
        syms += [SCHED, SCHED_PRE]
        nsym += 2
    ntask = rng.choice([1, 1, 2, 2, 3])
    tasks = [(100, 100, None)]
    if ntask >= 2:
        tasks.append((101, 100, None))                                   # a thread
    if ntask >= 3:
        tasks.append(rng.choice([(205, 205, 100), (102, 100, None)]))    # a forked child or one more thread
    base_t = rng.choice([1000, 1000, 123456789, 1700000000123456789, 999999, 10**12 + 7])
    clock = base_t
    stacks = {t[0]: [] for t in tasks}
    recs = []
    budget = rng.randrange(2, 40 if not big else 120)
    maxd = rng.choice([1, 2, 3, 5, 8])
    steps = [0, 1, 1, 2, 7, 50, 100, 999, 1000, 1001, 12345] + ([10**6 + 1, 10**9 + 5] if rng.random() < 0.2 else [])
    last_tid = None
    recursion = rng.random() < 0.4
    while budget > 0:
        tid = rng.choice(tasks)[0]
        st = stacks[tid]
        dt = rng.choice(steps)
        if dt == 0 and (tid != last_tid or with_perf or with_events):
            dt = 1                     # equal time stamps only inside one task (cross-task ties: property C06)
        clock += dt
        if with_events and st and rng.random() < 0.15:
            uevents.append((tid, clock, rng.choice([100001, 100003, 100002, 100004])))      # read/diff statm, page-fault
            clock += 1
        if with_perf and st and rng.random() < 0.12:
            comms.append((clock, tid, rng.choice([b"worker", b'na"me', b"back\\slash", b"tab\there", b"\x01\x7f\xff", b"fifteen-bytes-xy",
                                                   "caf\u00e9".encode(), pool.one()])[:15]))
            clock += 1
        if st and sched_sym is not None and st[-1] in (sched_sym, sched_sym + 1):
            recs.append((tid, False, st.pop(), clock))             # switched in again
        elif st and sched_sym is not None and rng.random() < 0.25:
            st.append(sched_sym + rng.randrange(2))                # switched out / pre-empted inside a function
            recs.append((tid, True, st[-1], clock))
        elif st and (len(st) >= maxd or rng.random() < 0.45):
            recs.append((tid, False, st.pop(), clock))
        else:
            if st and recursion and rng.random() < 0.5:
                k = st[-1] if rng.random() < 0.5 else rng.choice(st)      # direct / mutual recursion
            else:
                k = rng.randrange(nsym - (2 if sched_sym is not None else 0))
            st.append(k)
            recs.append((tid, True, k, clock))
            budget -= 1
        last_tid = tid
    # close most calls; leave some open ("open calls" of the property)
    leave_open = rng.random() < 0.5
    for tid, _, _ in tasks:
        st = stacks[tid]
        keep = rng.randrange(0, len(st) + 1) if (leave_open and st) else 0
        if st and sched_sym is not None and st[-1] in (sched_sym, sched_sym + 1) and rng.random() < 0.7:
            keep = min(keep, len(st) - 1)                          # mostly not left switched out
        while len(st) > keep:
            clock += rng.choice(steps[1:])
            recs.append((tid, False, st.pop(), clock))
    # a task that stops at one of its scheduler events (switched out for good, or switched in and then killed) while the
    # others go on: its open calls end at ITS last record (class of defect graph-last-time-alias)
    if sched_sym is not None and len(tasks) >= 2 and rng.random() < 0.5:
        early = rng.choice(tasks)[0]
        idx = [i for i, r in enumerate(recs) if r[0] == early and r[2] in (sched_sym, sched_sym + 1)]
        if idx:
            i = rng.choice(idx)
            cut = recs[i][3]
            recs = [r for j, r in enumerate(recs) if r[0] != early or j <= i]
            comms = [c for c in comms if c[1] != early or c[0] < cut]
            uevents = [u for u in uevents if u[0] != early or u[1] < cut]
    # a task without any record is dropped from the directory (its .dat would be empty)
    # string arguments / return values on the calls of one plainly named function
    strs = {}
    argkinds = ""
    tname = rng.choice([None, b"<lambda", b"st", pool.one(), pool.one(), pool.one()])
    if tname is not None and tname != b"<lambda" and not tname_ok(tname):
        tname = bytes(c for c in tname if c not in b",;%@\n\0") or None
    tsize = rng.choice([0, 4, 8, 16, 20])
    if argsym is not None:
        heavy = rng.random() < 0.35                 # many / long / escape-heavy arguments: text beyond 1 KiB and 2 KiB
        letters = "ssscpu" + ("tfdixo" if rng.random() < 0.5 else "")
        argkinds = "".join(rng.choice(letters) for _ in range(rng.randrange(4, 11) if heavy else rng.randrange(1, 4)))
        if tsize == 0 and set(argkinds) <= {"t"}:
            tsize = 8           # empty structs only = an empty payload = a record without arguments

        def one_string(long_ok):
            k = rng.randrange(7)
            if k == 0:
                return b"\xff\xff\xff\xff"                          # the NULL marker
            if k == 1:
                return bytes(rng.choice(SPECIAL + [9, 10, 0x41]) for _ in range(rng.randrange(0, 12))) + b"\0"
            if k == 2:
                return b"mid\0dle\0"                                # bytes after the terminator are ignored
            if long_ok and k in (3, 4):                            # long and escape-heavy
                ch = rng.choice([b"\x01", b"\\", b'"', b"\n", b"a", b"\xff", b"\t"])
                n = rng.choice([60, 90, 98, 120, 200, 409, 410])
                mix = bytes(rng.choice(SPECIAL + [0x41]) for _ in range(n)) if rng.random() < 0.3 else ch * n
                return mix.replace(b"\0", b"\x01") + b"\0"
            return pool.one() + rng.choice([b"", b"\t", b"\n", b'"', b"\\"]) + b"\0"
        for i, r in enumerate(recs):
            if r[2] == argsym and rng.random() < 0.8:
                if r[1]:
                    def one_arg(kd):
                        if kd == "s":
                            return ("s", one_string(heavy))
                        if kd == "c":
                            return ("c", rng.choice(SPECIAL + [0x41, 9, 10, 0, 0x27]))
                        if kd == "p":      # a pointer: to one of the functions (printed as &name), null, or anywhere else
                            return ("p", rng.choice([BASE + 0x1000 + 0x100 * rng.randrange(nsym)] * 3 +
                                                    [0, 0x10, 0x7ffd12345678, (1 << 64) - 1, BASE + 0xfff]))
                        if kd == "t":      # a struct passed by value: only its type name and {...} / {} are shown
                            return ("t", 0)
                        if kd == "f":      # a double k/64 (six decimals, exact), as (k << 1 | sign)
                            return ("f", rng.choice([0, 1, 2, 3, 64 << 1, (64 << 1) | 1, 127 << 1, rng.randrange(1 << 20),
                                                     rng.randrange(1 << 51)]))
                        if kd in "dixo":   # auto / signed / hex / octal: the boundaries of the auto format
                            return (kd, rng.choice([0, 1, 7, 8, 100000, 100001, (1 << 64) - 1, (1 << 64) - 100000,
                                                    (1 << 64) - 100001, 0xffff0000, 0xffff0001, 0xffffffff, 1 << 32,
                                                    1 << 63, rng.randrange(1 << 64), rng.randrange(1 << 20)]))
                        return ("u", rng.choice([0, 1, 99999, 100000, 100001, 1 << 32, (1 << 64) - 1, rng.randrange(1 << 40)]))
                    strs[i] = [one_arg(kd) for kd in argkinds]
                else:
                    strs[i] = [("s", one_string(heavy))]
    used = {r[0] for r in recs}
    tasks = [t for t in tasks if t[0] in used]
    if tasks and tasks[0][0] != 100:
        # keep a well-formed process tree: the first task is its own process
        tasks = [(t[0], t[0] if i == 0 else t[1], None if i == 0 else t[2]) for i, t in enumerate(tasks)]
        first = tasks[0][0]
        tasks = [(t[0], (first if t[1] == 100 else t[1]), (first if t[2] == 100 else t[2])) for t in tasks]
    durs = sorted({b[3] - a[3] for a in recs for b in recs if b[3] > a[3]} or {1})
    sample = min(999999999, rng.choice([1, 2, 7, 100, 1000, durs[len(durs) // 2], durs[0], durs[-1], durs[-1] + 1]))
    # stay out of the class of defect flame-count-truncated: no count may need more digits than the
    # shortest name has bytes (conservative bounds: all entries / the sum of all call durations)
    nent = sum(1 for r in recs if r[1])
    minlen = min(len(n) for n in syms)
    while avoid_trunc and nent >= 10 ** minlen:
        syms = [n + b"_" if (len(n) == minlen and n != b"strfn") else n for n in syms]
        if minlen >= 5:
            break
        minlen += 1
    total = 0
    opened = {}
    lastt = {}
    for tid, ent, k, tm in recs:
        lastt[tid] = tm
        if ent:
            opened.setdefault(tid, []).append(tm)
        else:
            total += tm - opened[tid].pop()
    for tid, st in opened.items():
        total += sum(lastt[tid] - t0 for t0 in st)
    if avoid_trunc:
        sample = max(sample, total // (10 ** min(minlen, 18) - 1) + 1)
    sample = min(sample, 999999999)
    exe = rng.choice(["prog", "prog", "a.out", "t-abc_1.2", "x"])
    return {"tasks": tasks, "syms": syms, "recs": recs, "sample": max(1, sample), "exe": exe,
            "argsym": argsym, "strs": strs, "argkinds": argkinds, "tname": tname, "tsize": tsize, "sched_sym": sched_sym, "comms": comms, "uevents": uevents,
            "lead_in": [t[0] for t in tasks if with_perf and rng.random() < 0.5]}


# ---------------------------------------------------------------------------------------------
# the implementation side
# ---------------------------------------------------------------------------------------------
BASE = 0x400000


def write_dir(case, d, cmdline=b"prog arg", with_cmdline=True, exename=None):
    if os.path.exists(d):
        shutil.rmtree(d)
    syms = [(0x1000 + 0x100 * i, 0x80, "T", n) for i, n in enumerate(case["syms"])]
    tasks = []
    strs = case.get("strs") or {}

    def payload(i):
        v = strs.get(i)
        if v is None:
            return b""
        b = b""
        for kd, x in v:                  # read_task_arg: every argument is padded to 4 bytes
            if kd == "s":
                b += struct.pack("<H", len(x)) + x
            elif kd == "c":
                b += bytes([x])
            elif kd == "t":
                b += b"\xa5" * (case.get("tsize") or 0)
            elif kd == "f":
                b += struct.pack("<d", (-1.0 if x & 1 else 1.0) * (x >> 1) / 64.0)
            else:
                b += struct.pack("<Q", x)
            b += b"\0" * (-len(b) % 4)
        return b
    for tid, pid, ppid in case["tasks"]:
        rr = [{"t": t, "type": datadir.ENTRY if ent else datadir.EXIT, "depth": 0, "addr": BASE + syms[k][0],
               "payload": payload(i),
               "sched": case.get("sched_sym") is not None and k in (case["sched_sym"], case["sched_sym"] + 1)}
              for i, (x, ent, k, t) in enumerate(case["recs"]) if x == tid]
        for (etid, etm, eid) in case.get("uevents") or []:
            if etid == tid:
                n3 = 3 if eid in (100001, 100003) else 2             # statm: 3 values, page-fault: 2
                rr.append({"t": etm, "type": datadir.EVENT, "depth": 0, "addr": eid, "sched": False, "uevent": True,
                           "payload": struct.pack("<H", 8 * n3) + struct.pack("<%dQ" % n3, *([1000, 200, 30][:n3]))})
        rr.sort(key=lambda r: r["t"])
        depth = 0
        for r in rr:                       # depth field as libmcount writes it
            if r.get("uevent"):
                r["depth"] = depth
                continue
            if r["type"] == datadir.ENTRY:
                r["depth"] = depth
                depth += 1
            else:
                depth -= 1
                r["depth"] = depth
        tasks.append({"tid": tid, "pid": pid, "ppid": ppid, "recs": rr, "start": 200 + tid})
    perf = perf_file(case)
    desc = {"syms": syms, "base": BASE, "tasks": tasks, "cmdline": cmdline, "events": bool(perf) or bool(case.get("uevents")),
            "exename": exename or ("/fake/" + case["exe"]), "args": bool(strs)}
    if perf:
        for t in tasks:        # the scheduler records of a task live in the perf file, not in its .dat
            t["recs"] = [r for r in t["recs"] if not r.get("sched")]
    datadir.write(desc, d, with_cmdline=with_cmdline,
                  argspec={"argspec": "strfn@" + ",".join(spec_of(case, n, kd) for n, kd in
                                                          enumerate(case.get("argkinds") or "s")),
                           "retspec": "strfn@retval/s"} if strs else None)
    if strs and case.get("tname") is not None:
        path = os.path.join(d, "info")
        b = open(path, "rb").read()
        open(path, "wb").write(b.replace(TNAME_MARK, case["tname"]))
    if perf:
        path = os.path.join(d, "info")
        b = bytearray(open(path, "rb").read())
        struct.pack_into("<Q", b, 16, struct.unpack_from("<Q", b, 16)[0] | datadir.FEAT_PERF_EVENT)
        open(path, "wb").write(bytes(b))
        open(os.path.join(d, "perf-cpu0.dat"), "wb").write(perf)
    return d


TNAME_MARK = b"TYPENAMEGOESHERE"


def spec_of(case, n, kd):
    """the argument spec as record stores it in the info file; the type name of a struct (any bytes) is put in afterwards"""
    if kd == "t":
        return "arg%d/t%d%s" % (n + 1, case.get("tsize") or 0, "" if case.get("tname") is None else ":" + TNAME_MARK.decode())
    return "arg%d/%s" % (n + 1, kd)


def tname_ok(n):
    return bool(n) and not any(c in n for c in b",;%@\n\0") and n != b"<lambda"


SCHED = b"linux:schedule"
SCHED_PRE = b"linux:schedule (pre-empted)"


def perf_file(case):
    """perf-cpu0.dat: context switches (the records of the pseudo function linux:schedule: ENTRY = switched out,
    EXIT = switched in again) and task renames (case["comms"] = [(time, tid, name bytes)]) in time order"""
    k = case.get("sched_sym")
    evs = []
    pid_of = {t[0]: t[1] for t in case["tasks"]}
    if k is not None:
        for (tid, ent, sym, tm) in case["recs"]:
            if sym in (k, k + 1):            # k: switched out, k + 1: pre-empted (PERF_RECORD_MISC_SWITCH_OUT_PREEMPT)
                misc = (0x2000 | (0x4000 if sym == k + 1 else 0)) if ent else 0
                evs.append((tm, struct.pack("<IHH", 14, misc, 24) + struct.pack("<IIQ", pid_of[tid], tid, tm)))
    for tid in case.get("lead_in") or []:
        # a task that starts with a sched-in event (it was switched in for the first time): to be ignored
        first = min(r[3] for r in case["recs"] if r[0] == tid)
        evs.append((first - 1, struct.pack("<IHH", 14, 0, 24) + struct.pack("<IIQ", pid_of[tid], tid, first - 1)))
    for (tm, tid, name) in case.get("comms") or []:
        cm = name[:15] + b"\0"
        cm += b"\0" * (-len(cm) % 8)
        body = struct.pack("<II", pid_of[tid], tid) + cm + struct.pack("<IIQ", pid_of[tid], tid, tm)
        evs.append((tm, struct.pack("<IHH", 3, 0, 8 + len(body)) + body))
    return b"".join(e for _, e in sorted(evs, key=lambda x: x[0]))


def uft(objdir, args, timeout=60):
    exe = os.path.join(objdir, "uftrace")
    rc, out, err = sh(["timeout", str(timeout), exe] + args, timeout=timeout + 10, text=False,
                      env={"LC_ALL": "C", "LANG": "C"})
    return rc, out, err


class ParseError(Exception):
    pass


GROUPS = (b"   ", b" | ", b" +-", b"---")
UNITS = {b"us": 0, b"ms": 1, b" s": 2, b" m": 3, b" h": 4}


def parse_time_field(f):
    if f.strip() == b"":
        return None
    m = re.fullmatch(rb"\s*(\d+)\.(\d{3}) (us|ms| s| m| h)", f)
    if not m:
        raise ParseError("time field %r" % f)
    return (int(m.group(1)), int(m.group(2)), UNITS[m.group(3)])


def parse_graph(out):
    """-> rows [(tree_depth, name, calls, time)] in print order ([] when no graph was printed)"""
    lines = out.split(b"\n")
    try:
        i = next(k for k, l in enumerate(lines) if l.startswith(b"# TOTAL TIME"))
    except StopIteration:
        if b"cannot find graph" in out:
            return []
        raise ParseError("no graph header in %r" % out[:200])
    rows = []
    owner = {}
    prev = None
    after_blank = False
    for l in lines[i + 1:]:
        if l == b"":
            break
        if l[12:15] != b" : ":
            raise ParseError("graph line %r" % l)
        tf, rest = l[:12], l[15:]
        groups = []
        while rest[:3] in GROUPS:
            groups.append(rest[:3])
            rest = rest[3:]
        m = re.match(rb"\((\d+)\) ", rest)
        if not m:
            if rest.strip() != b"":
                raise ParseError("graph line %r" % l)
            after_blank = True
            continue
        d = len(groups)
        marked = d > 0 and groups[-1] == b" +-"
        node = {"name": rest[m.end():], "calls": int(m.group(1)), "time": parse_time_field(tf)}
        if prev is None:
            node["depth"] = 0
        elif not after_blank:
            node["depth"] = prev["depth"] + 1
            if marked:
                owner[d] = prev
        else:
            if not marked or d not in owner:
                raise ParseError("graph sibling without branch %r" % l)
            node["depth"] = owner[d]["depth"] + 1
        rows.append(node)
        prev = node
        after_blank = False
    return [(r["depth"], r["name"], r["calls"], r["time"]) for r in rows]


def graph_section(out):
    """the raw lines between the column header and the closing empty line ([] when there is no such section)"""
    lines = out.split(b"\n")
    for k, l in enumerate(lines):
        if l.startswith(b"# TOTAL TIME"):
            res = []
            for x in lines[k + 1:]:
                if x == b"":
                    return res
                res.append(x)
            return res
    return []


def parse_flame(out):
    return [l for l in out.split(b"\n") if l != b""]


def parse_dot(out):
    lines = out.split(b"\n")
    try:
        i = next(k for k, l in enumerate(lines) if l.startswith(b"digraph "))
    except StopIteration:
        raise ParseError("no digraph in %r" % out[:200])
    res = []
    for l in lines[i + 1:]:
        if l == b"}":
            return res
        if not l.startswith(b"    "):
            raise ParseError("dot line %r" % l)
        res.append(l[4:])
    raise ParseError("digraph not closed")


def parse_mermaid(out):
    lines = out.split(b"\n")
    if b"flowchart TB" not in lines:
        return []                      # "skip empty graph"
    i = lines.index(b"flowchart TB")
    res = []
    for l in lines[i + 1:]:
        if l == b"</div>":
            return res
        res.append(l)
    raise ParseError("mermaid block not closed")


def parse_chrome(out):
    """-> (json_ok, events [(is_begin, pid, tid|None, name bytes, q, r)], meta events, tail bytes)"""
    try:
        doc = json.loads(out.decode("utf-8"), parse_float=lambda s: s, parse_int=lambda s: s)
    except (ValueError, UnicodeDecodeError):
        return False, [], [], None
    evs, meta = [], []
    for e in doc.get("traceEvents", []):
        if e.get("ph") in ("B", "E"):
            ts = e["ts"]
            m = re.fullmatch(r"(\d+)\.(\d{3})", ts)
            if not m:
                raise ParseError("ts %r" % ts)
            tid = e.get("tid")
            a = e.get("args")
            if a is not None:
                key = "arguments" if e["ph"] == "B" else "retval"
                if list(a.keys()) != [key]:
                    raise ParseError("args member %r" % (a,))
                a = a[key].encode("utf-8")
            evs.append((e["ph"] == "B", int(e["pid"]), None if tid is None else int(tid),
                        e["name"].encode("utf-8"), int(m.group(1)), int(m.group(2)), a))
        else:
            meta.append(e)
    return True, evs, meta, doc


def run_outputs(objdir, d, sample):
    o = {}
    cmds = {"graph": ["graph"], "flame0": ["dump", "--flame-graph"],
            "flameS": ["dump", "--flame-graph", "--sample-time=%d" % sample],
            "dot": ["dump", "--graphviz"], "mermaid": ["dump", "--mermaid"], "chrome": ["dump", "--chrome"]}
    for k, c in cmds.items():
        rc, out, err = uft(objdir, c + ["--no-pager", "-d", d])
        if rc != 0:
            raise ParseError("uftrace %s exited with %d: %r" % (" ".join(c), rc, err[-300:]))
        o[k] = out
    return o


# ---------------------------------------------------------------------------------------------
# Coq serialisation
# ---------------------------------------------------------------------------------------------
def cb(b):
    b = bytes(b)
    ws = [int.from_bytes(b[i:i + 7], "little") for i in range(0, len(b), 7)]
    return "(pk %d [%s])" % (len(b), ";".join("%d" % w for w in ws))


def cn(x):
    """an N: through a primitive integer when it fits"""
    return "(n_ %d)" % x if x < (1 << 62) else "%d%%N" % x


def clines(ls):
    return "[" + "; ".join(cb(l) for l in ls) + "]"


def copts(l):
    return "[" + "; ".join("None" if x is None else "Some %s" % cb(x) for x in l) + "]"


def cargs(l, syms=(), tname=None, tsize=0):
    """per record: None | Some [AStr bytes; AChr n; APtr (Some name|None) v; AUint v ...]"""
    def one(kd, x):
        if kd == "s":
            return "AStr %s" % cb(x)
        if kd == "c":
            return "AChr (n_ %d)" % x
        if kd == "u":
            return "AUint %s" % cn(x)
        if kd == "t":
            return "AStruct %s %d" % ("None" if tname is None else "(Some %s)" % cb(tname), tsize)
        if kd == "f":
            return "AFlt %s %s" % ("true" if x & 1 else "false", cn(x >> 1))
        if kd in "dixo":
            return "%s %s" % ({"d": "AAuto", "i": "ASint", "x": "AHex", "o": "AOct"}[kd], cn(x))
        k, off = divmod(x - BASE - 0x1000, 0x100)
        # task_find_sym_addr: the symbol whose [addr, addr + size) holds the value (size 0x80)
        nm = syms[k] if (0 <= k < len(syms) and off < 0x80) else None
        return "APtr %s %s" % ("None" if nm is None else "(Some %s)" % cb(nm), cn(x))
    return "[" + "; ".join("None" if v is None else "Some [%s]" % "; ".join(one(kd, x) for kd, x in v) for v in l) + "]"


def crow(r):
    if r[3] is None:
        return "gr0 %d %s %d" % (r[0], cb(r[1]), r[2])
    return "gr %d %s %d %d %d %d" % (r[0], cb(r[1]), r[2], r[3][0], r[3][1], r[3][2])


def ccev(e):
    if e[2] is None:
        return "ce0 %s %d %s %s %d" % ("true" if e[0] else "false", e[1], cb(e[3]), cn(e[4]), e[5])
    return "ce1 %s %d %d %s %s %d" % ("true" if e[0] else "false", e[1], e[2], cb(e[3]), cn(e[4]), e[5])


def crec(r):
    if r[3] < (1 << 62):
        return "rc %d %s %d %d" % (r[0], "true" if r[1] else "false", r[2], r[3])
    return "rcN %d %s %d %d%%N" % (r[0], "true" if r[1] else "false", r[2], r[3])


def ccase(c, p):
    return ("mk_case [%s] %s %s\n  [%s]\n  %s\n  [%s]\n  %s\n  %s\n  %s\n  %s\n  [%s]\n  %s\n  %s\n  %s") % (
        "; ".join("tk %d %d" % (t[0], t[1]) for t in c["tasks"]), cb(c["exe"].encode()), clines(c["syms"]),
        "; ".join(crec(r) for r in c["recs"]), cn(c["sample"]),
        "; ".join(crow(r) for r in p["graph"]),
        clines(p["flame0"]), clines(p["flameS"]), clines(p["dot"]), clines(p["mermaid"]),
        "; ".join(ccev(e) for e in p["chrome"]), "true" if p["json_ok"] else "false",
        cargs([(c.get("strs") or {}).get(i) for i in range(len(c["recs"]))], c["syms"], c.get("tname"), c.get("tsize") or 0),
        copts([e[6] for e in p["chrome"]]))


PRE = """From Coq Require Import NArith List Bool Uint63.
Import ListNotations.
Require Import UV.C15.Model UV.C15.Doc UV.C15.GraphF UV.C15.GraphText UV.C15.BackTrace UV.C15.Lit.
Local Open Scope uint63_scope.
"""
KINDS = ["graph", "flame0", "flameS", "dot", "mermaid", "chrome"]


def evaluate_cases(ctx, cases, parsed, name="cases", flame_fixed=False):
    defs = "Definition cases : list case := [\n%s\n].\n" % ";\n".join(ccase(c, p) for c, p in zip(cases, parsed))
    evals = [("wf", "bad_indices wf_case cases 0"), ("trunc_flame0", "bad_indices fits_flame0 cases 0"),
             ("trunc_flameS", "bad_indices fits_flameS cases 0")]
    for k in KINDS:
        arg = (" true" if flame_fixed else " false") if k.startswith("flame") else ""
        evals.append(("mismatch_" + k, "bad_indices (agree_%s%s) cases 0" % (k, arg)))
        evals.append(("violation_" + k, "bad_indices okc_%s cases 0" % k))
    docs = [(i, dd) for i, p in enumerate(parsed) for dd in p.get("docs", [])]
    # the documents are the bulk of the literals: at most ~2.5 MB of them go to Coq (python's json judged them all)
    budget = 1500000
    kept = []
    for i, dd in docs:
        if len(dd["raw"]) <= budget:
            kept.append((i, dd))
            budget -= len(dd["raw"])
    ctx.extra["chrome_documents_not_sent_to_coq"] = len(docs) - len(kept)
    docs = kept
    defs += "Definition docs : list dcase := [\n%s\n].\n" % ";\n".join(
        "mk_dcase (nth %d%%nat cases (mk_case [] [] [] [] 0%%N [] [] [] [] [] [] true [] [])) [%s] %s %s %s %s %s %s" % (
            i, "; ".join("cm %d %s" % (t, cb(cmm)) for t, cmm in dd["comms"]), cb(dd["version"]), cb(dd["date"]),
            "None" if dd["cmdline"] is None else "(Some %s)" % cb(dd["cmdline"]),
            "true" if dd["noev"] else "false",
            "[%s]" % "; ".join("rn %s %d %s" % (cn(tm), tid, cb(nm)) for tm, tid, nm in dd.get("renames", [])),
            cb(dd["raw"])) for i, dd in docs)
    fcs = [(i, p["graphf"]) for i, p in enumerate(parsed) if p.get("graphf") is not None]
    defs += "Definition fcases : list fcase := [\n%s\n].\n" % ";\n".join(
        "mk_fcase (nth %d%%nat cases (mk_case [] [] [] [] 0%%N [] [] [] [] [] [] true [] [])) %s %s" % (
            i, cb(func), "None" if rows is None else "(Some [%s])" % "; ".join(crow(r) for r in rows))
        for i, (func, rows) in fcs)
    evals.append(("mismatch_graphf", "bad_indices agree_graphf fcases 0"))
    evals.append(("violation_graphf", "bad_indices okc_graphf fcases 0"))
    bcs = [(i, p["bts"]) for i, p in enumerate(parsed) if p.get("bts") is not None]
    defs += "Definition bcases : list bcase := [\n%s\n].\n" % ";\n".join(
        "mk_bcase (nth %d%%nat cases (mk_case [] [] [] [] 0%%N [] [] [] [] [] [] true [] [])) %s [%s]" % (
            i, cb(func), "; ".join("bt_ [%s] %d %s" % (";".join("%d" % x for x in key), hit,
                                                       "None" if tm is None else "(Some (n_ %d, n_ %d, n_ %d))" % tm)
                                   for key, hit, tm in blocks)) for i, (func, blocks) in bcs)
    evals.append(("mismatch_bt", "bad_indices agree_bt bcases 0"))
    evals.append(("violation_bt", "bad_indices okc_bt bcases 0"))
    acs = [(i, p["flameA"]) for i, p in enumerate(parsed) if p.get("flameA") is not None]
    defs += "Definition acases : list acase := [\n%s\n].\n" % ";\n".join(
        "mk_acase (nth %d%%nat cases (mk_case [] [] [] [] 0%%N [] [] [] [] [] [] true [] [])) %s %s" % (
            i, cn(total), clines(lines)) for i, (total, lines) in acs)
    evals.append(("mismatch_flameA", "bad_indices agree_flameA acases 0"))
    evals.append(("violation_flameA", "bad_indices okc_flameA acases 0"))
    tcs = [(i, tx) for i, p in enumerate(parsed) for tx in p.get("texts", [])]
    defs += "Definition tcases : list tcase := [\n%s\n].\n" % ";\n".join(
        "mk_tcase (nth %d%%nat cases (mk_case [] [] [] [] 0%%N [] [] [] [] [] [] true [] [])) %s %s" % (
            i, "None" if func is None else "(Some %s)" % cb(func), clines(lines)) for i, (func, lines) in tcs)
    evals.append(("mismatch_text", "bad_indices agree_text tcases 0"))
    # the validator itself against python's json on damaged documents (single-byte edits of real outputs)
    muts = []
    mrng = __import__("random").Random(ctx.subseed("muts"))
    small = sorted((dd["raw"] for _, dd in docs), key=len)[:12]
    for raw in small:
        for _ in range(ctx.n(12, 60)):
            b = bytearray(raw)
            pos = mrng.randrange(len(b))
            k = mrng.randrange(4)
            if k == 0:
                del b[pos]
            elif k == 1:
                b.insert(pos, mrng.choice(b'",:{}[]\\ 0.-e\n\tx\x00\x80'))
            elif k == 2:
                b[pos] = mrng.choice(b'",:{}[]\\ 0.-eE+\n1tfn\x1f\xc3')
            else:
                j = mrng.randrange(len(b))
                b[pos], b[j] = b[j], b[pos]
            muts.append(bytes(b))
    defs += "Definition muts : list (list N) := [\n%s\n].\n" % ";\n".join(cb(m) for m in muts)
    evals.append(("invalid_muts", "bad_indices json_ok muts 0"))
    evals.append(("mismatch_doc", "bad_indices agree_doc docs 0"))
    evals.append(("violation_doc", "bad_indices okc_doc docs 0"))
    res = coq.run_cases(ctx, name, PRE, defs, evals)
    if res is None:
        return None
    res = {k: coq.parse_nat_list(v) for k, v in res.items()}
    res["muts"] = muts
    res["flameA_owner"] = [i for i, _ in acs]
    res["flameA_list"] = [a for _, a in acs]
    res["bt_owner"] = [i for i, _ in bcs]
    res["bt_list"] = [b for _, b in bcs]
    res["text_owner"] = [i for i, _ in tcs]
    res["text_list"] = [t for _, t in tcs]
    res["graphf_owner"] = [i for i, _ in fcs]
    res["graphf_list"] = [f for _, f in fcs]
    res["doc_owner"] = [i for i, _ in docs]
    res["doc_list"] = [dd for _, dd in docs]
    return res


def case_json(c, p=None):
    j = {"tasks": c["tasks"], "syms": [s.hex() for s in c["syms"]], "recs": c["recs"], "sample": c["sample"],
         "exe": c["exe"], "argkinds": c.get("argkinds") or "", "sched_sym": c.get("sched_sym"), "lead_in": c.get("lead_in") or [], "uevents": c.get("uevents") or [],
         "tname": None if c.get("tname") is None else c["tname"].hex(), "tsize": c.get("tsize") or 0,
         "comms": [[tm, tid, nm.hex()] for tm, tid, nm in (c.get("comms") or [])],
         "strs": {str(i): [[kd, x.hex() if kd == "s" else x] for kd, x in v] for i, v in (c.get("strs") or {}).items()}}
    if p is not None:
        j["impl"] = {"graph": [[r[0], r[1].hex(), r[2], r[3]] for r in p["graph"]],
                     "flame0": [l.decode("latin-1") for l in p["flame0"]],
                     "flameS": [l.decode("latin-1") for l in p["flameS"]],
                     "dot": [l.decode("latin-1") for l in p["dot"]],
                     "mermaid": [l.decode("latin-1") for l in p["mermaid"]],
                     "chrome": [[e[0], e[1], e[2], e[3].decode("latin-1"), e[4], e[5],
                                 None if e[6] is None else e[6].decode("latin-1")] for e in p["chrome"]],
                     "json_ok": p["json_ok"]}
    return j


def case_from_json(j):
    return {"tasks": [tuple(t) for t in j["tasks"]], "syms": [bytes.fromhex(s) for s in j["syms"]],
            "recs": [tuple(r) for r in j["recs"]], "sample": j["sample"], "exe": j["exe"],
            "argkinds": j.get("argkinds") or "", "sched_sym": j.get("sched_sym"), "lead_in": j.get("lead_in") or [], "uevents": [tuple(u) for u in (j.get("uevents") or [])],
            "tname": None if j.get("tname") is None else bytes.fromhex(j["tname"]), "tsize": j.get("tsize") or 0,
            "comms": [(tm, tid, bytes.fromhex(nm)) for tm, tid, nm in (j.get("comms") or [])],
            "strs": {int(i): [(kd, bytes.fromhex(x) if kd == "s" else x) for kd, x in v]
                     for i, v in (j.get("strs") or {}).items()}}


VERDATE = re.compile(rb'"version":"uftrace ([^\n]*)",\n"recorded_time":"([^\n"]*)"')


def doc_inputs(c, raw, cmdline, with_cmdline, noev=False):
    """what the whole-document model needs besides the case: comm per tid, version/date as printed"""
    m = VERDATE.search(raw)
    if not m:
        raise ParseError("no version/recorded_time in the chrome output")
    comm = os.path.basename(c["exe"]).encode()[:15]
    last = {}
    for tm, tid, nm in ([] if noev else c.get("comms") or []):
        last[tid] = nm                        # update_perf_task_comm: the header shows the last name (of the time range)
    return {"comms": [(t[0], last.get(t[0], comm)) for t in c["tasks"]], "version": m.group(1), "date": m.group(2),
            "cmdline": cmdline if with_cmdline else None, "noev": noev, "raw": raw,
            "renames": [] if noev else list(c.get("comms") or [])}


def run_case(objdir, c, d, cmdline=b"prog arg", with_cmdline=True):
    write_dir(c, d, cmdline=cmdline, with_cmdline=with_cmdline)
    o = run_outputs(objdir, d, c["sample"])
    ok, evs, meta, doc = parse_chrome(o["chrome"])
    p = {"graph": parse_graph(o["graph"]), "flame0": parse_flame(o["flame0"]), "flameS": parse_flame(o["flameS"]),
         "dot": parse_dot(o["dot"]), "mermaid": parse_mermaid(o["mermaid"]), "chrome": evs, "json_ok": ok,
         "meta": meta, "doc": doc, "raw_chrome": o["chrome"]}
    p["texts"] = [(None, graph_section(o["graph"]))]
    p["docs"] = [doc_inputs(c, o["chrome"], cmdline, with_cmdline)]
    return p


def func_shape(c, func):
    """how FUNC occurs in the trace: tags for the boundaries of `graph FUNC` (tg->enabled)"""
    tags = set()
    stacks, outer = {}, {}
    for tid, ent, k, tm in c["recs"]:
        st = stacks.setdefault(tid, [])
        if ent:
            if c["syms"][k] == func:
                inside = [c["syms"][x] for x in st]
                if func in inside:
                    tags.add("nested")
                    tags.add("direct-recursion" if inside[-1] == func else "mutual-recursion")
                else:
                    outer[tid] = outer.get(tid, 0) + 1
            st.append(k)
        elif st:
            st.pop()
    if any(v >= 2 for v in outer.values()):
        tags.add("entered-again-after-return")
    if len(outer) >= 2:
        tags.add("in-several-tasks")
    if any(c["syms"][x] == func for st in stacks.values() for x in st):
        tags.add("open-at-the-end")
    return tags


BT_HEAD = re.compile(rb" backtrace #(\d+): hit (\d+), time (.{10})$")
BT_FRAME = re.compile(rb"   \[(\d+)\] (.*) \(0x([0-9a-f]+)\)$", re.S)


def parse_backtraces(out):
    """the BACKTRACE section of `graph FUNC` -> [(symbol indices outermost first, hit, time field)] in print order"""
    lines = out.split(b"\n")
    res = []
    cur = None
    inside = False
    for l in lines:
        if l.startswith(b"=============== BACKTRACE"):
            inside = True
            continue
        if l.startswith(b"========== FUNCTION CALL GRAPH"):
            break
        if not inside:
            continue
        m = BT_HEAD.match(l)
        if m:
            if int(m.group(1)) != len(res):
                raise ParseError("backtrace numbering %r" % l)
            cur = ([], int(m.group(2)), parse_time_field(m.group(3)))
            res.append(cur)
            continue
        m = BT_FRAME.match(l)
        if m:
            if cur is None or int(m.group(1)) != len(cur[0]):
                raise ParseError("backtrace frame %r" % l)
            off = int(m.group(3), 16) - BASE - 0x1000
            if off % 0x100 or off < 0:
                raise ParseError("backtrace address %r" % l)
            cur[0].append(off // 0x100)
        elif l != b"":
            raise ParseError("backtrace line %r" % l)
    return res


def run_graphf(objdir, c, d, rng, func=None):
    """`uftrace graph FUNC` on the directory written by run_case -> (func, rows | None)"""
    cands = [n for n in set(c["syms"]) if not n.startswith(b"-") and n not in (SCHED, SCHED_PRE)]
    if func is None:
        nested = sorted(n for n in cands if "nested" in func_shape(c, n))
        if nested and rng.random() < 0.6:
            func = rng.choice(nested)                  # a root function that is entered again while it runs
        else:
            func = rng.choice(sorted(cands)) if (cands and rng.random() < 0.9) else b"no_such_function"
    rc, out, err = uft(objdir, ["graph", "--no-pager", "-d", d, func])
    if rc != 0:
        raise ParseError("uftrace graph FUNC exited with %d: %r" % (rc, err[-300:]))
    if b"cannot find graph" in out:
        return func, None, out
    if b"# TOTAL TIME" not in out:
        if b"BACKTRACE" not in out:
            raise ParseError("graph FUNC printed neither a graph nor a backtrace: %r" % out[:200])
        return func, [], out
    return func, parse_graph(out), out


def run_flame_auto(objdir, c, d, rng):
    """give the directory a record date and an elapsed time (as `record` writes them) and let dump --flame-graph pick
    the sample time itself -> (total_ns as the C code computes it, lines)"""
    lo, hi = min(r[3] for r in c["recs"]), max(r[3] for r in c["recs"])
    el = rng.choice([hi - lo + 1, 999999999, 1000000000, 1000000001, 10 ** 10 - 1, 10 ** 10 + 1, 10 ** 12, 12345,
                     10 ** 15 + 1, 10 ** 16, rng.randrange(1, 10 ** rng.randrange(3, 17))])
    text = "%d.%09d sec" % (el // 10 ** 9, el % 10 ** 9)
    total = int(float(text.split()[0]) * 1e9)                  # strtod(...) * 1e9 converted to uint64_t
    path = os.path.join(d, "info")
    b = bytearray(open(path, "rb").read())
    mask = struct.unpack_from("<Q", b, 24)[0] | datadir.INFO_RECORD_DATE
    struct.pack_into("<Q", b, 24, mask)
    b += b"record_date:Thu Oct  1 00:00:00 2026\nelapsed_time:" + text.encode() + b"\n"
    open(path, "wb").write(bytes(b))
    rc, out, err = uft(objdir, ["dump", "--flame-graph", "--no-pager", "-d", d])
    if rc != 0:
        raise ParseError("uftrace dump --flame-graph (automatic sample time) exited with %d: %r" % (rc, err[-200:]))
    return total, parse_flame(out)


def run_noev(objdir, c, d, rng, cmdline=b"prog arg", with_cmdline=True):
    """the same directory with a filter that leaves no function record (d must have been written by run_case)"""
    opt = ["-r", "~0.000000001"]          # a time range that ends before the first record
    rc, out, err = uft(objdir, ["dump", "--chrome", "--no-pager", "-d", d] + opt)
    if rc != 0:
        raise ParseError("uftrace dump --chrome %s exited with %d" % (" ".join(opt), rc))
    return doc_inputs(c, out, cmdline, with_cmdline, noev=True)


# ---------------------------------------------------------------------------------------------
# escape functions through the harness
# ---------------------------------------------------------------------------------------------
def hexarg(b):
    return b.hex() if b else "-"


def unhexres(s):
    s = s.strip()
    return b"" if s == "-" else bytes.fromhex(s)


def harness_batch(exe, reqs):
    """reqs: list of ('E'|'Q', bytes) -> list of bytes"""
    inp = "".join("%s %s\n" % (k, hexarg(b)) for k, b in reqs)
    p = subprocess.run([exe], input=inp, capture_output=True, text=True, timeout=120)
    lines = p.stdout.split("\n")
    if p.returncode != 0 or len(lines) < len(reqs):
        raise RuntimeError("c15 harness failed rc=%s: %s" % (p.returncode, p.stderr[-500:]))
    return [unhexres(l) for l in lines[:len(reqs)]]


def gen_strings(ctx, pool):
    rng = ctx.rng
    out = [bytes([b]) for b in range(256)]                      # exhaustive single bytes
    out += [b"", b'\\"', b'"\\', b"\\\\", b"\t\n", bytes(range(256)), bytes(range(255, -1, -1))]
    for _ in range(ctx.n(300, 5000)):
        k = rng.randrange(4)
        if k == 0:
            out.append(pool.one())
        elif k == 1:
            out.append(bytes(rng.randrange(256) for _ in range(rng.randrange(0, 40))))
        elif k == 2:
            out.append(bytes(rng.choice(SPECIAL + [9, 10, 0]) for _ in range(rng.randrange(1, 12))))
        else:
            out.append(bytes(rng.choice(b'ab"\\\t\n/u0x') for _ in range(rng.randrange(1, 16))))
    return out


def in_cmdline_defect_class(raw):
    """command lines on which json_quote is known not to give a JSON string (defect 'chrome-cmdline-escape'):
    control bytes, a backslash, or bytes that are not UTF-8; NUL and NL are turned into blanks first"""
    s = bytes(32 if b in (0, 10) else b for b in raw)
    if any(b < 32 or b == 0x5c for b in s):
        return True
    try:
        s.decode("utf-8")
    except UnicodeDecodeError:
        return True
    return False


PROG = "int foo(int x){return x+1;} int main(int argc, char **argv){return foo(argc)-foo(argc);}\n"


def e2e_record(ctx, objdir):
    """real `uftrace record prog <adversarial argv>`: the command line as cmds/info.c stores it, and what
    dump --chrome makes of the real recording.  -> [(raw /proc/self/cmdline, stored line + separator)]"""
    root = os.path.join(ctx.scratch, "e2e")
    os.makedirs(root, exist_ok=True)
    src = os.path.join(root, "p.c")
    open(src, "w").write(PROG)
    exe = os.path.join(root, "p")
    sh(["gcc", "-pg", "-o", exe, src], check=True)
    uftexe = os.path.join(objdir, "uftrace")
    sets = [[b"plain", b'x"y', b"two words"], [b"a\tb"], [b"back\\slash", b'q\\"q'], [b"\xc3\xa9", b"\xff"]]
    if not ctx.thorough():
        sets = sets[:2]
    pairs = []
    for k, extra in enumerate(sets):
        d = os.path.join(root, "d%d" % k)
        argv = [uftexe, "record", "--no-pager", "--no-event", "--libmcount-path=" + objdir, "-d", d, exe] + extra
        rc, out, err = sh(["timeout", "30"] + argv, timeout=40, text=False)
        if rc == 124:
            ctx.violation("uftrace record did not terminate (C15 e2e)", {"kind": "e2e", "argv": [a.hex() for a in extra]}, True)
            continue
        try:
            info = open(os.path.join(d, "info"), "rb").read()
        except OSError:
            ctx.broken("e2e recording produced no info file (rc=%d): %r" % (rc, err[-300:]))
            continue
        m = re.search(rb"\ncmdline:([^\n]*)\n", info)
        if not m:
            ctx.broken("e2e recording has no cmdline line")
            continue
        raw = b"\0".join(os.fsencode(a) for a in argv) + b"\0"
        pairs.append((raw, m.group(1) + b" "))
        rc2, cout, cerr = uft(objdir, ["dump", "--chrome", "--no-pager", "-d", d])
        ok, evs, meta, doc = parse_chrome(cout)
        in_class = in_cmdline_defect_class(raw)
        ctx.case(key=("e2e", tuple(extra)), tags=["e2e:record", "e2e:cmdline-in-defect-class" if in_class else "e2e:cmdline-plain"])
        if not ok and not in_class:
            ctx.violation("dump --chrome of a real recording is not valid JSON", {"kind": "e2e", "argv": [a.hex() for a in extra]}, True)
        if ok and (not any(e[3] == b"foo" and e[0] for e in evs) or not any(e[3] == b"foo" and not e[0] for e in evs)):
            ctx.violation("dump --chrome of a real recording lacks the B/E events of foo", {"kind": "e2e", "argv": [a.hex() for a in extra]}, True)
    return pairs


def check_escapes(ctx, hexe, pool, recorded=()):
    strs = gen_strings(ctx, pool)
    esc = harness_batch(hexe, [("E", s) for s in strs])
    # command lines: only inputs outside the known defect class (plus NUL/NL separators), the class itself
    # is represented by its witnesses below
    qin = [s for s in strs if not in_cmdline_defect_class(s) and 0 not in s[:-1]]
    qin += [b"prog\0a b\0c\"d\0", b"p\0\"\"\0", b"\xc3\xa9t\xc3\xa9\0\"x\"\0", b"a\nb\0"]
    quo = harness_batch(hexe, [("Q", s) for s in qin])
    defs = ("Definition esc : list (list N * list N) := [\n%s\n].\n" % ";\n".join(
        "(%s, %s)" % (cb(a), cb(b)) for a, b in zip(strs, esc)))
    defs += ("Definition quo : list (list N * list N) := [\n%s\n].\n" % ";\n".join(
        "(%s, %s)" % (cb(a), cb(b)) for a, b in zip(qin, quo)))
    defs += ("Definition recd : list (list N * list N) := [\n%s\n].\n" % ";\n".join(
        "(%s, %s)" % (cb(a), cb(b)) for a, b in recorded))
    res = coq.run_cases(ctx, "escapes", PRE, defs, [
        ("mismatch_esc", "bad_indices agree_escape esc 0"), ("violation_esc", "bad_indices okc_escape esc 0"),
        ("mismatch_quo", "bad_indices agree_quote quo 0"), ("violation_quo", "bad_indices okc_quote quo 0"),
        ("mismatch_rec", "bad_indices agree_quote recd 0")])
    if res is None:
        return
    res = {k: coq.parse_nat_list(v) for k, v in res.items()}
    for i in res["mismatch_rec"][:1]:
        ctx.violation("the command line stored by a real `uftrace record` is not what the model of fill_cmdline/json_quote "
                      "gives", {"kind": "mismatch_rec", "raw": recorded[i][0].hex(), "stored": recorded[i][1].hex()}, False)
    # cross-check of the Coq lexer with python's JSON parser on the implementation's strings
    for s, e in list(zip(strs, esc)) + list(zip(qin, quo)):
        try:
            json.loads(b'"' + e + b'"')
            py = True
        except (ValueError, UnicodeDecodeError):
            py = False
        if not py:
            ctx.violation("an escaped string is rejected by a JSON parser", {"kind": "escape", "input": s.hex(),
                                                                              "output": e.hex()}, True)
            break
    for i in res["violation_esc"][:2]:
        ctx.violation("print_json_escaped_char output is not a JSON string", {"kind": "escape", "input": strs[i].hex(),
                                                                               "output": esc[i].hex()}, True)
    for i in res["violation_quo"][:2]:
        ctx.violation("json_quote output is not a JSON string for a command line outside the known defect class",
                      {"kind": "quote", "input": qin[i].hex(), "output": quo[i].hex()}, True)
    if not res["violation_esc"] and not res["violation_quo"]:
        for key, ins, outs in (("mismatch_esc", strs, esc), ("mismatch_quo", qin, quo)):
            if res[key]:
                i = res[key][0]
                ctx.violation("model and implementation of %s disagree on %d strings; the JSON lexer accepts the "
                              "implementation's output" % ("print_json_escaped_char" if key.endswith("esc") else
                                                           "json_quote", len(res[key])),
                              {"kind": key, "input": ins[i].hex(), "impl_output": outs[i].hex()}, False)
    for s in strs[:256]:
        ctx.case(key=("esc", s), tags=["escape:byte"], size=1)
    for s in strs[256:]:
        ctx.case(key=("esc", s), tags=["escape:string"] + (["escape:empty"] if not s else []), size=len(s))
    for s in qin:
        ctx.case(key=("quo", s), tags=["quote:cmdline"], size=len(s))
    ctx.extra["escape_bytes_exhaustive"] = 256


# ---------------------------------------------------------------------------------------------
# witnesses of the reported defects
# ---------------------------------------------------------------------------------------------
def report_defect(ctx, key, still, replay):
    if not still:
        ctx.log("defect %s no longer reproduces (fixed?)" % key)
        ctx.extra.setdefault("defects_not_reproduced", []).append(key)
        return
    if any(("property=%s" % ctx.prop) in l and key in l for l in ctx.kf.fixed):
        # known-findings.txt says this one was repaired (`fixed: property=C15 <commit> <key> ...`): a regression
        ctx.violation("defect %s is back although known-findings.txt lists it as fixed: %s" % (key, REPORTED.get(key, "")),
                      replay, True)
    elif ctx.kf.listed(ctx.prop, key):
        ctx.known_finding(key, REPORTED[key], True, replay)
    else:
        # neither listed nor fixed: a violation (ctx.known_finding reports unlisted defects as VIOLATION)
        ctx.known_finding(key, REPORTED.get(key, "unlisted"), True, replay)


def flame_witness_case():
    """f called 13 times, 1000 ns each (sampled at 1 ns: 1000 samples per call)"""
    wrecs = []
    for i in range(13):
        wrecs += [(100, True, 0, 5000 + 2000 * i), (100, False, 0, 6000 + 2000 * i)]
    return {"tasks": [(100, 100, None)], "syms": [b"f"], "recs": wrecs, "sample": 1, "exe": "prog"}


def witnesses(ctx, objdir, hexe):
    """runs the witnesses of the reported defects; returns {key: still reproduces}"""
    base = {"tasks": [(100, 100, None)], "syms": [b"main", b"f"], "sample": 1, "exe": "prog",
            "recs": [(100, True, 0, 1000), (100, True, 1, 1100), (100, False, 1, 1200), (100, False, 0, 1300)]}
    d = os.path.join(ctx.scratch, "wit")
    repro = {}

    def chrome_ok(**kw):
        write_dir(base, d, **kw)
        rc, out, err = uft(objdir, ["dump", "--chrome", "--no-pager", "-d", d])
        return parse_chrome(out)[0], out
    # 1. TAB / backslash in the command line (as `record` stores it: through the real json_quote)
    bad = False
    for raw in (b"prog\0a\tb\0", b"prog\0a\\\"b\0", b"prog\0\\\0"):
        cl = harness_batch(hexe, [("Q", raw)])[0].rstrip(b" ")
        ok, out = chrome_ok(cmdline=cl)
        ctx.case(key=("wit", raw), tags=["witness:cmdline"])
        bad = bad or not ok
    repro["chrome-cmdline-escape"] = bad
    report_defect(ctx, "chrome-cmdline-escape", bad, {"kind": "witness", "cmdline_raw": b"prog\0a\tb\0".hex()})
    # 2. no CMDLINE in the info mask
    ok, out = chrome_ok(with_cmdline=False)
    ctx.case(key=("wit", "nocmdline"), tags=["witness:no-cmdline"])
    repro["chrome-no-cmdline-comma"] = not ok
    report_defect(ctx, "chrome-no-cmdline-comma", not ok, {"kind": "witness", "with_cmdline": False})
    # 3. a double quote in the executable's name (task->comm)
    ok, out = chrome_ok(exename='/fake/pr"og')
    ctx.case(key=("wit", "comm"), tags=["witness:comm"])
    repro["chrome-comm-escape"] = not ok
    report_defect(ctx, "chrome-comm-escape", not ok, {"kind": "witness", "exename": '/fake/pr"og'})
    # 4. the count of a flame line is cut to the length of the path text
    write_dir(flame_witness_case(), d)
    rc, out, err = uft(objdir, ["dump", "--flame-graph", "--no-pager", "-d", d])
    ctx.case(key=("wit", "flame"), tags=["witness:flame-count"])
    repro["flame-count-truncated"] = out.strip() != b"f 13"
    report_defect(ctx, "flame-count-truncated", repro["flame-count-truncated"],
                  {"kind": "witness", "flame": True, "printed": out.decode("latin-1")})
    # 5. a function name longer than the escape buffer of dump_chrome_task_rstack
    long_case = dict(base, syms=[b"main", b"a" * 3000])
    write_dir(long_case, d)
    rc, out, err = uft(objdir, ["dump", "--chrome", "--no-pager", "-d", d])
    ctx.case(key=("wit", "longname"), tags=["witness:long-name"])
    repro["chrome-name-overflow"] = rc != 0 or not parse_chrome(out)[0]
    report_defect(ctx, "chrome-name-overflow", repro["chrome-name-overflow"],
                  {"kind": "witness", "long_name": 3000, "exit_status": rc})
    # 6. a filter that leaves no function event
    write_dir(base, d)
    rc, out, err = uft(objdir, ["dump", "--chrome", "--no-pager", "-d", d, "-r", "~0.000000001"])
    ctx.case(key=("wit", "noevent"), tags=["witness:no-event"])
    repro["chrome-no-event-comma"] = rc != 0 or not parse_chrome(out)[0]
    report_defect(ctx, "chrome-no-event-comma", repro["chrome-no-event-comma"],
                  {"kind": "witness", "option": "-r ~0.000000001"})
    # 7. argument text longer than the buffers of replay (1 KiB) and dump (2 KiB): 8 strings of 90 bytes 0x01
    heavy = {"tasks": [(100, 100, None)], "syms": [b"main", b"strfn"], "sample": 1, "exe": "prog", "argkinds": "s" * 8,
             "recs": [(100, True, 0, 1000), (100, True, 1, 1100), (100, False, 1, 1200), (100, False, 0, 1300)],
             "strs": {1: [("s", b"\x01" * 90 + b"\0")] * 8, 2: [("s", b"\\" * 1100 + b"\0")]}}
    write_dir(heavy, d)
    asan = build.get_build("asan", ctx.log)
    bad = []
    for cmd in (["dump", "--chrome"], ["replay"], ["dump"]):
        rc, out, err = uft(asan, cmd + ["--no-pager", "-d", d])
        if rc != 0 or b"AddressSanitizer" in err or (cmd[-1] == "--chrome" and not parse_chrome(out)[0]):
            bad.append(" ".join(cmd))
    ctx.case(key=("wit", "argtext"), tags=["witness:argument-text-overflow"])
    repro["argspec-text-overflow"] = bool(bad)
    report_defect(ctx, "argspec-text-overflow", bool(bad),
                  {"kind": "witness", "asan": True, "failing_commands": bad, "case": case_json(heavy)})
    # 8. a pointer argument / return value that resolves to a symbol whose name needs escaping
    ptrc = {"tasks": [(100, 100, None)], "syms": [b"main", b"strfn", b'we"ird\\name', b"tab\x01ctl"], "sample": 1, "exe": "prog",
            "argkinds": "pp", "recs": [(100, True, 0, 1000), (100, True, 1, 1100), (100, False, 1, 1200), (100, False, 0, 1300)],
            "strs": {1: [("p", BASE + 0x1200), ("p", BASE + 0x1300)]}}
    write_dir(ptrc, d)
    rc, out, err = uft(objdir, ["dump", "--chrome", "--no-pager", "-d", d])
    ctx.case(key=("wit", "ptrsym"), tags=["witness:pointer-symbol-name"])
    repro["chrome-ptr-symbol-escape"] = rc != 0 or not parse_chrome(out)[0]
    report_defect(ctx, "chrome-ptr-symbol-escape", repro["chrome-ptr-symbol-escape"],
                  {"kind": "witness", "pointer_to": 'we"ird\\name', "case": case_json(ptrc)})
    # 9. a task renamed while it runs (perf COMM event) to a name that needs escaping
    renc = dict(base, comms=[(1150, 100, b'na"me\\x')])
    write_dir(renc, d)
    rc, out, err = uft(objdir, ["dump", "--chrome", "--no-pager", "-d", d])
    ctx.case(key=("wit", "rename"), tags=["witness:renamed-task"])
    repro["chrome-comm-event-escape"] = rc != 0 or not parse_chrome(out)[0] or out.count(b'"process_name"') != 2
    report_defect(ctx, "chrome-comm-event-escape", repro["chrome-comm-event-escape"],
                  {"kind": "witness", "renamed_to": 'na"me\\x', "case": case_json(renc)})
    # 10. a pre-empted context switch inside a function
    prec = {"tasks": [(100, 100, None)], "syms": [b"main", b"f", SCHED, SCHED_PRE], "sched_sym": 2, "sample": 100, "exe": "prog",
            "recs": [(100, True, 0, 1000), (100, True, 1, 1100), (100, True, 3, 1300), (100, False, 3, 1400),
                     (100, True, 1, 1500), (100, False, 1, 1600), (100, False, 1, 2200), (100, False, 0, 2500)]}
    write_dir(prec, d)
    rc, out, err = uft(objdir, ["dump", "--chrome", "--no-pager", "-d", d])
    okj, evs, _, _ = parse_chrome(out)
    rc2, out2, err2 = uft(objdir, ["dump", "--flame-graph", "--no-pager", "-d", d])
    ctx.case(key=("wit", "preempt"), tags=["witness:pre-empted-switch"])
    repro["dump-sched-preempt"] = (rc != 0 or not okj or sum(1 for e in evs if e[0]) != sum(1 for e in evs if not e[0])
                                   or b"main;f;f 1" not in out2)
    report_defect(ctx, "dump-sched-preempt", repro["dump-sched-preempt"], {"kind": "witness", "case": case_json(prec)})
    # 11. a struct passed by value whose type name needs escaping
    stc = {"tasks": [(100, 100, None)], "syms": [b"main", b"strfn"], "sample": 1, "exe": "prog", "argkinds": "tt",
           "tname": b'pa"ir<\\x>', "tsize": 8,
           "recs": [(100, True, 0, 1000), (100, True, 1, 1100), (100, False, 1, 1200), (100, False, 0, 1300)],
           "strs": {1: [("t", 0), ("t", 0)]}}
    write_dir(stc, d)
    rc, out, err = uft(objdir, ["dump", "--chrome", "--no-pager", "-d", d])
    ctx.case(key=("wit", "structname"), tags=["witness:struct-type-name"])
    repro["chrome-struct-name-escape"] = rc != 0 or not parse_chrome(out)[0]
    report_defect(ctx, "chrome-struct-name-escape", repro["chrome-struct-name-escape"],
                  {"kind": "witness", "type_name": 'pa"ir<\\x>', "case": case_json(stc)})
    # 12. a task switched out for good while another one goes on having sched events: its open calls end at ITS last record
    lastc = {"tasks": [(100, 100, None), (101, 100, None)], "syms": [b"main", b"f", SCHED, SCHED_PRE], "sched_sym": 2,
             "sample": 100, "exe": "prog",
             "recs": [(100, True, 0, 1000), (101, True, 0, 1050), (100, True, 1, 1100), (100, True, 2, 1300),
                      (101, True, 2, 2000), (101, False, 2, 2100), (101, False, 0, 2500)]}
    write_dir(lastc, d)
    rc, out, err = uft(objdir, ["graph", "--no-pager", "-d", d])
    ctx.case(key=("wit", "lasttime"), tags=["witness:last-record-is-sched-out"])
    try:
        rows = parse_graph(out)
    except ParseError:
        rows = []
    ftime = [r[3] for r in rows if r[1] == b"f"]
    repro["graph-last-time-alias"] = rc != 0 or ftime != [(0, 200, 0)]
    report_defect(ctx, "graph-last-time-alias", repro["graph-last-time-alias"],
                  {"kind": "witness", "time_of_f": ftime, "expected": [0, 200, 0], "case": case_json(lastc)})
    # 13. the same directory through dump --chrome: task 100 is switched out when the data ends
    rc, out, err = uft(objdir, ["dump", "--chrome", "--no-pager", "-d", d])
    okj, evs, _, _ = parse_chrome(out)
    ctx.case(key=("wit", "stuck"), tags=["witness:switched-out-at-the-end"])
    names100 = [e[3] for e in evs if e[2] is None]
    repro["chrome-close-sched-name"] = (rc != 0 or not okj or
                                        names100 != [b"main", b"f", b"linux:schedule", b"linux:schedule", b"f", b"main"])
    report_defect(ctx, "chrome-close-sched-name", repro["chrome-close-sched-name"],
                  {"kind": "witness", "names_of_task_100": [n.decode("latin-1") for n in names100], "case": case_json(lastc)})
    # sanity: the plain directory is valid JSON
    ok, out = chrome_ok()
    if not ok:
        ctx.violation("dump --chrome of a plain 4-record trace is not valid JSON", {"kind": "witness", "plain": True}, True)
    return repro


# ---------------------------------------------------------------------------------------------
def setup(ctx):
    coq.prove(ctx, "C15", extra_files=["C15/Lit"])
    objdir = build.get_build("plain", ctx.log)
    hexe = os.path.join(ctx.scratch, "c15_harness")
    build.cc([os.path.join(HERE, "../harness/c/c15_harness.c"), build.uf_archive(objdir)], hexe, objdir,
             extra=build.UF_LIBS)
    return objdir, hexe


def common_meta(ctx):
    ctx.rule = ("a case is (a) one byte string through the real print_json_escaped_char / json_quote (all 256 single "
                "bytes every run + generated strings) or (b) one model-written data directory (1-3 tasks, <= 12 "
                "symbols with adversarial names, recursion, open and zero-length calls) run through graph, "
                "dump --flame-graph (count and --sample-time), --graphviz, --mermaid, --chrome; distinct = distinct "
                "inputs; non-trivial = directory cases with >= 2 records")
    ctx.trusted = [
        "Coq 8.16.1 kernel incl. vm_compute (no native_compute); no axioms (Print Assumptions: closed)",
        "hand-written model coq/theories/C15/Model.v of utils/graph.c add_graph_entry/add_graph_exit, cmds/graph.c "
        "build_graph+print_graph_node (full graph), cmds/dump.c do_dump_replay + flame/graphviz/mermaid/chrome "
        "printers, cmds/replay.c print_json_escaped_char, utils/utils.c json_quote, fstack_account_time, "
        "__print_time_unit; and the reference aggregation + checkers ok_* in the same file",
        "harness/c/c15_harness.c, vf/datadir.py (directory writer) and the output parsers in props/c15.py "
        "(graph tree reconstruction from the indentation; python json for whole-document validity)",
    ]
    ctx.assume = [
        "traces are well formed: per task ENTRY/EXIT properly nested starting at depth 0, time stamps do not go "
        "backwards inside a task, equal time stamps only inside one task (cross-task order: property C06)",
        "no filters/triggers/time ranges, no kernel/perf/event/LOST records, one session (those paths are not modelled)",
        "symbol names come from the .sym file as they are (no NUL/NL/TAB; names that the demangler would rewrite or "
        "that utils/graph.c treats as fork/exec are not generated)",
        "isprint() as in the C locale (uftrace dump/graph never call setlocale)",
        "function names whose escaped form is shorter than 2048 bytes (the fixed buffer of dump_chrome_task_rstack; "
        "longer ones overrun it - reported defect chrome-name-overflow)",
        "the chrome command line / comm defects (see REPORTED) are outside the generated class except for their witnesses",
    ]


def verdict(ctx, cases, parsed, res, flame_fixed=False):
    if res is None:
        return
    if res["wf"]:
        ctx.broken("generator produced an ill-formed stream (case %d)" % res["wf"][0])
    anyviol = False
    for k in ("flame0", "flameS"):
        # a wrong count inside the class of the reported truncation defect is that defect, not a new one
        inclass = [] if flame_fixed else [i for i in res["violation_" + k] if i in res["trunc_" + k]]
        res["violation_" + k] = [i for i in res["violation_" + k] if i not in inclass]
        if inclass:
            ctx.log("%d %s outputs differ from the trace only by the reported count truncation" % (len(inclass), k))
        ctx.tag("flame-count-needs-more-digits-than-names:" + k, len(res["trunc_" + k]))
    for k in KINDS:
        for i in res["violation_" + k][:2]:
            anyviol = True
            ctx.violation("C15 violated: the %s output is not the projection of the trace the property demands" % k,
                          {"kind": "dir", "output": k, "case": case_json(cases[i], parsed[i])}, True)
    if not anyviol:
        for k in KINDS:
            if res["mismatch_" + k]:
                i = res["mismatch_" + k][0]
                ctx.violation("model and implementation disagree on the %s output (%d cases); the property checker "
                              "accepts every explored output" % (k, len(res["mismatch_" + k])),
                              {"kind": "dir", "output": k, "correspondence": "C15.Model vs uftrace " + k,
                               "case": case_json(cases[i], parsed[i])}, False)
                break
    # `uftrace graph FUNC`
    for j in res.get("violation_graphf", [])[:2]:
        anyviol = True
        i = res["graphf_owner"][j]
        ctx.violation("C15 violated: `uftrace graph FUNC` does not give the counts and times of the calls below FUNC",
                      {"kind": "dir", "output": "graphf", "func": res["graphf_list"][j][0].hex(),
                       "case": case_json(cases[i], parsed[i])}, True)
    if not anyviol and res.get("mismatch_graphf"):
        j = res["mismatch_graphf"][0]
        i = res["graphf_owner"][j]
        ctx.violation("model and implementation disagree on `uftrace graph FUNC` (%d cases); the property checker accepts "
                      "every explored output" % len(res["mismatch_graphf"]),
                      {"kind": "dir", "output": "graphf", "func": res["graphf_list"][j][0].hex(),
                       "case": case_json(cases[i], parsed[i])}, False)
        anyviol = True
    ctx.extra["graph_func_cases"] = len(res.get("graphf_list", []))
    # dump --flame-graph with the sample time it picks itself (data with a record date, i.e. every real recording)
    for j in res.get("violation_flameA", [])[:2]:
        anyviol = True
        i = res["flameA_owner"][j]
        ctx.violation("C15 violated: dump --flame-graph with its automatic sample time is not the projection of the trace",
                      {"kind": "dir", "output": "flame-auto", "elapsed_total_ns": res["flameA_list"][j][0],
                       "lines": [l.decode("latin-1") for l in res["flameA_list"][j][1]],
                       "case": case_json(cases[i], parsed[i])}, True)
    if not anyviol and res.get("mismatch_flameA"):
        j = res["mismatch_flameA"][0]
        i = res["flameA_owner"][j]
        ctx.violation("model and implementation disagree on dump --flame-graph with the automatic sample time (%d cases); "
                      "the checker accepts every explored output" % len(res["mismatch_flameA"]),
                      {"kind": "dir", "output": "flame-auto", "elapsed_total_ns": res["flameA_list"][j][0],
                       "lines": [l.decode("latin-1") for l in res["flameA_list"][j][1]],
                       "case": case_json(cases[i], parsed[i])}, False)
        anyviol = True
    ctx.extra["flame_auto_sample_cases"] = len(res.get("flameA_list", []))
    # the BACKTRACE section of graph FUNC
    for j in res.get("violation_bt", [])[:2]:
        anyviol = True
        i = res["bt_owner"][j]
        ctx.violation("C15 violated: the BACKTRACE section of `uftrace graph FUNC` does not give the hits and times of the "
                      "call stacks leading to FUNC", {"kind": "dir", "output": "backtrace", "func": res["bt_list"][j][0].hex(),
                                                      "case": case_json(cases[i], parsed[i])}, True)
    if not anyviol and res.get("mismatch_bt"):
        j = res["mismatch_bt"][0]
        i = res["bt_owner"][j]
        ctx.violation("model and implementation disagree on the BACKTRACE section of `uftrace graph FUNC` (%d cases); the "
                      "checker accepts every explored output" % len(res["mismatch_bt"]),
                      {"kind": "dir", "output": "backtrace", "func": res["bt_list"][j][0].hex(),
                       "case": case_json(cases[i], parsed[i])}, False)
        anyviol = True
    ctx.extra["backtrace_sections_checked"] = len(res.get("bt_list", []))
    # the raw text of the FUNCTION CALL GRAPH section (model of print_graph_node / pr_indent / print_time_unit)
    if not anyviol and res.get("mismatch_text"):
        j = res["mismatch_text"][0]
        i = res["text_owner"][j]
        func = res["text_list"][j][0]
        ctx.violation("model and implementation disagree on the text of the call graph section (%d outputs); the "
                      "row checkers accept every explored output" % len(res["mismatch_text"]),
                      {"kind": "dir", "output": "graph-text", "func": None if func is None else func.hex(),
                       "lines": [l.decode("latin-1") for l in res["text_list"][j][1]],
                       "case": case_json(cases[i], parsed[i])}, False)
        anyviol = True
    ctx.extra["graph_sections_compared_bytewise"] = len(res.get("text_list", []))
    # the whole --chrome document: Coq's JSON validator on the implementation's bytes, cross-checked with python's
    for j in res.get("violation_doc", [])[:2]:
        anyviol = True
        i = res["doc_owner"][j]
        ctx.violation("C15 violated: the text written by dump --chrome is not a JSON document",
                      {"kind": "dir", "output": "doc", "noev": res["doc_list"][j]["noev"],
                       "case": case_json(cases[i], parsed[i])}, True)
    for j, dd in enumerate(res.get("doc_list", [])):
        py = parse_chrome(dd["raw"])[0]
        if py != (j not in res["violation_doc"]):
            ctx.broken("the Coq JSON validator and python's json disagree on an implementation output (doc %d: coq=%s python=%s)"
                       % (j, j not in res["violation_doc"], py))
            break
    def py_json_ok(b):
        def bad(x):
            raise ValueError(x)
        try:
            json.loads(b.decode("utf-8"), parse_constant=bad)
            return True
        except (ValueError, UnicodeDecodeError, RecursionError):
            return False
    nbad = 0
    for j, mb in enumerate(res.get("muts", [])):
        py = py_json_ok(mb)
        nbad += not py
        if py != (j not in res["invalid_muts"]):
            ctx.broken("the Coq JSON validator and python's json disagree on a damaged document (coq=%s python=%s): %r"
                       % (j not in res["invalid_muts"], py, mb[:2000]))
            break
    ctx.extra["validator_cross_checked_on_damaged_documents"] = len(res.get("muts", []))
    ctx.extra["of_which_invalid"] = nbad
    if not anyviol and res.get("mismatch_doc"):
        j = res["mismatch_doc"][0]
        i = res["doc_owner"][j]
        ctx.violation("model and implementation disagree on the text of dump --chrome (%d documents); the JSON validator "
                      "accepts every explored output" % len(res["mismatch_doc"]),
                      {"kind": "dir", "output": "doc", "noev": res["doc_list"][j]["noev"],
                       "case": case_json(cases[i], parsed[i])}, False)
    ctx.extra["chrome_documents_compared_bytewise"] = len(res.get("doc_list", []))
    ctx.extra["disagreements_checked"] = sum(len(res["mismatch_" + k]) for k in KINDS) + len(res.get("mismatch_doc", []))


def tags_of(c):
    t = ["tasks=%d" % len(c["tasks"])]
    names = b"".join(c["syms"])
    for b, lab in ((0x22, "name:quote"), (0x5c, "name:backslash"), (0x7f, "name:0x7f"), (0x80, "name:0x80"),
                   (0xff, "name:0xff"), (0x3b, "name:semicolon"), (0x20, "name:space")):
        if b in names:
            t.append(lab)
    if any(b < 0x20 for b in names):
        t.append("name:control")
    if len(set(c["syms"])) < len(c["syms"]):
        t.append("same-name-two-addresses")
    opened = {}
    rec = False
    zero = False
    ent_t = {}
    for tid, ent, k, tm in c["recs"]:
        st = opened.setdefault(tid, [])
        if ent:
            if c["syms"][k] in [c["syms"][x] for x in st]:
                rec = True
            st.append(k)
            ent_t[(tid, len(st))] = tm
        else:
            if ent_t.get((tid, len(st))) == tm:
                zero = True
            st.pop()
    if rec:
        t.append("recursion")
    if zero:
        t.append("zero-duration-call")
    if any(opened.values()):
        t.append("open-calls")
    if any(p[2] is not None for p in c["tasks"]):
        t.append("forked-task")
    if c.get("sched_sym") is not None and any(r[2] == c["sched_sym"] for r in c["recs"]):
        t.append("perf:sched-out/in")
    if c.get("sched_sym") is not None and any(r[2] == c["sched_sym"] + 1 for r in c["recs"]):
        t.append("perf:pre-empted")
    if c.get("lead_in"):
        t.append("perf:task-starts-with-sched-in")
    if c.get("uevents"):
        t.append("event-records-in-dat(ignored)")
    if c.get("comms"):
        t.append("perf:task-renamed")
        if any(b in (0x22, 0x5c) or b < 0x20 or b > 0x7e for _, _, nm in c["comms"] for b in nm):
            t.append("perf:task-renamed-special-bytes")
    if c.get("sched_sym") is not None:
        k = c["sched_sym"]
        perf_times = [r[3] for r in c["recs"] if r[2] in (k, k + 1)] + [cm[0] for cm in (c.get("comms") or [])]
        for tid in {r[0] for r in c["recs"]}:
            mine = [r for r in c["recs"] if r[0] == tid]
            depth = sum(1 if r[1] else -1 for r in mine)
            if mine[-1][2] in (k, k + 1) and depth > 0:
                t.append("task-ends-switched-out" if mine[-1][1] else "task-ends-at-sched-in-with-open-calls")
                if any(pt > mine[-1][3] for pt in perf_times):
                    t.append("task-ends-at-sched-event,later-perf-event-elsewhere")
    allargs = list((c.get("strs") or {}).values())
    if allargs:
        t.append("string-args")
        t.append("args:arity=%d" % len(c.get("argkinds") or "s"))
        blob = b"".join(x if kd == "s" else bytes([x]) if kd == "c" else b"" for v in allargs for kd, x in v)
        for b, lab in ((0x22, "arg:quote"), (0x5c, "arg:backslash"), (9, "arg:tab"), (10, "arg:newline"), (0xff, "arg:0xff")):
            if b in blob:
                t.append(lab)
        if any(kd == "s" and x == b"\xff\xff\xff\xff" for v in allargs for kd, x in v):
            t.append("arg:NULL")
        if any(kd == "c" for v in allargs for kd, x in v):
            t.append("arg:char")
        if any(kd == "u" for v in allargs for kd, x in v):
            t.append("arg:uint")
        for v in allargs:
            for kd, x in v:
                if kd == "t":
                    tn = c.get("tname")
                    t.append("arg:struct-unnamed" if tn is None else "arg:struct-lambda" if tn == b"<lambda" else
                             "arg:struct-name-special-bytes" if any(b in (0x22, 0x5c) or b < 0x20 or b > 0x7e for b in tn)
                             else "arg:struct-named")
                    t.append("arg:struct-empty" if not c.get("tsize") else "arg:struct-nonempty")
                if kd == "f":
                    t.append("arg:double-negative" if x & 1 else "arg:double")
                if kd == "d":
                    t.append("arg:auto-%s" % ("decimal" if (x <= 100000 or x >= (1 << 64) - 100000) else
                                              "int32-negative" if 0xffff0000 < x <= 0xffffffff else "hex"))
                if kd in "ixo":
                    t.append("arg:%s%s" % ({"i": "signed", "x": "hex", "o": "octal"}[kd], "-zero" if x == 0 else ""))
                if kd == "p":
                    k, off = divmod(x - BASE - 0x1000, 0x100)
                    if 0 <= k < len(c["syms"]) and off < 0x80:
                        t.append("arg:pointer-to-symbol")
                        if any(b in (0x22, 0x5c) or b < 0x20 or b > 0x7e for b in c["syms"][k]):
                            t.append("arg:pointer-to-symbol-with-special-bytes")
                    else:
                        t.append("arg:pointer-raw")
        t = sorted(set(t))

        def esc_len(bs):
            return sum(1 if (32 <= b < 127 and b not in (0x22, 0x5c)) else 2 if b in (0x22, 0x5c) else 3 if b in (9, 10) else 5
                       for b in bs)
        big = max(sum(4 + esc_len(x.split(b"\0")[0]) + 2 if kd == "s" else 7 if kd == "c" else 22 for kd, x in v) for v in allargs)
        t.append("args:text<=1KiB" if big <= 1000 else "args:text>1KiB" if big <= 2040 else "args:text>2KiB(truncated)")
    return t


ADV_EXE = ['pr"og', "a\\b", "q'uote", "x\x7fy", "caf\u00e9", 'e"\\"']


def adversarial_cmdline(rng, pool, hexe):
    args = [b"prog"]
    for _ in range(rng.randrange(1, 4)):
        args.append(rng.choice([b"a\tb", b"\\", b'a\\"b', b'"', b"\x01", b"\x7f", b"\xff\xfe", "\u00e9".encode(), b"x y",
                                b"\\n", b"\\u12", pool.one()]))
    raw = b"\0".join(a.replace(b"\0", b"") for a in args) + b"\0"
    return harness_batch(hexe, [("Q", raw)])[0].rstrip(b" ").replace(b"\n", b" ")


def run(ctx):
    common_meta(ctx)
    objdir, hexe = setup(ctx)
    pool = NamePool(ctx.rng)
    check_escapes(ctx, hexe, pool, e2e_record(ctx, objdir))
    pool = NamePool(ctx.rng)            # a fresh sweep over the byte values for the directory cases
    repro = witnesses(ctx, objdir, hexe)
    flame_fixed = not repro["flame-count-truncated"]
    ctx.extra["flame_count_printed_in_full"] = flame_fixed
    cases, parsed = [], []
    fixed = [
        {"tasks": [(100, 100, None)], "syms": [b"main"], "recs": [(100, True, 0, 1000)], "sample": 1, "exe": "prog"},
        {"tasks": [(100, 100, None)], "syms": [b"a", b"a"], "sample": 3, "exe": "prog",
         "recs": [(100, True, 0, 1000), (100, True, 1, 1000), (100, False, 1, 1000), (100, False, 0, 1000)]},
        flame_witness_case(),
        # C15_flame_total_bound_refuted replayed on the implementation: 1.2 us of run time shown as 2 samples of 1 us
        {"tasks": [(100, 100, None)], "syms": [b"m", b"f"], "sample": 1000, "exe": "prog",
         "recs": [(100, True, 0, 1000), (100, True, 1, 1000), (100, False, 1, 1600), (100, True, 1, 1600),
                  (100, False, 1, 2200), (100, False, 0, 2200)]},
    ]
    # `graph FUNC` with a root function that is entered again while it runs (start_graph must only count and reset
    # on the OUTERMOST entry): direct recursion, mutual recursion, FUNC again after it returned, FUNC in two tasks
    def seq(tid, spec, t0):
        out, t = [], t0
        for ent, k in spec:
            t += 37
            out.append((tid, ent, k, t))
        return out
    E, X = True, False
    fixed += [
        {"tasks": [(100, 100, None)], "syms": [b"main", b"f", b"g"], "sample": 5, "exe": "prog", "func": b"f",
         "recs": seq(100, [(E, 0), (E, 1), (E, 1), (E, 1), (E, 2), (X, 2), (X, 1), (E, 2), (X, 2), (X, 1), (X, 1), (E, 1), (X, 1), (X, 0)], 1000)},
        {"tasks": [(100, 100, None)], "syms": [b"main", b"a", b"b"], "sample": 5, "exe": "prog", "func": b"a",
         "recs": seq(100, [(E, 0), (E, 1), (E, 2), (E, 1), (E, 2), (X, 2), (X, 1), (E, 1), (X, 1), (X, 2), (X, 1), (E, 2), (E, 1), (X, 1), (X, 2), (X, 0)], 1000)},
        {"tasks": [(100, 100, None), (101, 100, None)], "syms": [b"main", b"f", b"g"], "sample": 5, "exe": "prog", "func": b"f",
         "recs": seq(100, [(E, 0), (E, 1), (E, 2)], 1000) + seq(101, [(E, 1), (E, 1), (E, 2), (X, 2)], 2000)
                 + seq(100, [(X, 2), (E, 1), (X, 1), (X, 1), (X, 0)], 3000) + seq(101, [(X, 1), (E, 2), (E, 1)], 4000)},
    ]
    # the argument text ends exactly around the end of dump's 2 KiB buffer: (\"aaa...\") with 2039..2045 a's, and
    # 5-byte escapes (0x01) that stop fitting one by one; two arguments so that ', ' and the `len <= 2` break are hit
    for nn in (2039, 2040, 2041, 2042, 2043, 2045):
        fixed.append({"tasks": [(100, 100, None)], "syms": [b"main", b"strfn"], "sample": 1, "exe": "prog", "argkinds": "sc",
                      "recs": [(100, True, 0, 1000), (100, True, 1, 1100), (100, False, 1, 1200), (100, False, 0, 1300)],
                      "strs": {1: [("s", b"a" * nn + b"\0"), ("c", 0x41)], 2: [("s", b"b" * (nn + 3) + b"\0")]}})
    for nn in (406, 407, 408, 409):
        fixed.append({"tasks": [(100, 100, None)], "syms": [b"main", b"strfn"], "sample": 1, "exe": "prog", "argkinds": "ss",
                      "recs": [(100, True, 0, 1000), (100, True, 1, 1100), (100, False, 1, 1200), (100, False, 0, 1300)],
                      "strs": {1: [("s", b"\x01" * nn + b"\0"), ("s", b"zz\0")], 2: [("s", b"\x01" * (nn + 1) + b"\0")]}})
    # every other argument format at its boundaries; struct type names: none, gcc's <lambda, one that needs escaping,
    # a long one that ends the buffer in the middle of the name
    allk = [("t", 0), ("f", (129 << 1) | 1), ("f", 1 << 1), ("d", 100000), ("d", 100001), ("d", (1 << 64) - 100000),
            ("d", (1 << 64) - 100001), ("d", 0xffff0000), ("d", 0xffff0001), ("d", 0xffffffff), ("d", 1 << 32), ("i", (1 << 64) - 1),
            ("i", 1 << 63), ("i", (1 << 63) - 1), ("x", 0), ("x", (1 << 64) - 1), ("o", 0), ("o", 8), ("o", (1 << 64) - 1), ("t", 0)]
    for tn, tsz in ((None, 0), (b"<lambda", 8), (b'pa"ir<\\,\x01\xff>'.replace(b",", b""), 16), (b"\x01" * 500, 4), (b"plain", 0)):
        fixed.append({"tasks": [(100, 100, None)], "syms": [b"main", b"strfn"], "sample": 1, "exe": "prog",
                      "argkinds": "".join(k for k, _ in allk), "tname": tn, "tsize": tsz,
                      "recs": [(100, True, 0, 1000), (100, True, 1, 1100), (100, False, 1, 1200), (100, False, 0, 1300)],
                      "strs": {1: list(allk)}})
    n = ctx.n(100, 1200)
    d = os.path.join(ctx.scratch, "dir")
    i = -1
    while True:
        i += 1
        if i >= n + len(fixed) and not (pool.todo and i < 2 * n):     # go on until every byte value was in a name
            break
        c = fixed[i] if i < len(fixed) else gen_case(ctx.rng, pool, big=(i % 7 == 0),
                                                     avoid_trunc=not (flame_fixed and i % 3 == 0))
        kw = {}
        extra_tags = []
        # a defect class is entered by the generator only once its witness stopped reproducing
        if not repro["chrome-cmdline-escape"] and i % 2 == 0:
            kw["cmdline"] = adversarial_cmdline(ctx.rng, pool, hexe)
            extra_tags.append("cmdline:adversarial")
        if not repro["chrome-no-cmdline-comma"] and i % 5 == 0:
            kw["with_cmdline"] = False
            extra_tags.append("cmdline:absent")
        if not repro["chrome-comm-escape"] and i % 3 == 1 and i >= len(fixed):
            c["exe"] = ctx.rng.choice(ADV_EXE)
            extra_tags.append("comm:adversarial")
        try:
            p = run_case(objdir, c, d, **kw)
        except ParseError as e:
            ctx.violation("an export of a well-formed trace could not be parsed back: %s" % e,
                          {"kind": "dir", "case": case_json(c)}, True)
            continue
        if i % 3 != 2 or c.get("func"):
            try:
                gf = run_graphf(objdir, c, d, ctx.rng, c.get("func"))
                p["graphf"] = gf[:2]
                p["texts"].append((gf[0], graph_section(gf[2])))
                p["bts"] = (gf[0], parse_backtraces(gf[2]))
                extra_tags.append("graph-func:" + ("not-called" if p["graphf"][1] is None else
                                                   "zero-time-leaf" if p["graphf"][1] == [] else "called"))
                extra_tags += ["graph-func:" + t for t in sorted(func_shape(c, gf[0]))]
            except ParseError as e:
                ctx.violation("`uftrace graph FUNC` output could not be parsed back: %s" % e,
                              {"kind": "dir", "case": case_json(c)}, True)
        if i % 4 == 0:
            try:
                p["docs"].append(run_noev(objdir, c, d, ctx.rng, **kw))
                extra_tags.append("chrome:no-event-left")
            except ParseError as e:
                ctx.violation("dump --chrome with a filter that leaves no record failed: %s" % e,
                              {"kind": "dir", "case": case_json(c)}, True)
        if i % 3 == 1:
            try:
                p["flameA"] = run_flame_auto(objdir, c, d, ctx.rng)      # changes the info file: last command on d
                extra_tags.append("flame:automatic-sample-time")
            except ParseError as e:
                ctx.violation("dump --flame-graph with a record date failed: %s" % e, {"kind": "dir", "case": case_json(c)}, True)
        cases.append(c)
        parsed.append(p)
        ctx.case(key=("dir", tuple(c["syms"]), tuple(c["recs"])), nontrivial=len(c["recs"]) >= 2,
                 tags=tags_of(c) + extra_tags, size=len(c["recs"]),
                 sample=case_json(c, p) if len(ctx.samples) < 2 and 4 <= len(c["recs"]) <= 10 else None)
    # memory safety of the argument text: the directories with the longest argument texts through the ASan build
    asan = build.get_build("asan", ctx.log)
    heavy_cases = sorted((c for c in cases if c.get("strs")),
                         key=lambda c: -max(sum(len(x) if kd == "s" else 8 for kd, x in v) for v in c["strs"].values()))
    shorties = [c for c in cases if c.get("strs") and any(kd == "s" and len(x) <= 3 for v in c["strs"].values() for kd, x in v)]
    for c in heavy_cases[:ctx.n(4, 40)] + shorties[:ctx.n(3, 20)]:
        write_dir(c, d)
        for cmd in (["replay"], ["dump"], ["dump", "--chrome"]):
            rc, out, err = uft(asan, cmd + ["--no-pager", "-d", d])
            if rc != 0 or b"AddressSanitizer" in err:
                ctx.violation("uftrace %s fails under AddressSanitizer on a trace with long argument texts: %r"
                              % (" ".join(cmd), err[-300:]), {"kind": "dir", "asan": " ".join(cmd), "case": case_json(c)}, True)
                break
        ctx.tag("asan:replay+dump+chrome-on-long-arguments")
    seen = set()
    for c in cases:
        seen.update(b"".join(c["syms"]))
    missing = [b for b in range(256) if b not in FORBIDDEN_NAME_BYTES and b not in seen]
    if missing:      # a name of the sweep was overwritten by a duplicate: one more case with the bytes not seen yet
        syms = [b"s" + bytes(missing[k:k + 6]) for k in range(0, len(missing), 6)]
        recs, t = [], 1000
        for k in range(len(syms)):
            recs.append((100, True, k, t))
            t += 11
        for k in reversed(range(len(syms))):
            recs.append((100, False, k, t))
            t += 13
        c = {"tasks": [(100, 100, None)], "syms": syms, "recs": recs, "sample": 7, "exe": "prog"}
        try:
            p = run_case(objdir, c, d)
            cases.append(c)
            parsed.append(p)
            ctx.case(key=("dir", tuple(c["syms"]), tuple(c["recs"])), tags=tags_of(c) + ["name:remaining-bytes"], size=len(recs))
            seen.update(b"".join(syms))
        except ParseError as e:
            ctx.violation("an export of a well-formed trace could not be parsed back: %s" % e,
                          {"kind": "dir", "case": case_json(c)}, True)
    ctx.extra["name_byte_values_covered"] = len(seen)
    res = evaluate_cases(ctx, cases, parsed, flame_fixed=flame_fixed)
    verdict(ctx, cases, parsed, res, flame_fixed)


def replay(ctx, obj):
    common_meta(ctx)
    objdir, hexe = setup(ctx)
    kind = obj.get("kind")
    if kind == "dir":
        c = case_from_json(obj["case"])
        flame_fixed = not witnesses(ctx, objdir, hexe)["flame-count-truncated"]
        p = run_case(objdir, c, os.path.join(ctx.scratch, "dir"))
        if obj.get("func") is not None:
            gf = run_graphf(objdir, c, os.path.join(ctx.scratch, "dir"), ctx.rng, bytes.fromhex(obj["func"]))
            p["graphf"] = gf[:2]
            p["texts"].append((gf[0], graph_section(gf[2])))
            p["bts"] = (gf[0], parse_backtraces(gf[2]))
        ctx.case(key="replay", sample=case_json(c, p))
        res = evaluate_cases(ctx, [c], [p], flame_fixed=flame_fixed)
        ctx.log("replayed directory case:", res)
        verdict(ctx, [c], [p], res, flame_fixed)
    elif kind in ("escape", "quote", "mismatch_esc", "mismatch_quo"):
        s = bytes.fromhex(obj["input"])
        q = kind in ("quote", "mismatch_quo")
        out = harness_batch(hexe, [("Q" if q else "E", s)])[0]
        defs = "Definition c : list (list N * list N) := [(%s, %s)].\n" % (cb(s), cb(out))
        res = coq.run_cases(ctx, "replay", PRE, defs, [
            ("mismatch", "bad_indices agree_%s c 0" % ("quote" if q else "escape")),
            ("violation", "bad_indices okc_%s c 0" % ("quote" if q else "escape"))])
        ctx.case(key="replay")
        ctx.log("replayed string:", s, "->", out, res)
        if res and coq.parse_nat_list(res["violation"]):
            ctx.violation("escaped output is not a JSON string", {"kind": kind, "input": s.hex(), "output": out.hex()}, True)
        elif res and coq.parse_nat_list(res["mismatch"]):
            ctx.violation("model and implementation disagree", {"kind": kind, "input": s.hex(), "impl_output": out.hex()}, False)
    elif kind == "witness":
        witnesses(ctx, objdir, hexe)
    else:
        ctx.log("replay file has no re-executable case")
