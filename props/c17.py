"""C17 - Read-trigger and watchpoint events are placed and valued consistently.

Theorems: coq/theories/Properties_C17.v (erasing events from the stream gives exactly the C05 stream for
every configuration; read/diff specification for plain configurations with -t/-D; watch decisions = changes
of the observed sequence (cpu and var); events - watch events included - vanish with a call that is not
recorded; bounded exhaustive stream specification for -W cpu; the overlap guard of save_trigger_read;
`_legacy_refuted` theorems for the four defects this check found (repaired in /repo), `_refuted` for the two
known findings that remain).
Tie: the real libmcount driven in-process (harness/c/mc_harness.c) with interposed getrusage(),
/proc/self/statm, perf group reads, sched_getcpu() and a watched global; read= triggers, -W cpu / -W var,
-t / -D / filters; state after every hook (+ pending-event count, watch state) and the complete stream
(records + events with payload) compared with the model inside Coq; the executable checkers (nesting after
erasing, read/diff specification, adjacency, time stamps inside the enclosing call, watch decisions) are
applied to the implementation's streams.
"""
import glob
import os
import shutil
import subprocess
from concurrent.futures import ThreadPoolExecutor

from vf import build, coq, forest as F, mch
from vf.core import sh

KINDS = ["statm", "pf", "cycle", "cache", "branch"]
KIND_NAME = {"statm": "proc/statm", "pf": "page-fault", "cycle": "pmu-cycle", "cache": "pmu-cache",
             "branch": "pmu-branch"}
KIND_BIT = {"statm": 1, "pf": 2, "cycle": 4, "cache": 8, "branch": 16}
ID_CPU, ID_VAR = 100011, 100012
M64 = (1 << 64) - 1
PAGE_KB = os.sysconf("SC_PAGE_SIZE") // 1024

PRE = """From Coq Require Import NArith ZArith List Bool.
Import ListNotations.
Require Import UV.Gen.Consts UV.Gen.C17Consts UV.Mcount.Model UV.Mcount.Forest UV.Mcount.Check UV.C17.Model.
Local Open Scope N_scope.
"""

# known findings that remain (see known-findings.txt); the four defects found earlier are repaired in /repo and
# their former witnesses are ordinary regression cases now
KEY_GAP = "watch-first-event-1ns"
KEY_ROOM = "events-refused-when-args-fill-buffer"
KEY_ONCE = "watch-var-once-per-process"


_H = {}


def harness(ctx):
    """one harness (one build of /repo's tree) per run"""
    if id(ctx) not in _H:
        _H[id(ctx)] = mch.Harness(ctx)
    return _H[id(ctx)]


# ---------------------------------------------------------------- observations
def obs0():
    return {"statm": [100, 50, 20], "pf": [0, 10], "cycle": [1000, 2000], "cache": [10, 1], "branch": [50, 5],
            "cpu": 0, "var": 0x5a5a0000}


def step_obs(rng, o, wild=False):
    """next reading: counters mostly grow, sometimes shrink (diff wraps mod 2^64), cpu/var sometimes change"""
    n = {k: (list(v) if isinstance(v, list) else v) for k, v in o.items()}
    for k in KINDS:
        for i in range(len(n[k])):
            r = rng.random()
            if r < 0.5:
                n[k][i] = (n[k][i] + rng.choice([0, 1, 2, 7, 1000])) & M64
            elif r < 0.6:
                n[k][i] = max(0, n[k][i] - rng.choice([1, 3]))      # negative difference
            elif wild and r < 0.65:
                n[k][i] = rng.choice([0, M64 // 4 - 1, (1 << 62) + 5])
    if rng.random() < 0.4:
        n["cpu"] = rng.choice([0, 1, 2, 3, 7])
    if rng.random() < 0.4:
        # 0 matters: the global watch item is zero-filled before anything was reported ("inited" tells the two apart)
        n["var"] = rng.choice([0, 0, 3, 0x5a5a0001, 0x5a5a0002, 0x5a5a0003])
    return n


def obs_model(o):
    """the values as the events carry them: statm in KB (pages * page size, mod 2^64)"""
    return {"statm": [(x * PAGE_KB) & M64 for x in o["statm"]], "pf": o["pf"], "cycle": o["cycle"], "cache": o["cache"],
            "branch": o["branch"], "cpu": o["cpu"], "var": o["var"]}


OVALS = {}          # literal -> name: every distinct observation is defined once per cases file (parsing is the cost)


def coq_oval(o):
    m = obs_model(o)
    asz = o.get("asz")
    lit = "(Build_oval [%s] [%s] [%s] [%s] [%s] (%d)%%Z %d %s)" % (
        "; ".join(map(str, m["statm"])), "; ".join(map(str, m["pf"])), "; ".join(map(str, m["cycle"])),
        "; ".join(map(str, m["cache"])), "; ".join(map(str, m["branch"])), m["cpu"], m["var"],
        "None" if asz is None else "(Some %d)" % asz)
    if lit not in OVALS:
        OVALS[lit] = "ov%d" % len(OVALS)
    return OVALS[lit]


def oval_defs():
    return "".join("Definition %s := %s.\n" % (n, lit) for lit, n in OVALS.items())


# strings the harness knows (STR <i> <hex>): i = 0..24 has length 4i+2 and takes 4i+4 bytes of argument data
# (2-byte length, characters, padded to 4); 30.. are return values (the last two are cut at ARG_STR_MAX with "...")
POOL_LEN = [4 * i + 2 for i in range(25)]
RET_STR = {30: 5, 31: 50, 32: 98, 33: 99, 34: 150}
MAX_ARGS = 1020         # save_to_argbuf: max_size = ARGBUF_SIZE - 4
ROOM_ARGS = 684         # asz_ok of the model: room for all ten events of a frame


def str_lines():
    out = ["STR %d %s" % (i, ("%02x" % (97 + i % 26)) * ln) for i, ln in enumerate(POOL_LEN)]
    out += ["STR %d %s" % (i, "7a" * ln) for i, ln in sorted(RET_STR.items())]
    return out


def pick_strings(rng, n, total):
    """n pool indices whose sizes (4i+4) add up to `total` (a multiple of 4 in [4n, 100n])"""
    rest = total // 4 - n           # sum of the indices
    idx = []
    for j in range(n):
        left = n - j - 1
        lo, hi = max(0, rest - 24 * left), min(24, rest)
        i = rng.randint(lo, hi)
        idx.append(i)
        rest -= i
    rng.shuffle(idx)
    return idx


def pick_total(rng, n, kinds=()):
    r = rng.random()
    if r < 0.45:        # exactly at / 4 bytes around a point where one more event stops fitting: the event of size e
        #                 after u bytes of events starts at 1024 - u - e, the arguments end at 4 + t
        sizes = [40 if k == "statm" else 32 for k in kinds] * 2
        cums = [sum(sizes[:i + 1]) for i in range(len(sizes))] or [32 * rng.randrange(1, 9)]
        t = 1020 - rng.choice(cums) + rng.choice([-4, 0, 0, 4])
    elif r < 0.65:
        t = rng.randrange(640, 1036, 4)
    elif r < 0.85:
        t = rng.randrange(4 * n, 640, 4)
    else:               # too big: save_argument gives up, the frame has no argument data
        t = rng.choice([1024, 1028, 1040, 1100])
    return max(4 * n, min(100 * n, t))


SZ_LIT = "[%s]" % "; ".join("(%d, %d)" % (256 * i, z) for i, z in enumerate(mch.SIZES))
SHARED = "Definition SZ : list (N * N) := %s.\nDefinition NT : N := 18446744073709551615.\n" % SZ_LIT


# ---------------------------------------------------------------- cases
def gen_base_cfg(rng, klass):
    cfg = {"shape": rng.choice(["pg", "cyg"]), "trig": {}, "pattern": rng.choice(["simple", "regex", "glob"])}
    if klass in ("plain", "watch0"):
        if klass == "plain":
            if rng.random() < 0.6:
                cfg["threshold"] = rng.choice([1, 5, 10, 100])
            if rng.random() < 0.3:
                cfg["depth"] = rng.choice([1, 2, 3, 5])
        return cfg
    # "any": filters and triggers as in C05
    if rng.random() < 0.5:
        cfg["depth"] = rng.choice([1, 2, 3, 5])
    if rng.random() < 0.5:
        cfg["threshold"] = rng.choice([1, 5, 10, 100])
    if rng.random() < 0.1:
        cfg["max_stack"] = rng.choice([2, 3, 4])
    for k in rng.sample(range(6), rng.randrange(0, 3)):
        tr = {}
        if rng.random() < 0.5:
            tr["filter"] = rng.random() < 0.6
        if rng.random() < 0.25:
            tr["depth"] = rng.choice([1, 2, 3])
        if rng.random() < 0.25:
            tr["time"] = rng.choice([0, 1, 5, 10, 100])
        if rng.random() < 0.15:
            tr["trace"] = True
        if rng.random() < 0.1:
            tr["trace_off"] = True
        elif rng.random() < 0.1:
            tr["trace_on"] = True
        if tr:
            cfg["trig"][k] = tr
    return cfg


def gen_case(rng, klass):
    """klass: 'plain'  plain base cfg (-t/-D only), read triggers, no watch  (read/diff specification applies)
              'watch0' plain base cfg, threshold 0, read triggers + watch     (watch specification applies)
              'any'    filters/triggers/-t/-D, read triggers + watch          (correspondence + generic checkers)"""
    cfg = gen_base_cfg(rng, klass)
    pmu = rng.random() < 0.7
    reads = {}
    for k in rng.sample(range(6), rng.randrange(1, 4)):
        ks = [x for x in KINDS if rng.random() < 0.4] or [rng.choice(KINDS[:2])]
        reads[k] = ks
    wcpu = wvar = False
    if klass != "plain":
        wcpu = rng.random() < 0.7
        wvar = rng.random() < 0.6
    pure_cpu = klass == "watch0" and rng.random() < 0.35      # -W cpu alone: the stream-level specification applies
    if pure_cpu:
        reads, wcpu, wvar = {}, True, False
    fo = F.gen_shape(rng, 6, rng.choice([3, 8, 16]), 5)
    durs = (2, 4, 5, 6, 9, 10, 11, 99, 100, 101)
    gaps = (2, 3, 5, 50)
    if not pure_cpu and rng.random() < (0.25 if klass == "watch0" else 0.5):
        durs, gaps = (1,) + durs, (1,) + gaps           # 1 ns between two hooks: the +-1 ns rule collides
    if klass == "any" and rng.random() < 0.3:
        durs = (0,) + durs
    assign_times(rng, fo, durs, gaps)
    # observations per hook
    o = obs0()
    o["cpu"] = rng.choice([0, 1, 2])
    o["var"] = rng.choice([3, 3, 0x5a5a0001, 0])     # non-zero at the thread's first hook: the first change may be to 0
    wild = rng.random() < 0.2
    hooks = []

    args, rets, sargs, srets = [], [], {}, []
    if not pure_cpu and rng.random() < 0.5:
        # argument / return-value capture sharing the per-frame buffer with the events: one 8-byte value, or (sargs) a
        # list of strings whose total size is aimed at the points where the events stop fitting; string return values
        pool = sorted(set(list(reads) + [rng.randrange(6)]))
        chosen = sorted(rng.sample(pool, rng.randrange(1, len(pool) + 1)))
        for k in chosen:
            if rng.random() < 0.6:
                sargs[k] = rng.choice([11, 11, 12, 14])
            else:
                args.append(k)
        for k in pool:
            r = rng.random()
            if r < 0.25:
                rets.append(k)
            elif r < 0.5:
                srets.append(k)

    def walk(c):
        nonlocal o
        o = step_obs(rng, o, wild)
        o0 = dict(o)
        if c.k in sargs:
            tot = pick_total(rng, sargs[c.k], [x for x in KINDS if x in reads.get(c.k, []) and (pmu or x in ("statm", "pf"))])
            o0["strs"] = pick_strings(rng, sargs[c.k], tot)
            o0["asz"] = tot if tot <= MAX_ARGS else None
        elif c.k in args:
            o0["asz"] = 8
        kids = [walk(k) for k in c.kids]
        o = step_obs(rng, o, wild)
        o1 = dict(o)
        if c.k in srets:
            o1["rstr"] = rng.choice(sorted(RET_STR))
        return {"k": c.k, "t0": c.t0, "t1": c.t1, "o0": o0, "o1": o1, "kids": kids}
    xf = [walk(c) for c in fo]
    case = {"klass": klass, "cfg": cfg, "reads": reads, "wcpu": wcpu, "wvar": wvar, "pmu": pmu, "xforest": xf,
            "pure_cpu": pure_cpu, "args": args, "rets": rets, "sargs": sargs, "srets": srets}
    evs = xflatten(xf)
    if wvar and rng.random() < 0.5:
        case["vsize"] = rng.choice([1, 2, 4])          # a watched variable of 1, 2 or 4 bytes
        for e in evs:
            e[3]["var"] &= (1 << (8 * case["vsize"])) - 1
    if klass == "any" and rng.random() < 0.1:
        evs = evs[:rng.randrange(1, len(evs) + 1)]
    case["evs"] = evs
    case["complete"] = len(evs) == 2 * sum(c.size() for c in fo)
    return case


def assign_times(rng, forest, durs, gaps, t0=1000):
    clock = [t0]

    def go(c):
        clock[0] += rng.choice(gaps)
        c.t0 = clock[0]
        for k in c.kids:
            go(k)
        clock[0] += rng.choice(durs)
        c.t1 = clock[0]
    for c in forest:
        go(c)


def fixed_cases():
    """hand-made boundary cases that every run includes (correspondence + generic checkers)"""
    def ob(pf=10, cpu=0, var=0x5a5a0000):
        o = obs0()
        o["pf"] = [0, pf]
        o["cpu"] = cpu
        o["var"] = var
        return o

    def call(k, t0, t1, o0, o1, kids=()):
        return {"k": k, "t0": t0, "t1": t1, "o0": o0, "o1": o1, "kids": list(kids)}
    out = []
    # zero-duration call with read= and the `trace` trigger: every event of the frame once (491a61f)
    xf = [call(0, 100, 100, ob(5), ob(9))]
    out.append({"klass": "any", "cfg": {"shape": "pg", "trig": {0: {"trace": True}}, "pattern": "simple"},
                "reads": {0: ["pf", "statm"]}, "wcpu": False, "wvar": False, "pmu": False, "xforest": xf})
    # five nested entries, cpu and variable change at every hook: the queue of 4 fills before the first record
    kids = ()
    o = [ob(cpu=i % 3, var=0x5a5a0001 + i) for i in range(12)]
    for d in range(5, 0, -1):
        kids = (call(d, 1000 + 10 * d, 2000 - 10 * d, o[d], o[11 - d], kids),)
    out.append({"klass": "any", "cfg": {"shape": "cyg", "trig": {}, "pattern": "simple"}, "reads": {1: ["pf"]},
                "wcpu": True, "wvar": True, "pmu": False, "xforest": list(kids)})
    # six nested entries, only the variable (resp. only the cpu) changes at every entry hook: the 5th and 6th change find
    # the queue full and must not be forgotten: the first exit hook with a free slot reports the value
    for wc_, wv_ in ((False, True), (True, False)):
        kids = ()
        for d in range(6, 0, -1):
            kids = (call(d % 6, 1000 + 10 * d, 3000 - 10 * d, ob(cpu=d, var=0x5a5a0010 + d), ob(cpu=6, var=0x5a5a0016), kids),)
        out.append({"klass": "any", "cfg": {"shape": "pg", "trig": {}, "pattern": "simple"}, "reads": {},
                    "wcpu": wc_, "wvar": wv_, "pmu": False, "xforest": list(kids)})
    # a variable of 1/2/4/8 bytes that is non-zero at the thread's first hook and whose first change is TO zero (the
    # zero-filled global item must not pass for "0 was reported already"), then 5, then 0 again
    for vs in (1, 2, 4, 8):
        xf = [call(0, 1100, 1400, ob(var=3), ob(var=0), [call(1, 1110, 1150, ob(var=0), ob(var=5)),
                                                         call(2, 1200, 1300, ob(var=5), ob(var=0))])]
        out.append({"klass": "watch0", "cfg": {"shape": "pg" if vs != 2 else "cyg", "trig": {}, "pattern": "simple"},
                    "reads": {}, "wcpu": False, "wvar": True, "pmu": False, "xforest": xf, "vsize": vs})
    # hooks 1 ns apart: the first event (+1 ns) and the next entry event (-1 ns) collide
    xf = [call(0, 100, 200, ob(cpu=1), ob(cpu=4), [call(1, 101, 102, ob(cpu=2), ob(cpu=3))])]
    out.append({"klass": "any", "cfg": {"shape": "pg", "trig": {}, "pattern": "simple"}, "reads": {},
                "wcpu": True, "wvar": False, "pmu": False, "xforest": xf})
    # a time-filtered child with read= inside a recorded parent, negative differences
    xf = [call(0, 100, 300, ob(50), ob(7), [call(1, 110, 115, ob(40), ob(30)), call(1, 120, 220, ob(30), ob(20))])]
    out.append({"klass": "plain", "cfg": {"shape": "pg", "trig": {}, "pattern": "regex", "threshold": 50},
                "reads": {0: ["pf"], 1: ["pf", "cycle"]}, "wcpu": False, "wvar": False, "pmu": True, "xforest": xf})
    # read= and captured argument / return value on the same functions, negative differences, time-filtered child
    xf = [call(0, 5000000000, 5000000300, ob(50), ob(7), [call(1, 5000000010, 5000000015, ob(40), ob(30)),
                                                          call(1, 5000000020, 5000000220, ob(30), ob(20))])]
    out.append({"klass": "plain", "cfg": {"shape": "pg", "trig": {}, "pattern": "simple", "threshold": 50},
                "reads": {0: ["pf", "statm"], 1: ["pf"]}, "wcpu": False, "wvar": False, "pmu": False, "xforest": xf,
                "args": [0, 1], "rets": [1]})
    for c in out:
        c["evs"] = xflatten(c["xforest"])
        c["complete"] = True
        c.setdefault("args", [])
        c.setdefault("rets", [])
        c.setdefault("sargs", {})
        c.setdefault("srets", [])
        for e in c["evs"]:
            if e[0] == "E" and e[1] in c["args"]:
                e[3]["asz"] = 8
    return out


def xflatten(xf):
    ev = []

    def go(c):
        ev.append(("E", c["k"], c["t0"], c["o0"]))
        for k in c["kids"]:
            go(k)
        ev.append(("X", c["k"], c["t1"], c["o1"]))
    for c in xf:
        go(c)
    return ev


# ---------------------------------------------------------------- implementation side
def case_env(case):
    cfg = case["cfg"]
    env = mch.cfg_env(cfg)
    pt = cfg.get("pattern", "simple")
    tg = []
    for k, ks in sorted(case["reads"].items()):
        name = {"simple": "f%d" % k, "regex": "^f%d$" % k, "glob": "f%d" % k}[pt]
        tg.append(name + "@" + ",".join("read=" + KIND_NAME[x] for x in ks))
    if tg:
        env["UFTRACE_TRIGGER"] = ";".join(([env["UFTRACE_TRIGGER"]] if env.get("UFTRACE_TRIGGER") else []) + tg)
    def pat(k):
        return {"simple": "f%d" % k, "regex": "^f%d$" % k, "glob": "f%d" % k}[pt]
    al = [pat(k) + "@arg1" for k in case.get("args", [])]
    al += [pat(k) + "@" + ",".join("arg%d/s" % i for i in range(1, n + 1)) for k, n in sorted(case.get("sargs", {}).items())]
    if al:
        env["UFTRACE_ARGUMENT"] = ";".join(al)
    rl = [pat(k) + "@retval" for k in case.get("rets", [])] + [pat(k) + "@retval/s" for k in case.get("srets", [])]
    if rl:
        env["UFTRACE_RETVAL"] = ";".join(rl)
    w = []
    if case["wcpu"]:
        w.append("cpu")
    if case["wvar"]:
        w.append("var:" + VAR_SYM[case.get("vsize", 8)])
    if w:
        env["UFTRACE_WATCH"] = ";".join(w)
    return env


VAR_SYM = {8: "verif_watched_var", 1: "verif_watched_u8", 2: "verif_watched_u16", 4: "verif_watched_u32"}
VAR_KNOB = {8: "VAL var", 1: "VALX var8", 2: "VALX var16", 4: "VALX var32"}


def set_obs_lines(prev, o, vsize=8):
    out = []
    if prev is None or prev["pf"] != o["pf"]:
        out.append("VAL majfault %d" % o["pf"][0])
        out.append("VAL pagefault %d" % o["pf"][1])
    for i in range(3):
        if prev is None or prev["statm"][i] != o["statm"][i]:
            out.append("VALX statm%d %d" % (i, o["statm"][i]))
    for nm in ("cycle", "cache", "branch"):
        for i in range(2):
            if prev is None or prev[nm][i] != o[nm][i]:
                out.append("VALX %s%d %d" % (nm, i, o[nm][i]))
    if prev is None or prev["cpu"] != o["cpu"]:
        out.append("VAL cpu %d" % o["cpu"])
    if prev is None or prev["var"] != o["var"]:
        out.append("%s %d" % (VAR_KNOB[vsize], o["var"]))
    return out


def uses_payload(case):
    return bool(case.get("args") or case.get("rets") or case.get("sargs") or case.get("srets"))


def script_of(case):
    cyg = case["cfg"].get("shape") == "cyg"
    raw = uses_payload(case)
    lines = ["AUTOSTATE 2", "VALX statm_on 1", "VALX pmu_on %d" % (1 if case["pmu"] else 0)]
    if case.get("sargs") or case.get("srets"):
        lines += str_lines()
    prev = None
    for e in case["evs"]:
        lines += set_obs_lines(prev, e[3], case.get("vsize", 8))
        prev = e[3]
        if e[0] == "E":
            if cyg:
                lines.append("CE %d %d" % (e[1], e[2]))
            elif not raw:
                lines.append("E %d %d" % (e[1], e[2]))
            elif "strs" in e[3]:
                lines.append("EA %d %d %s" % (e[1], e[2], " ".join("@S%d" % i for i in e[3]["strs"])))
            else:
                lines.append("EA %d %d 7" % (e[1], e[2]))
        else:
            if cyg:
                lines.append("CX %d %d" % (e[1], e[2]))
            elif not raw:
                lines.append("X %d" % e[2])
            elif "rstr" in e[3]:
                lines.append("XR %d @S%d" % (e[2], e[3]["rstr"]))
            else:
                lines.append("XR %d 42" % e[2])
    lines += ["BASE", "DUMPRAW"] if raw else ["DUMP"]
    return lines


def payload_len(b, off, nstr):
    """bytes of an argument / return-value payload at b[off:]: nstr strings (2-byte length + characters, padded to 4)
    or one 8-byte value (nstr = 0); the payload is padded to 8 in the stream"""
    if nstr == 0:
        return 8
    n = 0
    for _ in range(nstr):
        ln = int.from_bytes(b[off + n:off + n + 2], "little")
        n += (ln + 2 + 3) & ~3
    return (n + 7) & ~7


def parse_stream_raw(out, case):
    """the same items from DUMPRAW (ENTRY/EXIT records may carry captured arguments / a return value)"""
    base, hx = None, ""
    for l in out:
        if l.startswith("BASE "):
            base = int(l.split()[1])
        elif l.startswith("DUMPRAW"):
            hx = l[7:].strip()
    b = bytes.fromhex(hx)
    sargs = case.get("sargs", {})
    srets = case.get("srets", [])
    off, items = 0, []
    while off + 16 <= len(b):
        t = int.from_bytes(b[off:off + 8], "little")
        w = int.from_bytes(b[off + 8:off + 16], "little")
        ty, more, magic, depth, addr = w & 3, (w >> 2) & 1, (w >> 3) & 7, (w >> 6) & 0x3ff, w >> 16
        off += 16
        if ty == 3:
            ln = int.from_bytes(b[off:off + 2], "little") if more else 0
            data = b[off + 2:off + 2 + ln]
            if more:
                off += (ln + 2 + 7) & ~7
            if addr == ID_VAR:
                d = [int.from_bytes(data[8:], "little")]
            else:
                size = 4 if addr == ID_CPU else 8
                d = [int.from_bytes(data[i:i + size], "little") for i in range(0, len(data), size)]
            items.append(("E", t, addr, d))
        else:
            rel = addr - (base & ((1 << 48) - 1))
            k = rel // 256
            if more:
                if ty == 0:
                    off += payload_len(b, off, sargs.get(k, 0))
                else:
                    off += payload_len(b, off, 1 if k in srets else 0)
            a = ("f", k, rel % 256) if 0 <= rel < 32 * 256 else ("x", addr, 0)
            items.append(("R", t, ty, magic, depth, mch.addr_canon(a)))
    return items


def words(hexs, size):
    b = bytes.fromhex(hexs)
    return [int.from_bytes(b[i:i + size], "little") for i in range(0, len(b), size)]


def parse_stream(out):
    """-> list of ('R', time, type, magic, depth, addr) / ('E', time, id, [words])"""
    items = []
    for (t, ty, more, magic, depth, addr, pl) in mch.parse_records(out):
        if ty == 3:
            eid = addr[1]
            hx = pl[1:] if pl.startswith("P") else ""
            if eid == ID_CPU:
                d = words(hx, 4)
            elif eid == ID_VAR:
                d = [int.from_bytes(bytes.fromhex(hx)[8:], "little")]     # drop the (randomised) address of the variable
            else:
                d = words(hx, 8)
            items.append(("E", t, eid, d))
        else:
            items.append(("R", t, ty, magic, depth, mch.addr_canon(addr)))
    return items


def run_script(h, lines, env, slot, timeout=120):
    """like mch.Harness.run with a directory per slot (several runs at the same time)"""
    d = os.path.join(h.ctx.scratch, "c17d%d" % slot)
    shutil.rmtree(d, ignore_errors=True)
    os.makedirs(d)
    e = {k: v for k, v in os.environ.items() if not k.startswith("UFTRACE_")}
    e["UFTRACE_DIR"] = d
    e["UFTRACE_BUFFER"] = str(4 << 20)
    e["UFTRACE_PATTERN"] = "simple"
    e.update({k: str(v) for k, v in env.items()})
    p = subprocess.run([h.exe], input="\n".join(lines) + "\nQUIT\n", env=e, capture_output=True, text=True,
                       timeout=timeout)
    for f in os.listdir(d):
        if f.startswith("sid-"):
            for g in glob.glob("/dev/shm/uftrace-%s-*" % f[4:20]):
                try:
                    os.unlink(g)
                except OSError:
                    pass
    if p.returncode != 0:
        raise RuntimeError("mc_harness failed rc=%s stderr=%s" % (p.returncode, p.stderr[-800:]))
    return p.stdout.splitlines(), p.stderr


def run_all(h, cases, workers=2):
    def one(ic):
        i, c = ic
        c["res"] = run_case(h, c, i % (4 * workers))
    with ThreadPoolExecutor(max_workers=workers) as ex:
        list(ex.map(one, enumerate(cases)))


def run_case(h, case, slot=0):
    out, err = run_script(h, script_of(case), case_env(case), slot)
    states = []
    cur = None
    for l in out:
        if l.startswith("S "):
            k = l.split()
            cur = [int(k[1]), int(k[2]), int(k[3]), int(k[4]), int(k[5]), int(k[6]), int(k[7]), int(k[8]), k[9] == "1"]
        elif l.startswith("XS ") and cur is not None:
            k = l.split()
            states.append(tuple(cur) + (int(k[1]), k[2] == "1", int(k[3])))
            cur = None
    errno_ok = all(l.split()[-1] == "1" for l in out if l[:2] in ("E ", "X ", "CE", "CX") and len(l.split()) >= 2)
    items = parse_stream_raw(out, case) if uses_payload(case) else parse_stream(out)
    return {"states": states, "items": items, "errno_ok": errno_ok, "out": out, "err": err}


# ---------------------------------------------------------------- Coq serialisation
def coq_xcfg(case):
    rd = "; ".join("(%d, %d)" % (256 * k, sum(KIND_BIT[x] for x in ks)) for k, ks in sorted(case["reads"].items()))
    return "(mkxcfg %s [%s] %s %s %s)" % (F.coq_cfg(case["cfg"], mch.SIZES).replace(SZ_LIT, "SZ"), rd,
                                           coq.coq_bool(case["wcpu"]), coq.coq_bool(case["wvar"]), coq.coq_bool(case["pmu"]))


def coq_xevs(evs):
    out = []
    for e in evs:
        if e[0] == "E":
            out.append("XEnter %d %d %s" % (256 * e[1], e[2], coq_oval(e[3])))
        else:
            out.append("XLeave %d %s" % (e[2], coq_oval(e[3])))
    return "[%s]" % ";\n  ".join(out)


def coq_xcall(c):
    return "XCall %d %d %s %d %s [%s]" % (256 * c["k"], c["t0"], coq_oval(c["o0"]), c["t1"], coq_oval(c["o1"]),
                                          "; ".join(coq_xcall(k) for k in c["kids"]))


def coq_states(states):
    return "[%s]" % "; ".join("((%s%%Z, %s%%Z, %d, %d, %s, %d, %d, %d, %s), (%d, %s, (%d)%%Z))" % (
        coq.zlit(s[0]), coq.zlit(s[1]), s[2], s[3], "NT" if s[4] == M64 else str(s[4]), s[5], s[6], s[7],
        coq.coq_bool(s[8]), s[9], coq.coq_bool(s[10]), s[11]) for s in states)


def coq_items(items):
    out = []
    for it in items:
        if it[0] == "R":
            out.append("OR (%d, %d, %d, %d, %d)" % it[1:])
        else:
            out.append("OE %d %d [%s]" % (it[1], it[2], "; ".join(map(str, it[3]))))
    return "[%s]" % "; ".join(out)


# ---------------------------------------------------------------- applicability of the specification checkers
def has_switch(cfg):
    return any(t.get("trace_on") or t.get("trace_off") for t in cfg["trig"].values())


def hook_gaps_ok(evs):
    ts = [e[2] for e in evs]
    return all(b - a >= 2 for a, b in zip(ts, ts[1:]))


def read_calls_positive(case):
    ok = True

    def go(c):
        nonlocal ok
        if c["k"] in case["reads"] and c["t1"] <= c["t0"]:
            ok = False
        for k in c["kids"]:
            go(k)
    for c in case["xforest"]:
        go(c)
    return ok


def room_ok(case):
    """every call of a function with read= triggers leaves room for all its events (the guard of C17_read_diff)"""
    if case["cfg"].get("shape") == "cyg":
        return True             # cygprof ignores argument capture
    return all(not (e[0] == "E" and e[1] in case["reads"] and (e[3].get("asz") or 0) > ROOM_ARGS) for e in case["evs"])


def watch_spec_applicable(case):
    """threshold 0, every call takes time, hook times >= 2 apart, the pending queue never fills (model-free count
    of the changes since the last EXIT)"""
    evs = case["evs"]
    if not case["complete"] or not hook_gaps_ok(evs):
        return False
    pending = 0
    prev_cpu = None
    prev_var = evs[0][3]["var"]
    for e in evs:
        o = e[3]
        if case["wcpu"] and o["cpu"] != prev_cpu:
            pending += 1
        if case["wvar"] and o["var"] != prev_var:
            pending += 1
        prev_cpu, prev_var = o["cpu"], o["var"]
        if pending > 4:
            return False
        if e[0] == "X":
            pending = 0
    return True


# ---------------------------------------------------------------- the in-process tie
def inproc(ctx):
    rng = ctx.rng
    h = harness(ctx)
    cases = []
    plan = [("plain", ctx.n(38, 380)), ("watch0", ctx.n(38, 380)), ("any", ctx.n(50, 520))]
    todo = fixed_cases() + [gen_case(rng, klass) for klass, n in plan for _ in range(n)]
    ctx.log("cases generated: %d" % len(todo))
    run_all(h, todo)
    for case in todo:
        if True:
            klass = case["klass"]
            res = case["res"]
            if not res["errno_ok"]:
                ctx.violation("errno not preserved by a hook", replay_obj(case), True)
            cases.append(case)
            tags = ["class:" + klass, "shape:" + case["cfg"]["shape"]]
            tags += sorted({"read:" + x for ks in case["reads"].values() for x in ks})
            if case["wcpu"]:
                tags.append("watch:cpu")
            if case["wvar"]:
                tags.append("watch:var")
                if case.get("vsize"):
                    tags.append("watch:var-%d-bytes" % case["vsize"])
            if not case["pmu"]:
                tags.append("pmu-unavailable")
            if uses_payload(case):
                tags.append("with-arg/retval-capture")
                if set(case["args"] + case["rets"] + list(case.get("sargs", {})) + case.get("srets", [])) & set(case["reads"]):
                    tags.append("read+capture-on-one-function")
                if case.get("srets"):
                    tags.append("string-return-value")
                if case["cfg"].get("shape") != "cyg":
                    big = [e[3].get("asz") for e in case["evs"] if e[0] == "E" and e[1] in case["reads"] and "strs" in e[3]]
                    if any(a is None for a in big):
                        tags.append("args-too-big-for-the-buffer")
                    if any(a is not None and a > ROOM_ARGS for a in big):
                        tags.append("args-leave-no-room-for-all-events")
                    if any(a is not None and a <= ROOM_ARGS for a in big):
                        tags.append("string-args-with-room")
            if not hook_gaps_ok(case["evs"]):
                tags.append("hook-gap-1ns")
            if any(s[9] >= 4 for s in res["states"]):
                tags.append("pending-queue-full")
            if any(it[0] == "E" and any(w >= 1 << 63 for w in it[3]) for it in res["items"]):
                tags.append("diff-negative-wraps")
            if not read_calls_positive(case):
                tags.append("zero-duration-read-call")
            nev = sum(1 for it in res["items"] if it[0] == "E")
            ctx.case(key=(repr(case["cfg"]), repr(case["reads"]), case["wcpu"], case["wvar"], repr(case.get("args")),
                          repr(case.get("rets")), repr(case.get("sargs")), repr(case.get("srets")), repr(case["evs"])),
                     nontrivial=len(case["evs"]) >= 4 and nev > 0, tags=tags, size=len(case["evs"]),
                     sample=sample_of(case) if len(ctx.samples) < 3 and nev > 2 else None)
    ctx.log("in-process runs done: %d cases" % len(cases))
    evaluate(ctx, cases)
    ctx.log("Coq evaluation done")
    reader(ctx, cases)
    reader_depth(ctx, cases)


def threads(ctx):
    """several threads with interleaved hooks in one process: every thread's stream and state must be the model's run
    on that thread's own hooks and observations ("that thread's previous observation"); with -W var the global watch
    item is shared: those runs go through the multi-thread model (xexec_mt) only"""
    rng = ctx.rng
    h = harness(ctx)
    cases = []
    mt = []
    for it in range(ctx.n(6, 60)):
        nth = rng.choice([2, 3])
        klass = rng.choice(["watch0", "any"])
        base = gen_case(rng, klass)
        base["wvar"] = rng.random() < 0.5
        base["wcpu"] = True
        base["pure_cpu"] = base["pure_cpu"] and not base["wvar"]
        base.pop("vsize", None)
        base["args"], base["rets"], base["sargs"], base["srets"] = [], [], {}, []
        base["cfg"].pop("max_stack", None)
        for tr in base["cfg"]["trig"].values():      # mcount_enabled is one switch for the whole process, the model is
            tr.pop("trace_on", None)                 # per thread: no trace_on/trace_off under interleaved threads
            tr.pop("trace_off", None)
        per = [base]
        for _ in range(nth - 1):
            c = gen_case(rng, klass)
            for k in ("cfg", "reads", "wcpu", "wvar", "pmu", "pure_cpu", "args", "rets", "sargs", "srets"):
                c[k] = base[k]
            per.append(c)
        for c in per:                                # no capture in the thread cases, 8-byte variable
            c.pop("vsize", None)
            for e in c["evs"]:
                for key in ("asz", "strs", "rstr"):
                    e[3].pop(key, None)
                if base["wvar"]:
                    e[3]["var"] = rng.choice([0, 0, 3, 3, 0x5a5a0002])     # few values: threads meet the same change
        cyg = base["cfg"].get("shape") == "cyg"
        lines = ["AUTOSTATE 2", "VALX statm_on 1", "VALX pmu_on %d" % (1 if base["pmu"] else 0)]
        pos = [0] * nth
        prev = None
        order = []
        while any(pos[t] < len(per[t]["evs"]) for t in range(nth)):
            t = rng.choice([x for x in range(nth) if pos[x] < len(per[x]["evs"])])
            lines.append("T %d" % (t + 1))
            for _ in range(rng.randrange(1, 4)):
                if pos[t] >= len(per[t]["evs"]):
                    break
                e = per[t]["evs"][pos[t]]
                pos[t] += 1
                order.append((t, e))
                lines += set_obs_lines(prev, e[3])
                prev = e[3]
                if e[0] == "E":
                    lines.append(("CE %d %d" if cyg else "E %d %d") % (e[1], e[2]))
                else:
                    lines.append("CX %d %d" % (e[1], e[2]) if cyg else "X %d" % e[2])
        for t in range(nth):
            lines += ["T %d" % (t + 1), "DUMP"]
        out, err = run_script(h, lines, case_env(base), 80)
        # attribute the state lines and the dumps to the threads
        cur, states, sections, sec = None, {t + 1: [] for t in range(nth)}, {}, None
        pend_s = None
        gstates = []
        for l in out:
            if l.startswith("T ") and len(l.split()) == 2:
                cur = int(l.split()[1])
            elif l.startswith("S ") and cur:
                k = l.split()
                pend_s = [int(k[1]), int(k[2]), int(k[3]), int(k[4]), int(k[5]), int(k[6]), int(k[7]), int(k[8]), k[9] == "1"]
            elif l.startswith("XS ") and cur and pend_s is not None:
                k = l.split()
                states[cur].append(tuple(pend_s) + (int(k[1]), k[2] == "1", int(k[3])))
                gstates.append((cur - 1, states[cur][-1]))
                pend_s = None
            elif l.startswith("BUF ") and sec is None:
                sec = [l]
            elif sec is not None:
                sec.append(l)
                if l == "END":
                    sections[cur] = sec
                    sec = None
        if len(sections) != nth:
            ctx.broken("thread harness produced %d dumps for %d threads" % (len(sections), nth), "\n".join(out[-20:]))
            continue
        for t in range(nth):
            c = per[t]
            c["res"] = {"states": states[t + 1], "items": parse_stream(sections[t + 1]), "errno_ok": True}
            c["thread_script"] = lines
            if not base["wvar"]:
                cases.append(c)         # per-thread model and checkers apply as they are
        mt.append({"base": base, "order": order, "gstates": gstates, "items": [per[t]["res"]["items"] for t in range(nth)],
                   "script": lines})
        ctx.case(key=("threads", repr(base["cfg"]), tuple(lines)),
                 tags=["threads=%d" % nth, "class:threads"] + (["threads:-W var shared item"] if base["wvar"] else []),
                 size=len(lines))
    if cases:
        evaluate(ctx, cases, "c17_threads")
    if mt:
        defs = "Definition mtcases : list bool := [\n%s\n].\n" % ";\n".join(
            "agree_mt %s [%s] [%s] [%s]" % (
                coq_xcfg(m["base"]),
                "; ".join("(%d%%nat, %s)" % (t, coq_xevs([e])[1:-1]) for t, e in m["order"]),
                "; ".join("(%d%%nat, %s)" % (t, coq_states([st])[1:-1]) for t, st in m["gstates"]),
                "; ".join(coq_items(x) for x in m["items"])) for m in mt)
        r = coq.run_cases(ctx, "c17_mt", PRE, with_shared(defs), [("mt", "bad_indices (fun b : bool => b) mtcases 0")],
                          timeout=1500)
        if r is not None:
            bad = coq.parse_nat_list(r["mt"])
            ctx.extra["thread_runs"] = len(mt)
            if bad:
                m = mt[bad[0]]
                ctx.violation("model and libmcount disagree on %d multi-thread run(s) (per-thread machines + the shared -W var item)"
                              % len(bad), {"mode": "threads", "cfg": m["base"]["cfg"], "reads": m["base"]["reads"],
                                           "wvar": m["base"]["wvar"], "env": case_env(m["base"]), "script": m["script"],
                                           "impl_states": m["gstates"], "impl_streams": m["items"]}, False)


# ---------------------------------------------------------------- reader side: what the user sees of the events
EV_NAME = {100001: "read:proc/statm", 100002: "read:page-fault", 100003: "diff:proc/statm", 100004: "diff:page-fault",
           100005: "read:pmu-cycle", 100006: "diff:pmu-cycle", 100007: "read:pmu-cache", 100008: "diff:pmu-cache",
           100009: "read:pmu-branch", 100010: "diff:pmu-branch", ID_CPU: "watch:cpu", ID_VAR: "watch:var"}
EV_FIELDS = {"proc/statm": ("vmsize=%sKB", "vmrss=%sKB", "shared=%sKB"), "page-fault": ("major=%s", "minor=%s"),
             "pmu-cycle": ("cycles=%s", "instructions=%s"), "pmu-cache": ("refers=%s", "misses=%s"),
             "pmu-branch": ("branch=%s", "misses=%s")}
WVAR_OFF = 0x3000       # the watched variable's place in the synthetic module


def signed64(v):
    return v - (1 << 64) if v >= 1 << 63 else v


def event_text(eid, data, verbose):
    """the text a reader must show for an event: a read event shows the readings, a diff event the (signed)
    difference of the two readings, with an explicit sign in replay"""
    name = EV_NAME[eid]
    kind, what = name.split(":", 1)
    if kind == "watch":
        if what == "cpu":
            v = data[0]
            return "cpu=%d" % (v - (1 << 32) if v >= 1 << 31 else v)
        return "wvar=%x" % data[0]
    if kind == "read":
        vals = ["%d" % v for v in data]
    else:
        vals = [("%+d" if verbose else "%d") % signed64(v) for v in data]
    return " ".join(f % v for f, v in zip(EV_FIELDS[what], vals))


def reader(ctx, cases):
    """the streams the real libmcount produced, written as a data directory, read back by `uftrace dump` and
    `uftrace replay`: every event must be shown, in stream order, inside the right call, with the values it carries
    (utils/fstack.c read_task_event, utils/event.c names and values; diff values are signed differences)"""
    from vf import datadir as D
    import struct
    objdir = harness(ctx).objdir
    base = 0x400000
    syms = D.default_syms(6) + [(WVAR_OFF, 8, "D", "wvar")]
    names = [x[3] for x in syms]
    pick = [c for c in cases if c["complete"] and hook_gaps_ok(c["evs"]) and not c.get("thread_script")
            and any(it[0] == "E" for it in c["res"]["items"])][:ctx.n(14, 100)]
    nev = 0
    for ci, c in enumerate(pick):
        recs, exp_dump, exp_replay, depth = [], [], [], 0
        for it in c["res"]["items"]:
            if it[0] == "R":
                k = it[5] // 256
                recs.append({"t": it[1], "type": it[2], "depth": it[4], "addr": base + syms[k][0]})
                depth += 1 if it[2] == 0 else -1
            else:
                eid, data = it[2], it[3]
                if eid == ID_VAR:
                    raw = struct.pack("<Q", base + WVAR_OFF) + data[0].to_bytes(c.get("vsize", 8), "little")
                elif eid == ID_CPU:
                    raw = struct.pack("<I", data[0])
                else:
                    raw = b"".join(struct.pack("<Q", w) for w in data)
                recs.append({"t": it[1], "type": 3, "depth": 0, "addr": eid, "payload": struct.pack("<H", len(raw)) + raw})
                exp_dump.append("%s: %s" % (EV_NAME[eid], event_text(eid, data, False)))
                exp_replay.append((depth, "%s (%s)" % (EV_NAME[eid], event_text(eid, data, True))))
                nev += 1
        d = os.path.join(ctx.scratch, "c17rd%d" % (ci % 4))
        shutil.rmtree(d, ignore_errors=True)
        D.write({"tasks": [{"tid": 100, "pid": 100, "ppid": None, "recs": recs}], "syms": syms, "base": base, "events": True}, d)
        rc1, out1, err1 = D.uftrace(objdir, "dump", d)
        rc2, out2, err2 = D.uftrace(objdir, "replay", d, ["-f", "none", "--event-full"])
        got_dump = []
        for l in out1.splitlines():
            l = l.strip()
            if l.split(":", 1)[0] in ("read", "diff", "watch") and ": " in l:
                got_dump.append(strip_derived(l))
        got_replay = []
        for l in out2.splitlines():
            t = l.strip()
            if t.startswith("/* ") and t[3:].split(":", 1)[0] in ("read", "diff", "watch"):
                got_replay.append(((len(l) - len(l.lstrip(" "))) // 2, strip_derived(t[3:-3].strip())))
        ctx.case(key=("reader", repr(c["res"]["items"])), tags=["reader:dump+replay"], size=len(recs),
                 sample={"replay": out2.splitlines()[:12]} if ci == 0 else None)
        rep = {"mode": "reader", "records": [(r["t"], r["type"], r["addr"]) for r in recs], "expected_dump": exp_dump,
               "got_dump": got_dump, "expected_replay": exp_replay, "got_replay": got_replay, "stderr": (err1 + err2)[-400:]}
        if rc1 != 0 or rc2 != 0:
            ctx.violation("C17 (reader): uftrace dump/replay fails on a recorded stream with events (rc %d/%d)" % (rc1, rc2),
                          rep, True)
        elif got_dump != exp_dump:
            ctx.violation("C17 (reader): `uftrace dump` does not show the events of the stream with the values they carry",
                          rep, True)
        elif [list(x) for x in got_replay] != [list(x) for x in exp_replay]:
            ctx.violation("C17 (reader): `uftrace replay` does not show the events of the stream inside the right call with the "
                          "values they carry (diff values are signed differences)", rep, True)
    ctx.extra["reader_events_checked"] = nev


def reader_depth(ctx, cases):
    """analysis-time depth limits on streams with events (utils/fstack.c fstack_check_filter): `uftrace dump` and
    `uftrace replay` with -D N and -T f@depth=N, N around the depths that carry events: the records and events shown
    must be those the reader model shows (an event iff its own function is shown, under that function)"""
    from vf import datadir as D
    import struct
    objdir = harness(ctx).objdir
    base = 0x400000
    syms = D.default_syms(6) + [(WVAR_OFF, 8, "D", "wvar")]
    names = [x[3] for x in syms]

    def depth_of(c):
        d = m = 0
        for it in c["res"]["items"]:
            if it[0] == "R":
                d += 1 if it[2] == 0 else -1
                m = max(m, d)
        return m
    pick = [c for c in cases if c["complete"] and hook_gaps_ok(c["evs"]) and not c.get("thread_script")
            and sum(1 for it in c["res"]["items"] if it[0] == "E") >= 2 and depth_of(c) >= 2]
    pick.sort(key=lambda c: -depth_of(c))
    pick = pick[:ctx.n(8, 60)]
    jobs = []
    for ci, c in enumerate(pick):
        recs, rseq, labels, texts = [], [], [], []
        for it in c["res"]["items"]:
            if it[0] == "R":
                k = it[5] // 256
                recs.append({"t": it[1], "type": it[2], "depth": it[4], "addr": base + syms[k][0]})
                rseq.append(("RE %d" if it[2] == 0 else "RX %d") % k)
                labels.append(("entry" if it[2] == 0 else "exit", names[k]))
                texts.append(None)
            else:
                eid, data = it[2], it[3]
                if eid == ID_VAR:
                    raw = struct.pack("<Q", base + WVAR_OFF) + data[0].to_bytes(c.get("vsize", 8), "little")
                elif eid == ID_CPU:
                    raw = struct.pack("<I", data[0])
                else:
                    raw = b"".join(struct.pack("<Q", w) for w in data)
                recs.append({"t": it[1], "type": 3, "depth": 0, "addr": eid, "payload": struct.pack("<H", len(raw)) + raw})
                rseq.append("REV %d" % len(rseq))
                labels.append(("event", EV_NAME[eid]))
                texts.append("%s (%s)" % (EV_NAME[eid], event_text(eid, data, True)))
        d = os.path.join(ctx.scratch, "c17rdd%d" % ci)
        shutil.rmtree(d, ignore_errors=True)
        D.write({"tasks": [{"tid": 100, "pid": 100, "ppid": None, "recs": recs}], "syms": syms, "base": base, "events": True}, d)
        md = depth_of(c)
        opts = [(["-D", str(n)], n, None) for n in sorted({1, max(1, md - 1), md})]
        fk = next((it[5] // 256 for it in c["res"]["items"] if it[0] == "R"), 0)
        inner = [it[5] // 256 for it in c["res"]["items"] if it[0] == "R" and it[2] == 0 and it[4] >= 1]
        if inner:
            k2 = ctx.rng.choice(inner)
            opts.append((["-T", "%s@depth=%d" % (names[k2], ctx.rng.choice([1, 2]))], 1024, None))
            opts[-1] = (opts[-1][0], 1024, (k2, int(opts[-1][0][1].split("=")[1])))
        for args, gd, trg in opts:
            rc1, o1, e1 = D.uftrace(objdir, "dump", d, ["--event-full"] + args)
            rc2, o2, e2 = D.uftrace(objdir, "replay", d, ["-f", "none", "--event-full"] + args)
            jobs.append({"args": args, "gd": gd, "trg": trg, "rseq": rseq, "labels": labels, "texts": texts,
                         "dump": (rc1, o1, e1), "replay": (rc2, o2, e2)})
            ctx.case(key=("reader-depth", tuple(args), repr(c["res"]["items"])), tags=["reader:depth-limit"], size=len(recs))
        shutil.rmtree(d, ignore_errors=True)
    if not jobs:
        return
    defs = "Definition rjobs : list (list bool) := [\n%s\n].\n" % ";\n".join(
        "rflags false {| rgdepth := %d; rdepth_of := %s |} [%s] (%d%%Z, [])" % (
            j["gd"], ("fun f => if (f =? %d)%%N then Some %d%%Z else None" % j["trg"]) if j["trg"] else "fun _ => None",
            "; ".join(j["rseq"]), j["gd"]) for j in jobs)
    r = coq.run_cases(ctx, "c17_rdepth", PRE + "Local Open Scope Z_scope.\n", defs, [("flags", "rjobs")], timeout=900)
    if r is None:
        return
    import re
    rows = re.findall(r"\[((?:\s*(?:true|false)\s*;?)*)\]", r["flags"])
    rows = [[x.strip() == "true" for x in row.split(";") if x.strip()] for row in rows]
    if len(rows) != len(jobs):
        ctx.broken("reader depth: Coq returned %d rows for %d jobs" % (len(rows), len(jobs)), r["flags"][:400])
        return
    for j, fl in zip(jobs, rows):
        exp = [lab for lab, f in zip(j["labels"], fl) if f]
        got = []
        for l in j["dump"][1].splitlines():
            m = re.search(r"\[(entry|exit |event)\] ([^ (]+)\(", l)
            if m:
                got.append((m.group(1).strip(), m.group(2)))
        depth, expr = 0, []
        for lab, txt, f in zip(j["labels"], j["texts"], fl):
            if not f:
                continue
            if lab[0] == "entry":
                depth += 1
            elif lab[0] == "exit":
                depth -= 1
            else:
                expr.append((depth, txt))
        gotr = []
        for l in j["replay"][1].splitlines():
            t = l.strip()
            if t.startswith("/* ") and t[3:].split(":", 1)[0] in ("read", "diff", "watch"):
                gotr.append(((len(l) - len(l.lstrip(" "))) // 2, strip_derived(t[3:-3].strip())))
        rep = {"mode": "reader", "options": j["args"], "records": j["rseq"], "expected_dump": exp, "got_dump": got,
               "expected_replay": expr, "got_replay": gotr, "stderr": (j["dump"][2] + j["replay"][2])[-300:]}
        if j["dump"][0] != 0 or j["replay"][0] != 0:
            ctx.violation("C17 (reader): uftrace dump/replay %s fails on a stream with events" % " ".join(j["args"]), rep, True)
        elif got != exp:
            ctx.violation("C17 (reader): `uftrace dump %s`: the records / events shown are not those of the functions within "
                          "the depth limit (an event is shown iff its own function is shown)" % " ".join(j["args"]), rep, True)
        elif [list(x) for x in gotr] != [list(x) for x in expr]:
            ctx.violation("C17 (reader): `uftrace replay %s`: the events shown are not those of the functions shown, each "
                          "under its own function" % " ".join(j["args"]), rep, True)
    ctx.extra["reader_depth_runs"] = len(jobs)


def strip_derived(txt):
    """drop the derived ratios replay appends to pmu diff events (IPC= / hit= / predict=)"""
    for key in (" IPC=", " hit=", " predict="):
        i = txt.find(key)
        if i >= 0:
            txt = txt[:i] + (")" if txt.endswith(")") else "")
    return txt


# ---------------------------------------------------------------- end to end: generated programs under `uftrace record`
E2E_METHODS = [("pg", ["-pg"], []), ("fentry", ["-pg", "-mfentry"], []), ("cyg", ["-finstrument-functions"], []),
               ("patchable", ["-fpatchable-function-entry=5"], ["-P", "."])]


def e2e_decode(d):
    """own decoder of the main task's .dat: [('R', time, type, depth, name) | ('E', time, id, [words])]"""
    import struct
    base, exe, syms = None, None, []
    for mp in glob.glob(os.path.join(d, "sid-*.map")):
        for line in open(mp):
            k = line.split()
            if len(k) >= 6 and "/" in k[5] and base is None and ".so" not in k[5]:
                base, exe = int(k[0].split("-")[0], 16), os.path.basename(k[5])
    for line in open(os.path.join(d, exe + ".sym"), errors="replace"):
        k = line.split()
        if not line.startswith("#") and len(k) >= 4:
            syms.append((int(k[0], 16), int(k[1], 16), k[3]))
    out = {}
    for df in glob.glob(os.path.join(d, "*.dat")):
        tid = os.path.basename(df)[:-4]
        if not tid.isdigit():
            continue
        b, off, items = open(df, "rb").read(), 0, []
        while off + 16 <= len(b):
            t, w = struct.unpack_from("<QQ", b, off)
            off += 16
            ty, more, depth, addr = w & 3, (w >> 2) & 1, (w >> 6) & 0x3ff, w >> 16
            if ty == 3:
                ln = struct.unpack_from("<H", b, off)[0] if more else 0
                data = b[off + 2:off + 2 + ln]
                if more:
                    off += (ln + 2 + 7) & ~7
                if addr == ID_VAR:
                    wd = [int.from_bytes(data[8:], "little")]
                else:
                    sz = 4 if addr == ID_CPU else 8
                    wd = [int.from_bytes(data[i:i + sz], "little") for i in range(0, len(data), sz)]
                items.append(("E", t, addr, wd))
            else:
                name = "?"
                for a, z, n in syms:
                    if a <= addr - base < a + max(z, 1):
                        name = n
                items.append(("R", t, ty, depth, name))
        out[int(tid)] = items
    return out


def e2e(ctx):
    """generated C programs recorded by the real `uftrace record` with read= triggers and -W var (all instrumentation
    methods incl. dynamic patching; a library call through the PLT hook): entry paths the in-process driver does not
    reach, the writer thread and the files.  Oracles: nesting after erasing; READ right after ENTRY / DIFF right before
    EXIT of every function with the trigger, differences >= 0 and the page-fault readings non-decreasing; the variable's
    events = the changes of its value at the hooks (computed from the program text); times inside the enclosing call."""
    rng = ctx.rng
    objdir = harness(ctx).objdir
    uft = os.path.join(objdir, "uftrace")
    work = os.path.join(ctx.scratch, "e2e")
    os.makedirs(work, exist_ok=True)
    for pi in range(ctx.n(4, 10)):
        method, cflags, rflags = E2E_METHODS[pi % 4] if pi < 4 else rng.choice(E2E_METHODS)
        fo = F.gen_shape(rng, 4, rng.choice([4, 8, 14]), 4)
        cnt = [0]
        protos, bodies, hooks = [], [], []        # hooks: ('E'|'X', name, value of gv the hook observes)
        gv0 = rng.choice([3, 3, 1, 0])        # load-time value: non-zero mostly, so that the first change can be to 0
        gv = [gv0]
        first_zero = [gv0 != 0 and rng.random() < 0.6]

        def newval():
            if first_zero[0]:
                first_zero[0] = False
                return 0
            return rng.randrange(0, 6)
        use_plt = method == "pg"

        def emit(c):
            cnt[0] += 1
            name = "n%d_f%d" % (cnt[0], c.k)
            hooks.append(("E", name, gv[0]))
            pre = post = ""
            if rng.random() < 0.3:
                gv[0] = newval()
                pre = "gv = %d;" % gv[0]
            calls = []
            for k in c.kids:
                calls.append(emit(k) + "();")
                if rng.random() < 0.2:
                    gv[0] = newval()
                    calls.append("gv = %d;" % gv[0])
            if use_plt and c.k == 3 and not c.kids:
                calls.append("sink += getpid();")
                hooks.append(("E", "getpid", gv[0]))
                hooks.append(("X", "getpid", gv[0]))
            if rng.random() < 0.3:
                gv[0] = newval()
                post = "gv = %d;" % gv[0]
            hooks.append(("X", name, gv[0]))
            protos.append("void %s(void);" % name)
            bodies.append("__attribute__((noinline)) void %s(void) { %s for (volatile int i = 0; i < 50; i++) sink += i; %s %s }"
                          % (name, pre, " ".join(calls), post))
            return name
        hooks.append(("E", "main", gv0))
        roots = [emit(c) for c in fo]
        hooks.append(("X", "main", gv[0]))
        src = "\n".join(["#include <unistd.h>", "volatile long gv = %d;" % gv0, "static volatile unsigned long sink;"] + protos + bodies +
                        ["int main(void) { %s return 0; }" % " ".join(r + "();" for r in roots)]) + "\n"
        cfile, exe, dd = [os.path.join(work, "p%d%s" % (pi, x)) for x in (".c", "", ".data")]
        open(cfile, "w").write(src)
        rc, o, e = sh(["gcc", "-O1", "-o", exe, cfile] + cflags, timeout=120)
        if rc != 0:
            ctx.broken("e2e program does not compile", e[-400:])
            continue
        trig = "_f1$@read=page-fault"
        opts = ["-W", "var:gv", "-T", trig] + (["-T", "getpid@read=page-fault"] if use_plt else ["--no-libcall"])
        shutil.rmtree(dd, ignore_errors=True)
        rc, o, e = sh(["timeout", "60", uft, "record", "--no-pager", "--no-event", "--libmcount-path=" + objdir, "-d", dd]
                      + opts + rflags + [exe], timeout=90)
        rep = {"mode": "e2e", "method": method, "opts": opts, "program": src}
        ctx.case(key=("e2e", method, src), tags=["e2e:" + method] + (["e2e:plt-libcall"] if use_plt and any(
            h[1] == "getpid" for h in hooks) else []), size=len(hooks))
        if rc != 0:
            ctx.violation("C17 (end to end, %s): uftrace record with read= / -W var failed (rc=%d)" % (method, rc),
                          dict(rep, stderr=e[-400:]), True)
            continue
        streams = e2e_decode(dd)
        items = max(streams.values(), key=len)
        # keep what the program itself did: from ENTRY main to EXIT main
        names = [it[4] if it[0] == "R" else None for it in items]
        if "main" not in names:
            ctx.violation("C17 (end to end, %s): main is not in the recorded stream" % method, rep, True)
            continue
        i0 = names.index("main")
        i1 = len(names) - 1 - names[::-1].index("main")
        body = items[i0:i1 + 1]
        rep["stream"] = [list(x) for x in body][:80]
        # 1. nesting after erasing, and the calls of the program in order
        got = [(("E" if it[2] == 0 else "X"), it[4]) for it in body if it[0] == "R"]
        if got != [(h[0], h[1]) for h in hooks]:
            ctx.violation("C17 (end to end, %s): erasing the events does not leave the program's call history" % method,
                          dict(rep, expected=[(h[0], h[1]) for h in hooks][:60], got=got[:60]), True)
            continue
        # 2. read / diff adjacency and plausibility
        bad = None
        last_minor = -1
        for i, it in enumerate(body):
            if it[0] != "R":
                continue
            trg = it[4].endswith("_f1") or it[4] == "getpid"
            nxt = body[i + 1] if i + 1 < len(body) else None
            prv = body[i - 1] if i > 0 else None
            if it[2] == 0:
                isr = nxt is not None and nxt[0] == "E" and nxt[2] == 100002 and nxt[1] == it[1]
                if trg != isr:
                    bad = "ENTRY %s %s followed by a read event" % (it[4], "is not" if trg else "is")
                elif isr:
                    if nxt[3][1] < last_minor:
                        bad = "page-fault readings go down"
                    last_minor = nxt[3][1]
            else:
                isd = prv is not None and prv[0] == "E" and prv[2] == 100004 and prv[1] == it[1]
                if trg != isd:
                    bad = "EXIT %s %s preceded by a diff event" % (it[4], "is not" if trg else "is")
                elif isd and any(signed64(v) < 0 or signed64(v) > 1 << 20 for v in prv[3]):
                    bad = "implausible page-fault difference %r" % (prv[3],)
            if bad:
                break
        if bad:
            ctx.violation("C17 (end to end, %s): %s" % (method, bad), rep, True)
            continue
        # 3. -W var: the changes of gv at the hooks
        exp, prev = [], gv0
        for hk in hooks:
            if hk[2] != prev:
                exp.append(hk[2])
            prev = hk[2]
        gotv = [it[3][0] for it in body if it[0] == "E" and it[2] == ID_VAR]
        if gotv != exp:
            ctx.violation("C17 (end to end, %s): -W var:gv events %r, changes of gv at the hooks %r" % (method, gotv, exp),
                          rep, True)
            continue
        # 4. every event inside the enclosing call's interval
        stk = []
        for it in body:
            if it[0] == "R" and it[2] == 0:
                stk.append([it[1], it[1]])
            elif it[0] == "R":
                t0, m = stk.pop()
                if m > it[1]:
                    ctx.violation("C17 (end to end, %s): an event is stamped after the EXIT of the enclosing call" % method, rep, True)
                    break
            elif stk:
                if it[1] < stk[-1][0]:
                    ctx.violation("C17 (end to end, %s): an event is stamped before the ENTRY of the enclosing call" % method,
                                  rep, True)
                    break
                stk[-1][1] = max(stk[-1][1], it[1])
        ctx.extra["e2e_events_checked"] = ctx.extra.get("e2e_events_checked", 0) + sum(1 for it in body if it[0] == "E")
        ctx.extra["e2e_read_functions"] = ctx.extra.get("e2e_read_functions", 0) + sum(
            1 for hk in hooks if hk[0] == "E" and (hk[1].endswith("_f1") or hk[1] == "getpid"))


def sample_of(case):
    return {"cfg": case["cfg"], "reads": case["reads"], "watch": [case["wcpu"], case["wvar"]],
            "events": [(e[0], e[1], e[2]) for e in case["evs"][:8]], "stream": case["res"]["items"][:10]}


def replay_obj(case, extra=None):
    o = {"mode": "inproc", "klass": case["klass"], "cfg": case["cfg"], "reads": case["reads"], "wcpu": case["wcpu"],
         "wvar": case["wvar"], "pmu": case["pmu"], "args": case.get("args", []), "rets": case.get("rets", []),
         "sargs": case.get("sargs", {}), "srets": case.get("srets", []), "vsize": case.get("vsize", 8), "events": case["evs"], "env": case_env(case),
         "impl_states": case["res"]["states"], "impl_stream": case["res"]["items"]}
    if case.get("thread_script"):
        o["thread_script"] = case["thread_script"]
    o.update(extra or {})
    return o


def case_defs(cases):
    defs = "Definition cases : list (xcfg * list xev * list xobs * list oitem) := [\n%s\n].\n" % ";\n".join(
        "(%s,\n %s,\n %s,\n %s)" % (coq_xcfg(c), coq_xevs(c["evs"]), coq_states(c["res"]["states"]),
                                    coq_items(c["res"]["items"])) for c in cases)
    return defs


def with_shared(defs):
    """prepend the shared constants and the interned observations (call after ALL terms have been built)"""
    return SHARED + oval_defs() + defs


def evaluate(ctx, cases, name="c17_cases"):
    defs = case_defs(cases)
    # flags: which checker applies to which case
    nest = [c["complete"] and not has_switch(c["cfg"]) for c in cases]
    adj = [c["complete"] and not has_switch(c["cfg"]) and room_ok(c) for c in cases]
    tim = [c["complete"] and not has_switch(c["cfg"]) and hook_gaps_ok(c["evs"]) for c in cases]
    defs += "Definition nestchk : list bool := [%s].\n" % "; ".join(map(coq.coq_bool, nest))
    defs += "Definition adjchk : list bool := [%s].\n" % "; ".join(map(coq.coq_bool, adj))
    defs += "Definition timchk : list bool := [%s].\n" % "; ".join(map(coq.coq_bool, tim))
    spec = [(i, c) for i, c in enumerate(cases) if c["klass"] == "plain" and c["complete"]
            and room_ok(c) and F_height(c["xforest"]) <= (c["cfg"].get("max_stack") or 1024)]
    defs += ("Definition d0 : xcfg * list xev * list xobs * list oitem := "
             "(mkxcfg (mkcfg [] false false 0 0 0 [] PG) [] false false false, [], [], []).\n")
    defs += "Definition speccases : list bool := [\n%s\n].\n" % ";\n".join(
        "(let '(a, _, _, r) := nth %d cases d0 in ok_read_spec a %d %d [%s] r)" % (
            i, c["cfg"].get("threshold") or 0, c["cfg"]["depth"] if c["cfg"].get("depth") is not None else 1024,
            "; ".join(coq_xcall(k) for k in c["xforest"]))
        for i, c in spec)
    wsp = [(i, c) for i, c in enumerate(cases) if c["klass"] == "watch0" and watch_spec_applicable(c)]
    defs += "Definition watchcases : list bool := [\n%s\n].\n" % ";\n".join(
        "(let '(_, _, _, r) := nth %d cases d0 in %s && %s)" % (
            i,
            ("ok_watch_cpu [%s] r" % "; ".join("(%d)%%Z" % e[3]["cpu"] for e in c["evs"])) if c["wcpu"] else "true",
            ("ok_watch_var %d [%s] r" % (c["evs"][0][3]["var"], "; ".join(str(e[3]["var"]) for e in c["evs"])))
            if c["wvar"] else "true")
        for i, c in wsp)
    wss = [(i, c) for i, c in enumerate(cases) if c.get("pure_cpu") and c["complete"] and hook_gaps_ok(c["evs"])]
    defs += "Definition wspeccases : list bool := [\n%s\n].\n" % ";\n".join(
        "(let '(_, b, _, r) := nth %d cases d0 in list_eqb oitem_eqb r (wspec b))" % i for i, c in wss)
    hss = [(i, c) for i, c in enumerate(cases) if c["klass"] == "watch0" and c["complete"] and hook_gaps_ok(c["evs"])
           and room_ok(c) and not c["cfg"].get("threshold") and c["cfg"].get("depth") is None]
    defs += "Definition hspeccases : list bool := [\n%s\n].\n" % ";\n".join(
        "(let '(a, b, _, r) := nth %d cases d0 in list_eqb oitem_eqb r (hspec a b))" % i for i, c in hss)
    T = "(xcfg * list xev * list xobs * list oitem)"
    res = coq.run_cases(ctx, name, PRE, with_shared(defs), [
        ("mismatch", "bad_indices (fun c : %s => let '(a, b, o, r) := c in agree_x a b o r) cases 0" % T),
        ("nested", "bad_indices (fun p : %s * bool => let '((a, b, o, r), chk) := p in negb chk || ok_nested_x r) "
                   "(combine cases nestchk) 0" % T),
        ("adjacent", "bad_indices (fun p : %s * bool => let '((a, b, o, r), chk) := p in negb chk || ok_adjacent a r) "
                     "(combine cases adjchk) 0" % T),
        ("times", "bad_indices (fun p : %s * bool => let '((a, b, o, r), chk) := p in negb chk || ok_times r) "
                  "(combine cases timchk) 0" % T),
        ("spec", "bad_indices (fun b : bool => b) speccases 0"),
        ("watch", "bad_indices (fun b : bool => b) watchcases 0"),
        ("wspec", "bad_indices (fun b : bool => b) wspeccases 0"),
        ("hspec", "bad_indices (fun b : bool => b) hspeccases 0"),
    ], timeout=1500)
    if res is None:
        return
    R = {k: coq.parse_nat_list(v) for k, v in res.items()}
    ctx.extra["read_spec_checks"] = ctx.extra.get("read_spec_checks", 0) + len(spec)
    ctx.extra["watch_spec_checks"] = ctx.extra.get("watch_spec_checks", 0) + len(wsp)
    ctx.extra["disagreements"] = ctx.extra.get("disagreements", 0) + len(R["mismatch"])
    for i in R["nested"][:2]:
        ctx.violation("C17: erasing the events from the recorded stream does not leave a properly nested stream",
                      replay_obj(cases[i]), True)
    for i in R["adjacent"][:2]:
        ctx.violation("C17: a function with a read= trigger lacks its read event right after ENTRY or its diff event "
                      "right before EXIT (or has a spurious one)", replay_obj(cases[i]), True)
    for i in R["times"][:2]:
        ctx.violation("C17: an event's time stamp lies outside the interval of the enclosing recorded call",
                      replay_obj(cases[i]), True)
    for j in R["spec"][:2]:
        ctx.violation("C17: recorded stream differs from the read/diff specification (placement or values)",
                      replay_obj(spec[j][1]), True)
    for j in R["watch"][:2]:
        ctx.violation("C17: watch events are not exactly the changes of the observed cpu / variable values",
                      replay_obj(wsp[j][1]), True)
    ctx.extra["watch_stream_spec_checks"] = ctx.extra.get("watch_stream_spec_checks", 0) + len(wss)
    for j in R["wspec"][:2]:
        ctx.violation("C17: the stream with -W cpu differs from the hook-by-hook specification (event iff changed, "
                      "stamp, position in front of the hook's record)", replay_obj(wss[j][1]), True)
    ctx.extra["stream_spec_checks"] = ctx.extra.get("stream_spec_checks", 0) + len(hss)
    for j in R["hspec"][:2]:
        ctx.violation("C17: the stream (read= + -W cpu / -W var, no threshold) differs from the hook-by-hook specification "
                      "(every hook's watch events in front of its record, read events behind ENTRY, diff events before EXIT)",
                      replay_obj(hss[j][1]), True)
    if R["mismatch"] and not (R["nested"] or R["adjacent"] or R["times"] or R["spec"] or R["watch"] or R["wspec"]
                              or R["hspec"]):
        c = cases[R["mismatch"][0]]
        ctx.violation("model and libmcount disagree on %d case(s); the C17 checkers accept every explored implementation "
                      "output" % len(R["mismatch"]),
                      replay_obj(c, {"correspondence": "UV.C17.Model vs libmcount hooks (state after each hook incl. pending "
                                                       "events and watch state + the stream with events)"}), False)


# ---------------------------------------------------------------- regression cases of the repaired defects
def parse_raw_tail(hexs, first_payload):
    """records that follow an ENTRY/EXIT record with payload in a DUMP line: the harness prints the rest of the
    buffer; payloads of ENTRY/EXIT records have `first_payload` bytes here (one 8-byte argument / return value)"""
    b = bytes.fromhex(hexs)
    off = first_payload
    out = []
    while off + 16 <= len(b):
        t = int.from_bytes(b[off:off + 8], "little")
        w = int.from_bytes(b[off + 8:off + 16], "little")
        ty, more, addr = w & 3, (w >> 2) & 1, w >> 16
        off += 16
        if ty == 3:
            ln = int.from_bytes(b[off:off + 2], "little") if more else 0
            data = b[off + 2:off + 2 + ln]
            if more:
                off += (ln + 2 + 7) & ~7
            out.append(("E", t, addr, [int.from_bytes(data[i:i + 8], "little") for i in range(0, len(data), 8)]))
        else:
            if more:
                off += first_payload
            out.append(("R", t, ty))
    return out


def regressions(ctx):
    """the witnesses of the four defects this check found (7cf042b, aa8baff, 35535f9, 197b449): ordinary cases now"""
    h = harness(ctx)
    # (1) read= and argument capture in one frame (the slot above the frame is primed with a known size word)
    env = {"UFTRACE_TRIGGER": "f0@read=page-fault", "UFTRACE_ARGUMENT": "f0@arg1;f3@arg1"}
    script = ["VAL pagefault 5", "E 2 1000", "EA 3 1010 7", "X 1020", "X 1030", "EA 0 5000 7", "VAL pagefault 9", "X 5200",
              "DUMP"]
    out, _ = run_script(h, script, env, 90)
    tail = []
    for l in out:
        if l.startswith("R ") and " RAW" in l:          # the dump prints the rest of the buffer at the first payload
            tail = parse_raw_tail(l.split("RAW", 1)[1], 8)
            break
    evs = [(e[1], e[2], e[3]) for e in tail if e[0] == "E" and e[1] in (5000, 5200)]
    ctx.case(key=("regression", "read+args"), tags=["regression:read-with-args-guard"],
             sample={"script": script, "env": env, "events": evs})
    if evs != [(5000, 100002, [0, 5]), (5200, 100004, [0, 4])]:
        ctx.violation("C17: a function with read=page-fault and one captured argument must have READ (0,5) after ENTRY and "
                      "DIFF (0,4) before EXIT; got %r" % (evs,), {"mode": "witness", "script": script, "env": env,
                                                                   "out": out[-12:]}, True)
    # (2) -W var: every change is reported, also back to the value at the thread's first hook
    script = ["VAL var 3", "E 0 100", "VAL var 4", "E 1 110", "VAL var 3", "X 120", "X 200", "DUMP"]
    env = {"UFTRACE_WATCH": "var:verif_watched_var"}
    out, _ = run_script(h, script, env, 91)
    vals = [it[3][0] for it in parse_stream(out) if it[0] == "E" and it[2] == ID_VAR]
    ctx.case(key=("regression", "var 3,4,3"), tags=["regression:watch-var-stale-copy"],
             sample={"script": script, "var_events": vals})
    if vals != [4, 3]:
        ctx.violation("C17: -W var reports %r for the observed sequence 3,4,3,3 (expected 4,3)" % (vals,),
                      {"mode": "witness", "script": script, "env": env, "out": out[-12:]}, True)
    # (3) watch events of a call dropped by the time filter are dropped with it
    script = ["VAL cpu 3", "E 0 100", "VAL cpu 4", "E 1 110", "VAL cpu 5", "X 120", "E 2 130", "X 190", "X 200", "DUMP"]
    env = {"UFTRACE_WATCH": "cpu", "UFTRACE_THRESHOLD": "50"}
    out, _ = run_script(h, script, env, 92)
    st = parse_stream(out)
    cpus = [(it[1], it[3][0]) for it in st if it[0] == "E" and it[2] == ID_CPU]
    f1 = [it for it in st if it[0] == "R" and it[5] == 256]
    ctx.case(key=("regression", "drop"), tags=["regression:watch-events-survive-filtered-call"],
             sample={"script": script, "cpu_events": cpus})
    if f1 or cpus != [(101, 3)]:
        ctx.violation("C17: -W cpu -t 50ns, f1 of 10 ns: f1 and its cpu events must be absent, the first event present; "
                      "got cpu events %r" % (cpus,), {"mode": "witness", "script": script, "env": env, "out": out[-12:]}, True)


def regressions2(ctx):
    """witnesses of the two defects repaired in the second extension round"""
    h = harness(ctx)
    # (4) --estimate-return: at the end of a thread a time-filtered open call must not drop the events of its caller
    script = ["T 1", "VAL cpu 1", "CE 0 100", "VAL cpu 2", "CE 1 1000", "TIME 1010", "TEND"]
    env = {"UFTRACE_ESTIMATE_RETURN": "1", "UFTRACE_WATCH": "cpu", "UFTRACE_THRESHOLD": "50"}
    out, _ = run_script(h, script, env, 97)
    st = parse_stream(out)
    got = [(it[0], it[1]) + ((it[2], it[3][0]) if it[0] == "E" else (it[2], it[5])) for it in st]
    ctx.case(key=("regression", "estimate-finish"), tags=["regression:estimate-finish-drops-caller-events"],
             sample={"script": script, "stream": got})
    if got != [("R", 100, 0, 0), ("E", 101, ID_CPU, 1), ("R", 1012, 1, 0)]:
        ctx.violation("C17: --estimate-return, thread end with f0{f1} open, f1 below the time filter: expected ENTRY f0, "
                      "watch:cpu=1, EXIT f0; got %r" % (got,), {"mode": "witness", "script": script, "env": env,
                                                               "out": out[-10:]}, True)
    # (5) a cpu change that finds the queue full is reported by the next hook with a free slot
    script = []
    for d in range(1, 7):
        script += ["VAL cpu %d" % d, "E %d %d" % (d % 6, 1000 + 10 * d)]
    script += ["X %d" % (2000 + 10 * d) for d in range(1, 7)] + ["DUMP"]
    env = {"UFTRACE_WATCH": "cpu"}
    out, _ = run_script(h, script, env, 98)
    cpus = [it[3][0] for it in parse_stream(out) if it[0] == "E" and it[2] == ID_CPU]
    ctx.case(key=("regression", "cpu-full"), tags=["regression:cpu-change-lost-when-queue-full"],
             sample={"script": script, "cpu_events": cpus})
    if cpus != [1, 2, 3, 4, 6]:
        ctx.violation("C17: -W cpu, six nested entries with cpu 1..6: expected events 1,2,3,4 and (after the first record "
                      "freed the queue) 6; got %r" % (cpus,), {"mode": "witness", "script": script, "env": env,
                                                               "out": out[-14:]}, True)


def regression_zero(ctx):
    """491a61f: a call entered and left at one time stamp (always recorded, the threshold test being >=) got every
    read and diff event twice; now the reads follow ENTRY and the differences precede EXIT, once each"""
    h = harness(ctx)
    for n, trig in enumerate(("f0@read=page-fault", "f0@read=page-fault,trace")):
        script = ["VAL pagefault 5", "E 0 100", "VAL pagefault 9", "X 100", "DUMP"]
        env = {"UFTRACE_TRIGGER": trig}
        out, _ = run_script(h, script, env, 93 - 4 * n)
        got = [(it[2], it[3][1]) for it in parse_stream(out) if it[0] == "E"]
        ctx.case(key=("regression", "zero-duration", trig), tags=["regression:zero-duration-events-twice"],
                 sample={"script": script, "env": env, "events": got})
        if got != [(100002, 5), (100004, 4)]:
            ctx.violation("C17: %s entered and left at t=100: expected one read:page-fault 5 and one diff:page-fault 4; "
                          "got %r" % (trig, got), {"mode": "witness", "script": script, "env": env, "out": out[-12:]}, True)


def regression_valgrind(ctx):
    """thorough tier: no invalid access / uninitialised use in the -W var path (197b449), memcheck on the real libmcount"""
    h = harness(ctx)
    d = os.path.join(ctx.scratch, "c17vg")
    os.makedirs(d, exist_ok=True)
    e = {k: v for k, v in os.environ.items() if not k.startswith("UFTRACE_")}
    e.update({"UFTRACE_DIR": d, "UFTRACE_BUFFER": str(4 << 20), "UFTRACE_WATCH": "var:verif_watched_var"})
    script = "VAL var 3\nE 0 100\nVAL var 4\nE 1 110\nX 120\nX 200\nQUIT\n"
    try:
        p = subprocess.run(["timeout", "240", "valgrind", "-q", "--error-limit=no", h.exe], input=script, env=e,
                           capture_output=True, text=True, timeout=300)
    except (OSError, subprocess.TimeoutExpired) as ex:
        ctx.log("valgrind regression case skipped: %r" % (ex,))
        return
    for f in os.listdir(d):
        if f.startswith("sid-"):
            for g in glob.glob("/dev/shm/uftrace-%s-*" % f[4:20]):
                try:
                    os.unlink(g)
                except OSError:
                    pass
    bad = [l for l in p.stderr.splitlines() if "mcount_watch_update" in l or "save_watchpoint" in l]
    ctx.case(key=("regression", "watch-var-alloc"), tags=["regression:watch-var-alloc"], sample={"memcheck_lines": bad[:3]})
    if bad:
        ctx.violation("C17: memcheck reports invalid / uninitialised accesses in the -W var path",
                      {"mode": "witness", "script": script, "env": {"UFTRACE_WATCH": "var:verif_watched_var"},
                       "memcheck": bad[:8]}, True)


# ---------------------------------------------------------------- known findings that remain
def known(ctx):
    h = harness(ctx)
    # captured arguments that fill the frame buffer: the events of the function are refused (C17_read_diff_no_room_refuted)
    strs = [24] * 9 + [12, 11]                     # 9 * 100 + 52 + 48 = 1000 bytes of argument data
    env = {"UFTRACE_TRIGGER": "f0@read=page-fault", "UFTRACE_ARGUMENT": "f0@" + ",".join("arg%d/s" % i for i in range(1, 12))}
    script = str_lines() + ["VAL pagefault 5", "EA 0 100 " + " ".join("@S%d" % i for i in strs), "VAL pagefault 9", "XR 200 42",
                            "BASE", "DUMPRAW"]
    out, _ = run_script(h, script, env, 95)
    st = parse_stream_raw(out, {"sargs": {0: 11}, "srets": []})
    ids = [it[2] for it in st if it[0] == "E"]
    recs = [(it[1], it[2]) for it in st if it[0] == "R"]
    ctx.case(key=("known", KEY_ROOM), tags=["known:" + KEY_ROOM], sample={"env": env, "event_ids": ids, "records": recs})
    if recs != [(100, 0), (200, 1)] or ids not in ([], [100002, 100004]):
        ctx.violation("C17: read=page-fault with 1000 bytes of captured arguments: unexpected stream %r / %r" % (recs, ids),
                      {"mode": "witness", "script": script, "env": env, "out": out[-6:]}, True)
    ctx.known_finding(KEY_ROOM, "a function with read= whose captured arguments fill the frame buffer loses its events",
                      still_fails=ids == [], replay={"mode": "witness", "script": script, "env": env})
    # -W var with two threads: a change is reported by the first thread that notices it only (C17_watch_var_threads_refuted)
    script = ["T 1", "VAL var 3", "E 0 100", "T 2", "E 0 105", "T 1", "VAL var 4", "X 200", "T 2", "X 205",
              "T 1", "DUMP", "T 2", "DUMP"]
    env = {"UFTRACE_WATCH": "var:verif_watched_var"}
    out, _ = run_script(h, script, env, 96)
    secs, cur = [], None
    for l in out:
        if l.startswith("BUF ") and cur is None:
            cur = []
        if cur is not None:
            cur.append(l)
            if l == "END":
                secs.append(cur)
                cur = None
    vals = [[it[3][0] for it in parse_stream(sec) if it[0] == "E" and it[2] == ID_VAR] for sec in secs]
    ctx.case(key=("known", KEY_ONCE), tags=["known:" + KEY_ONCE], sample={"script": script, "var_events_per_thread": vals})
    if vals not in ([[4], []], [[4], [4]]):
        ctx.violation("C17: -W var, two threads observing 3 then 4: var events per thread %r" % (vals,),
                      {"mode": "witness", "script": script, "env": env, "out": out[-14:]}, True)
    ctx.known_finding(KEY_ONCE, "-W var: a change is reported only by the first thread that notices it",
                      still_fails=vals == [[4], []], replay={"mode": "witness", "script": script, "env": env})
    # the hook after a thread's first hook comes 1 ns later: an event is written inside a call that starts after
    # the event's time stamp (C17_watch_times_gap1_refuted)
    script = ["VAL cpu 1", "E 0 100", "VAL cpu 2", "E 1 101", "VAL cpu 3", "X 102", "VAL cpu 4", "X 200", "DUMP"]
    env = {"UFTRACE_WATCH": "cpu"}
    out, _ = run_script(h, script, env, 94)
    st = parse_stream(out)
    ctx.case(key=("known", KEY_GAP), tags=["known:" + KEY_GAP], sample={"script": script, "stream": st[:8]})
    open_t, bad = [], False
    for it in st:
        if it[0] == "R" and it[2] == 0:
            open_t.append(it[1])
        elif it[0] == "R":
            open_t.pop()
        elif open_t and it[1] < open_t[-1]:
            bad = True
    cpus = [it[3][0] for it in st if it[0] == "E" and it[2] == ID_CPU]
    if cpus != [1, 2, 3, 4]:
        ctx.violation("C17: -W cpu with hooks 1 ns apart: cpu events %r (expected 1,2,3,4)" % (cpus,),
                      {"mode": "witness", "script": script, "env": env, "out": out[-12:]}, True)
    ctx.known_finding(KEY_GAP, "hooks 1 ns apart after a thread's first hook: a watch event is written inside a call that starts "
                      "after the event's time stamp", still_fails=bad, replay={"mode": "witness", "script": script, "env": env})


def F_height(xf):
    def h(c):
        return 1 + max([h(k) for k in c["kids"]] or [0])
    return max([h(c) for c in xf] or [0])


def meta(ctx):
    ctx.rule = ("three classes of generated cases over 6 functions: 'plain' (-t/-D only, read= triggers with 1-5 kinds on 1-3 "
                "functions, both shapes, three pattern syntaxes), 'watch0' (threshold 0, read= + -W cpu / -W var), 'any' "
                "(C05 filter/trigger tables incl. trace_on/off, --max-stack overflow, zero durations, truncated histories, "
                "read= + watch); in 50% of the cases argument / return-value capture on 1-3 functions, preferably those with read= "
                "triggers: one 8-byte value, or 11-14 string arguments whose total size per call is aimed at the byte where the "
                "next event stops fitting (exactly, +-4), below, or beyond the 1020-byte limit; string return values of 5..150 "
                "characters; random call forests, durations around the thresholds, hook gaps 1/2/5/50 ns, observation "
                "sequences with growing/shrinking counters (negative differences), cpu/var values that change or stay; "
                "distinct = distinct (cfg, reads, watch, events+observations); non-trivial = >=4 hooks and >=1 event recorded")
    ctx.trusted = [
        "Coq 8.16.1 kernel incl. vm_compute; no axioms (Print Assumptions: closed)",
        "models coq/theories/Mcount/Model.v + coq/theories/C17/Model.v (save_trigger_read, save_watchpoint, record_event order "
        "in record_ret_stack/record_trace_data, event invalidation in mcount_exit_filter_record) and the executable checkers there",
        "generated constants Gen/Consts.v, Gen/C17Consts.v (event ids, read bits, order of read_events[])",
        "harness/c/mc_harness.c (interposed clock, getrusage, fopen(/proc/self/statm), perf_event_open/read, sched_getcpu, "
        "watched global), vf/mch.py + props/c17.py (option strings, payload decoding, applicability flags of the checkers)",
    ]
    ctx.assume = [
        "asynchronous (SDT) events, scripts and the finish/recover triggers are outside the model",
        "the SIZE of the captured argument data is an input of the model (computed by the driver from the -A specification "
        "and the string lengths it passes: 2-byte length + characters, padded to 4; more than 1020 bytes = no capture); the "
        "argument / return-value bytes themselves are not modelled (C09); the extent of what save_retval writes (<= 105 bytes) "
        "is read from the source and tied by generated string return values of 5..150 characters",
        "one thread per case for -W var (the global watch item is shared between threads); no trace_on/trace_off under "
        "interleaved threads (mcount_enabled is one switch for the whole process, the model is per thread)",
        "stream-level placement of watch events is a theorem for configurations without threshold (C17_stream_spec); with "
        "thresholds / filters it is tied by correspondence and the times / watch checkers",
        "perf counters and /proc/self/statm are replaced by interposed sources; the kernel interfaces themselves are not exercised",
    ]


def run(ctx):
    meta(ctx)
    coq.prove(ctx, "C17")
    build.get_build("plain", ctx.log)
    regressions(ctx)
    regressions2(ctx)
    regression_zero(ctx)
    known(ctx)
    inproc(ctx)
    threads(ctx)
    e2e(ctx)
    if ctx.thorough():
        regression_valgrind(ctx)


def replay(ctx, obj):
    meta(ctx)
    coq.prove(ctx, "C17")
    if obj.get("mode") != "inproc" or "events" not in obj:
        return run(ctx)
    h = harness(ctx)
    cfg = obj["cfg"]
    cfg["trig"] = {int(k): v for k, v in cfg.get("trig", {}).items()}
    case = {"klass": obj.get("klass", "any"), "cfg": cfg, "reads": {int(k): v for k, v in obj["reads"].items()},
            "wcpu": obj["wcpu"], "wvar": obj["wvar"], "pmu": obj["pmu"], "args": obj.get("args", []),
            "rets": obj.get("rets", []), "sargs": {int(k): v for k, v in obj.get("sargs", {}).items()},
            "srets": obj.get("srets", []), "vsize": obj.get("vsize", 8),
            "evs": [tuple(e) for e in obj["events"]], "complete": False, "xforest": []}
    case["res"] = run_case(h, case)
    ctx.case(key="replay", sample=sample_of(case))
    T = "(xcfg * list xev * list xobs * list oitem)"
    r = coq.run_cases(ctx, "c17_replay", PRE, with_shared(case_defs([case])), [
        ("agree", "forallb (fun c : %s => let '(a, b, o, r) := c in agree_x a b o r) cases" % T),
        ("nested", "forallb (fun c : %s => let '(a, b, o, r) := c in ok_nested_x r) cases" % T),
        ("adjacent", "forallb (fun c : %s => let '(a, b, o, r) := c in ok_adjacent a r) cases" % T),
        ("times", "forallb (fun c : %s => let '(a, b, o, r) := c in ok_times r) cases" % T),
        ("model_stream", "map (fun c : %s => let '(a, b, o, r) := c in map oseen (xout (snd (xexec a b xstart)))) cases" % T)])
    ctx.log("replay:", {k: v for k, v in (r or {}).items() if k != "model_stream"})
    ctx.log("impl stream:", case["res"]["items"][:30])
    ctx.log("model stream:", (r or {}).get("model_stream", "")[:3000])
    if r and "false" in (r["nested"], r["adjacent"], r["times"]):
        ctx.violation("C17: a property checker rejects the implementation's stream (replay)", obj, True)
    elif r and r["agree"] != "true":
        ctx.violation("model and libmcount disagree (replay)", obj, False)
