"""C01 end-to-end scenario programs (clause audit of the property text): exit paths (exit() deep in a call chain with
instrumented atexit handlers, pthread_exit, death by signal), call depth beyond --max-stack, the floating-point environment
(rounding mode, sticky exception flags), fork / vfork / exec / system, asynchronous signals with an instrumented handler, traced code after the thread teardown (key destructors, thread_local
destructors, signal handlers inside them), setjmp/longjmp/sigsetjmp/siglongjmp with re-armed buffers.
Every program appends `DIGEST <tag> <hex>` lines to stdout and to the private file $VERIF_OUT."""

COMMON = r'''#define _GNU_SOURCE
#include <stdio.h>
#include <stdlib.h>
#include <string.h>
#include <stdint.h>
#include <errno.h>
#include <unistd.h>
#define NOINL __attribute__((noinline))
static uint64_t dg = 1469598103934665603ULL;
static inline __attribute__((always_inline)) void mix(uint64_t v) { dg = (dg ^ v) * 1099511628211ULL; }
static void report_to(const char *tag)
{
  char line[128]; FILE *of;
  snprintf(line, sizeof line, "DIGEST %s %016llx\n", tag, (unsigned long long)dg);
  fputs(line, stdout); fflush(stdout);
  if (getenv("VERIF_OUT") && (of = fopen(getenv("VERIF_OUT"), "a")) != NULL) { fputs(line, of); fclose(of); }
}
'''

SCENARIOS = {
    "exitdeep": r'''NOINL static void bye(void) { mix(77); report_to("atexit1"); }
NOINL static void bye2(void) { mix(78); report_to("atexit2"); }
NOINL long leaf(long x) { mix(x); return x * 3; }
NOINL long rec(long d) { mix(d); if (d == 0) { leaf(5); report_to("deep"); exit(42); } return rec(d - 1) + leaf(d); }
int main(void) { atexit(bye); atexit(bye2); mix(rec(7)); report_to("notreached"); return 1; }
''',
    "deeprec": r'''NOINL long down(long d, long acc) { volatile long pad = acc; if (d == 0) return pad + 1; return down(d - 1, acc * 3 + d) + (pad & 7); }
int main(void) { long r = down(3000, 1); mix(r); r = down(1500, 2); mix(r); report_to("main"); return (int)(dg % 50); }
''',
    "fenv": r'''#include <fenv.h>
#include <math.h>
NOINL double work(double a, double b) { volatile double x = a / b; return x + 1e-30; }
NOINL long leafi(long x) { return x + 1; }
int main(void) {
  int i;
  fesetround(FE_UPWARD);
  for (i = 0; i < 50; i++) { feclearexcept(FE_ALL_EXCEPT); leafi(i); mix((uint64_t)fetestexcept(FE_ALL_EXCEPT)); mix((uint64_t)fegetround()); }
  { double r = work(1.0, 3.0); uint64_t b; memcpy(&b, &r, 8); mix(b); mix((uint64_t)fegetround()); }
  fesetround(FE_TOWARDZERO);
  { double r = work(2.0, 3.0); uint64_t b; memcpy(&b, &r, 8); mix(b); mix((uint64_t)fegetround()); }
  feclearexcept(FE_ALL_EXCEPT); leafi(3); mix((uint64_t)fetestexcept(FE_ALL_EXCEPT));
  report_to("main"); return 3;
}
''',
    "forks": r'''#include <sys/wait.h>
NOINL long leaf(long x) { mix(x); return x * 7 + 1; }
NOINL long child_work(long x) { long i, s = 0; for (i = 0; i < 5; i++) s += leaf(x + i); return s; }
int main(void) {
  int st; pid_t p;
  mix(leaf(1));
  p = fork();
  if (p == 0) { mix(child_work(10)); report_to("child"); _exit((int)(dg % 100)); }
  waitpid(p, &st, 0); mix((uint64_t)WEXITSTATUS(st)); mix(leaf(2));
  p = vfork();
  if (p == 0) { _exit(17); }
  waitpid(p, &st, 0); mix((uint64_t)WEXITSTATUS(st)); mix(leaf(3));
  p = vfork();
  if (p == 0) { execl("/bin/true", "true", (char *)NULL); _exit(99); }
  waitpid(p, &st, 0); mix((uint64_t)WEXITSTATUS(st)); mix(leaf(4));
  mix((uint64_t)system("exit 5") >> 8);
  mix(leaf(5));
  report_to("main"); return (int)(dg % 90);
}
''',
    "sigs": r'''#include <signal.h>
#include <sys/time.h>
static volatile long ticks;
NOINL long hleaf(long x) { return x * 5 + 1; }
NOINL static void handler(int sig) { ticks += hleaf(1) - 5; }
NOINL double fleaf(double a, double b) { return a * b + 0.5; }
NOINL long leaf(long x) { return x * 3 + 1; }
NOINL long mid(long x) { return leaf(x) + leaf(x + 1) + (long)fleaf((double)x, 2.0); }
int main(void) {
  struct itimerval it = { { 0, 300 }, { 0, 300 } }; long i, s = 0;
  signal(SIGALRM, handler); setitimer(ITIMER_REAL, &it, NULL);
  for (i = 0; i < 60000; i++) { long r = mid(i); if (r != (i * 3 + 1) + (i * 3 + 4) + (long)(i * 2.0 + 0.5)) { mix(i); break; } s += r; }
  /* natively the loop above can be over before the first tick: keep calling traced functions until some signals have arrived */
  for (i = 0; ticks < 5; i = (i + 1) % 1000) { long r = mid(i); if (r != (i * 3 + 1) + (i * 3 + 4) + (long)(i * 2.0 + 0.5)) { mix(i + 100000); break; } }
  it.it_value.tv_usec = 0; it.it_interval.tv_usec = 0; setitimer(ITIMER_REAL, &it, NULL);
  mix(s); mix(ticks > 0);
  report_to("main"); return 9;
}
''',
    "pexit": r'''#include <pthread.h>
#include <signal.h>
NOINL long leaf(long x) { return x * 3 + 1; }
NOINL void deep_exit(long d) { if (d == 0) pthread_exit((void *)(intptr_t)leaf(20)); deep_exit(d - 1); }
static void *worker(void *a) { deep_exit((long)(intptr_t)a); return NULL; }
NOINL void die(long d) { if (d == 0) { report_to("before-raise"); raise(SIGTERM); } die(d - 1); }
int main(void) {
  pthread_t t; void *r; int i;
  for (i = 1; i < 4; i++) { pthread_create(&t, NULL, worker, (void *)(intptr_t)(i * 3)); pthread_join(t, &r); mix((uint64_t)(intptr_t)r); }
  report_to("main");
  die(4);
  return 0;
}
''',
    "ovf": r'''#include <pthread.h>
NOINL long leaf(long x) { return x * 3 + 1; }
NOINL void deep_exit(long d) { volatile long pad = d; if (d == 0) pthread_exit((void *)(intptr_t)leaf(20)); deep_exit(d - 1); mix(pad); }
static void *worker(void *a) { deep_exit((long)(intptr_t)a); return NULL; }
int main(void) {
  pthread_t t; void *r;
  pthread_create(&t, NULL, worker, (void *)(intptr_t)1500); pthread_join(t, &r); mix((uint64_t)(intptr_t)r);
  report_to("main");
  return 4;
}
''',
    "ovf2": r'''#include <sys/wait.h>
NOINL long leaf(long x) { return x * 3 + 1; }
NOINL long deep_fork(long d) { volatile long pad = d; if (d == 0) { int st; pid_t p = fork(); if (p == 0) { mix(leaf(1)); report_to("child"); _exit(7); } waitpid(p, &st, 0); return WEXITSTATUS(st) + leaf(2); } return deep_fork(d - 1) + (pad & 1); }
NOINL void deep_exit(long d) { volatile long pad = d; if (d == 0) { report_to("bottom"); exit(6); } deep_exit(d - 1); mix(pad); }
int main(void) { mix(deep_fork(40)); report_to("main"); deep_exit(40); return 0; }
''',
    # ---- traced code after thread teardown: libmcount's own key destructor (mtd_dtor) runs first (its key is the oldest),
    # then the program's instrumented destructors run in a thread the tracer has already torn down
    "tsd": r'''#include <pthread.h>
static pthread_key_t k1, k2;
static pthread_mutex_t lk = PTHREAD_MUTEX_INITIALIZER;
static uint64_t total; static int folded;
struct acc { uint64_t sum; int id; int again; };
NOINL uint64_t fold(uint64_t h, uint64_t v) { return (h ^ v) * 1099511628211ULL; }
NOINL double scale(double a, double b) { return a * b + 0.25; }
NOINL struct acc *my_acc(pthread_key_t k) { struct acc *a = pthread_getspecific(k); if (!a) { a = calloc(1, sizeof *a); pthread_setspecific(k, a); } return a; }
NOINL void work(int id, int n, int again) { struct acc *a = my_acc(k1); int i; a->id = id; a->again = again; for (i = 0; i < n; i++) a->sum = fold(a->sum, id * 1000 + i); }
NOINL void dtor1(void *p) { struct acc *a = p;
  pthread_mutex_lock(&lk); total += fold(a->sum, a->id + 16 * a->again); total += (uint64_t)scale((double)a->id, 3.0); folded++; pthread_mutex_unlock(&lk);
  if (a->again > 0) { a->again--; a->sum = fold(a->sum, 99); pthread_setspecific(k1, a); if (a->again == 1) my_acc(k2)->id = a->id; return; }
  free(a); }
NOINL void dtor2(void *p) { struct acc *a = p; pthread_mutex_lock(&lk); total += fold(7, a->id); folded += 10; pthread_mutex_unlock(&lk); free(a); }
NOINL void deep_exit(long d, int id) { if (d == 0) { work(id, 5, id & 3); pthread_exit((void *)(intptr_t)id); } deep_exit(d - 1, id); }
static void *worker(void *arg) { int id = (int)(intptr_t)arg; work(id, 40, id & 3); work(id, 20, id & 3); if (id >= 8) deep_exit(id - 6, id); return arg; }
int main(void) {
  pthread_t t[6]; void *r; long i;
  pthread_key_create(&k1, dtor1); pthread_key_create(&k2, dtor2);
  for (i = 0; i < 4; i++) { pthread_create(&t[0], NULL, worker, (void *)(intptr_t)i); pthread_join(t[0], &r); mix((uint64_t)(intptr_t)r); mix(total); mix(folded); }
  for (i = 0; i < 6; i++) pthread_create(&t[i], NULL, worker, (void *)(intptr_t)(i + 4));
  for (i = 0; i < 6; i++) { pthread_join(t[i], &r); mix((uint64_t)(intptr_t)r); }
  mix(total); mix(folded);
  report_to("main"); return (int)(dg % 60);
}
''',
    # a signal handler (instrumented) delivered to a thread while its thread-specific data is being destroyed, and during exit()
    "tsdsig": r'''#include <pthread.h>
#include <signal.h>
static pthread_key_t k1;
static volatile long hits; static uint64_t total;
NOINL long hleaf(long x) { return x * 5 + 1; }
NOINL static void handler(int sig) { __sync_fetch_and_add(&hits, hleaf(sig) - 5 * sig); }
NOINL long leaf(long x) { return x * 3 + 1; }
NOINL void dtor1(void *p) { long v = (long)(intptr_t)p; pthread_kill(pthread_self(), SIGUSR1); __sync_fetch_and_add(&total, (uint64_t)leaf(v));
  if (v & 1) pthread_setspecific(k1, (void *)(intptr_t)(v + 1)); }
static void *worker(void *arg) { pthread_setspecific(k1, arg); leaf(1); raise(SIGUSR1); return arg; }
NOINL static void bye(void) { raise(SIGUSR1); mix(hits); mix(leaf(9)); report_to("atexit"); }
__attribute__((destructor)) NOINL static void fini(void) { raise(SIGUSR1); mix(hits); report_to("fini"); }
int main(void) {
  pthread_t t[3]; void *r; long i;
  signal(SIGUSR1, handler); atexit(bye);
  pthread_key_create(&k1, dtor1);
  for (i = 0; i < 3; i++) pthread_create(&t[i], NULL, worker, (void *)(intptr_t)(i + 1));
  for (i = 0; i < 3; i++) pthread_join(t[i], &r);
  mix(total); mix(hits);
  report_to("main"); exit(11);
}
''',
    # C++ thread_local objects with instrumented destructors (run at thread exit before the key destructors) next to a key destructor
    "tlsdtor": r'''// c++
#include <pthread.h>
static pthread_mutex_t lk = PTHREAD_MUTEX_INITIALIZER;
static uint64_t total; static pthread_key_t k1;
NOINL uint64_t fold(uint64_t h, uint64_t v) { return (h ^ v) * 1099511628211ULL; }
struct Acc { uint64_t sum; int id; Acc() : sum(3), id(0) {} NOINL ~Acc() { pthread_mutex_lock(&lk); total += fold(sum, id); pthread_mutex_unlock(&lk); } };
static thread_local Acc acc; static thread_local Acc acc2;
NOINL void work(int id, int n) { acc.id = id; for (int i = 0; i < n; i++) acc.sum = fold(acc.sum, id * 100 + i); if (id & 1) acc2.id = id + 50; }
NOINL void kd(void *p) { pthread_mutex_lock(&lk); total += fold(11, (uint64_t)(intptr_t)p); pthread_mutex_unlock(&lk); }
static void *worker(void *arg) { int id = (int)(intptr_t)arg; work(id, 30); if (id & 2) pthread_setspecific(k1, arg); if (id == 4) pthread_exit(arg); return arg; }
int main(void) {
  pthread_t t[5]; void *r;
  pthread_key_create(&k1, kd);
  for (long i = 0; i < 5; i++) pthread_create(&t[i], NULL, worker, (void *)(intptr_t)(i + 1));
  for (long i = 0; i < 5; i++) { pthread_join(t[i], &r); mix((uint64_t)(intptr_t)r); }
  work(9, 3); mix(total);
  report_to("main"); return 12;
}
''',
    # ---- setjmp / longjmp (setjmp@plt is hooked; libmcount snapshots the shadow stack per jmp_buf and re-installs it when
    # longjmp lands): ONE jmp_buf re-armed at deeper / same / shallower call depth, several longjmps to one arming,
    # longjmp across 1..4 frames, two buffers nested, arming in main itself
    "jmp": r'''#include <setjmp.h>
static jmp_buf env, env2;
NOINL long leaf(long x) { mix(x); return x * 3 + 1; }
NOINL void thrower(jmp_buf *e, int depth, int val) { mix(depth); if (depth == 0) longjmp(*e, val); thrower(e, depth - 1, val); mix(999); }
NOINL long arm_at(int depth, int across, int val) {
  if (depth > 0) { long r = arm_at(depth - 1, across, val); return r + leaf(depth); }
  { volatile long acc = 0; int r = setjmp(env);
    if (r == 0) { acc += leaf(1); thrower(&env, across, val); }
    acc += r * 10; mix(acc); return acc + leaf(2); }
}
NOINL long multi(int n) { volatile int cnt = 0; volatile long acc = 0; int r = setjmp(env); acc += r;
  if (cnt < n) { cnt++; thrower(&env, cnt % 4 + 1, cnt + 1); } mix(acc); return acc + leaf(cnt); }
NOINL long inner(int across) { volatile long a = 1; int r = setjmp(env); if (r == 0) { a += leaf(4); thrower(&env2, across, 21); } return a + r; }
NOINL long mid(int d, int across) { if (d > 0) return mid(d - 1, across) + 1; return inner(across) + leaf(5); }
NOINL long outer(int d, int across) { volatile long a = 2; int r = setjmp(env2); if (r == 0) a += mid(d, across); else a += r * 3; mix(a); return a + leaf(6); }
int main(void) {
  int i;
  mix(arm_at(4, 2, 5)); mix(arm_at(4, 1, 6)); mix(arm_at(6, 3, 7)); mix(arm_at(0, 4, 8)); mix(arm_at(2, 1, 9)); mix(arm_at(1, 2, 3));
  mix(multi(5)); mix(outer(3, 2)); mix(arm_at(0, 1, 4)); mix(outer(0, 4)); mix(multi(2));
  for (i = 0; i < 4; i++) { volatile long a = 0; int r = setjmp(env); if (r == 0) { a = leaf(3 + i); thrower(&env, i + 1, 40 + i); } mix(a + r); }
  mix(arm_at(5, 4, 2)); mix(arm_at(0, 2, 1));
  report_to("main"); return 100 + (int)(dg % 7);
}
''',
    # sigsetjmp / siglongjmp out of an (instrumented) signal handler, the signal mask restored; the buffer re-armed at other depths
    "sigjmp": r'''#include <setjmp.h>
#include <signal.h>
static sigjmp_buf senv;
NOINL long hleaf(long x) { return x * 5 + 1; }
NOINL static void handler(int sig) { mix(hleaf(sig)); siglongjmp(senv, sig); }
NOINL long leaf(long x) { mix(x); return x * 3 + 1; }
NOINL void sink(int depth) { mix(depth); if (depth == 0) { raise(SIGUSR1); mix(12345); } sink(depth - 1); mix(777); }
NOINL long arm_at(int depth, int across, int savemask) {
  if (depth > 0) return arm_at(depth - 1, across, savemask) + leaf(depth);
  { volatile long acc = 0; sigset_t cur; int r = sigsetjmp(senv, savemask);
    if (r == 0) { acc += leaf(1); sink(across); }
    sigprocmask(SIG_BLOCK, NULL, &cur); acc += r + 100 * sigismember(&cur, SIGUSR1); mix(acc);
    if (!savemask) { sigemptyset(&cur); sigaddset(&cur, SIGUSR1); sigprocmask(SIG_UNBLOCK, &cur, NULL); }
    return acc + leaf(2); }
}
int main(void) {
  int i;
  signal(SIGUSR1, handler);
  mix(arm_at(3, 2, 1)); mix(arm_at(3, 1, 1)); mix(arm_at(5, 3, 1)); mix(arm_at(0, 4, 1)); mix(arm_at(1, 1, 0)); mix(arm_at(0, 2, 0));
  for (i = 0; i < 3; i++) { volatile long a = 0; int r = sigsetjmp(senv, 1); if (r == 0) { a = leaf(i); sink(i + 1); } mix(a + r); }
  report_to("main"); return 90 + (int)(dg % 9);
}
''',
    # ---- the descriptor table is shared with libmcount (pipe to uftrace, log stream, shared-memory files): everything the program
    # does to ITS descriptors - 0, 1, 2 and the ones it opened - must have the native result (return value, errno, lowest-free rule
    # where the data goes); a closefrom-style loop also hits libmcount's own descriptors, whose results are not digested
    "fds": r'''#include <fcntl.h>
#include <sys/stat.h>
NOINL long leaf(long x) { return x * 3 + 1; }
static void rv(long r) { mix((uint64_t)r); mix(r < 0 ? (uint64_t)errno : 0); }
int main(void) {
  char path[512]; struct stat st; int keep0, keep1, keep2, a, b, i;
  snprintf(path, sizeof path, "%s.err", getenv("VERIF_OUT") ? getenv("VERIF_OUT") : "c01fds");
  keep0 = dup(0); keep1 = dup(1); keep2 = dup(2); rv(keep0); rv(keep1); rv(keep2);      /* 3, 4, 5: lowest-free rule (fix C01-10) */
  /* the redirect idiom: close(2); open() */
  rv(close(2)); leaf(1);
  rv(open(path, O_WRONLY | O_CREAT | O_TRUNC, 0600));
  rv(write(2, "to-err-file\n", 12)); fprintf(stderr, "via stdio %d\n", (int)leaf(2)); fflush(stderr);
  rv(fstat(2, &st)); mix((uint64_t)st.st_size); mix(S_ISREG(st.st_mode));
  rv(close(2)); rv(close(2)); rv(fcntl(2, F_GETFD)); rv(write(2, "lost\n", 5));
  rv(dup2(keep2, 2)); rv(fcntl(2, F_GETFD));
  /* a daemon's start: close(0..2), reopen on /dev/null */
  for (i = 0; i < 3; i++) rv(close(i));
  leaf(3);
  rv(open("/dev/null", O_RDWR)); rv(dup(0)); rv(dup(0)); rv(write(1, "x", 1)); rv(write(2, "y", 1));
  for (i = 2; i >= 0; i--) rv(close(i));
  rv(close(1)); rv(dup(keep0)); rv(dup2(keep1, 1)); rv(dup2(keep2, 2)); rv(dup2(2, 2)); rv(dup2(77, 2));
  /* lowest-free rule and descriptor flags below 3 */
  rv(close(0)); rv(close(1)); rv(dup(keep1)); rv(dup(keep1)); rv(close(0)); rv(dup2(keep0, 0));
  rv(fcntl(0, F_SETFD, FD_CLOEXEC)); rv(fcntl(0, F_GETFD)); rv(fcntl(0, F_SETFD, 0)); rv(fcntl(0, F_GETFD));
  rv(close(1)); rv(fcntl(keep1, F_DUPFD, 0)); rv(close(-1));
  /* closefrom(3)-style loop: only the results for OUR descriptors count */
  a = open("/dev/null", O_RDONLY); b = dup(a); rv(a); rv(b);
  for (i = 3; i < 64; i++) { int r = close(i); if (i == a || i == b || i == keep0 || i == keep1 || i == keep2) rv(r); }
  rv(fstat(a, &st)); rv(fstat(keep2, &st)); rv(close(b));
  for (i = 0; i < 3; i++) rv(fcntl(i, F_GETFD));
  mix(leaf(5));
  if (stat(path, &st) == 0) mix((uint64_t)st.st_size);
  unlink(path);
  report_to("main"); return 20 + (int)(dg % 30);
}
''',
}


def source(name):
    return COMMON + SCENARIOS[name]


# option sets that make sense for a scenario (names of props/c01.py option_sets) and whether it needs a deep stack
PLAN = {
    "exitdeep": ["plain", "nest-libcall", "depth", "estimate-return", "max-stack", "script"],
    "deeprec": ["plain", "max-stack", "estimate-return", "small-buffer", "time"],
    "fenv": ["plain", "script-fp", "args", "read-trigger", "auto-args", "small-buffer"],
    "forks": ["plain", "nest-libcall", "no-libcall", "max-stack", "estimate-return", "depth"],
    "sigs": ["plain", "small-buffer", "depth", "estimate-return", "script"],
    "pexit": ["plain", "max-stack", "nest-libcall", "estimate-return"],
    "ovf": ["plain", "max-stack-64", "nest-libcall", "estimate-return"],
    "ovf2": ["max-stack-16", "max-stack-16-l", "plain"],
    "tsd": ["plain", "nest-libcall", "estimate-return", "max-stack", "script", "args", "small-buffer", "time"],
    "tsdsig": ["plain", "nest-libcall", "estimate-return", "small-buffer", "depth"],
    "tlsdtor": ["plain", "nest-libcall", "estimate-return", "script", "no-libcall"],
    "jmp": ["plain", "nest-libcall", "estimate-return", "max-stack", "script", "depth", "time", "args"],
    "sigjmp": ["plain", "nest-libcall", "estimate-return", "script", "depth", "small-buffer"],
    "fds": ["plain", "no-libcall", "nest-libcall", "estimate-return", "script", "args", "small-buffer", "logfile", "libargs"],
}

