"""C01 end-to-end scenario programs (clause audit of the property text): exit paths (exit() deep in a call chain with
instrumented atexit handlers, pthread_exit, death by signal), call depth beyond --max-stack, the floating-point environment
(rounding mode, sticky exception flags), fork / vfork / exec / system, asynchronous signals with an instrumented handler.
Every program appends `DIGEST <tag> <hex>` lines to stdout and to the private file $VERIF_OUT."""

COMMON = r'''#define _GNU_SOURCE
#include <stdio.h>
#include <stdlib.h>
#include <string.h>
#include <stdint.h>
#include <errno.h>
#include <unistd.h>
#define NOINL __attribute__((noinline))
static uint64_t dg = 1469598103934665603ULL;
static inline __attribute__((always_inline)) void mix(uint64_t v) { dg = (dg ^ v) * 1099511628211ULL; }
static void report_to(const char *tag)
{
  char line[128]; FILE *of;
  snprintf(line, sizeof line, "DIGEST %s %016llx\n", tag, (unsigned long long)dg);
  fputs(line, stdout); fflush(stdout);
  if (getenv("VERIF_OUT") && (of = fopen(getenv("VERIF_OUT"), "a")) != NULL) { fputs(line, of); fclose(of); }
}
'''

SCENARIOS = {
    "exitdeep": r'''NOINL static void bye(void) { mix(77); report_to("atexit1"); }
NOINL static void bye2(void) { mix(78); report_to("atexit2"); }
NOINL long leaf(long x) { mix(x); return x * 3; }
NOINL long rec(long d) { mix(d); if (d == 0) { leaf(5); report_to("deep"); exit(42); } return rec(d - 1) + leaf(d); }
int main(void) { atexit(bye); atexit(bye2); mix(rec(7)); report_to("notreached"); return 1; }
''',
    "deeprec": r'''NOINL long down(long d, long acc) { volatile long pad = acc; if (d == 0) return pad + 1; return down(d - 1, acc * 3 + d) + (pad & 7); }
int main(void) { long r = down(3000, 1); mix(r); r = down(1500, 2); mix(r); report_to("main"); return (int)(dg % 50); }
''',
    "fenv": r'''#include <fenv.h>
#include <math.h>
NOINL double work(double a, double b) { volatile double x = a / b; return x + 1e-30; }
NOINL long leafi(long x) { return x + 1; }
int main(void) {
  int i;
  fesetround(FE_UPWARD);
  for (i = 0; i < 50; i++) { feclearexcept(FE_ALL_EXCEPT); leafi(i); mix((uint64_t)fetestexcept(FE_ALL_EXCEPT)); mix((uint64_t)fegetround()); }
  { double r = work(1.0, 3.0); uint64_t b; memcpy(&b, &r, 8); mix(b); mix((uint64_t)fegetround()); }
  fesetround(FE_TOWARDZERO);
  { double r = work(2.0, 3.0); uint64_t b; memcpy(&b, &r, 8); mix(b); mix((uint64_t)fegetround()); }
  feclearexcept(FE_ALL_EXCEPT); leafi(3); mix((uint64_t)fetestexcept(FE_ALL_EXCEPT));
  report_to("main"); return 3;
}
''',
    "forks": r'''#include <sys/wait.h>
NOINL long leaf(long x) { mix(x); return x * 7 + 1; }
NOINL long child_work(long x) { long i, s = 0; for (i = 0; i < 5; i++) s += leaf(x + i); return s; }
int main(void) {
  int st; pid_t p;
  mix(leaf(1));
  p = fork();
  if (p == 0) { mix(child_work(10)); report_to("child"); _exit((int)(dg % 100)); }
  waitpid(p, &st, 0); mix((uint64_t)WEXITSTATUS(st)); mix(leaf(2));
  p = vfork();
  if (p == 0) { _exit(17); }
  waitpid(p, &st, 0); mix((uint64_t)WEXITSTATUS(st)); mix(leaf(3));
  p = vfork();
  if (p == 0) { execl("/bin/true", "true", (char *)NULL); _exit(99); }
  waitpid(p, &st, 0); mix((uint64_t)WEXITSTATUS(st)); mix(leaf(4));
  mix((uint64_t)system("exit 5") >> 8);
  mix(leaf(5));
  report_to("main"); return (int)(dg % 90);
}
''',
    "sigs": r'''#include <signal.h>
#include <sys/time.h>
static volatile long ticks;
NOINL long hleaf(long x) { return x * 5 + 1; }
NOINL static void handler(int sig) { ticks += hleaf(1) - 5; }
NOINL double fleaf(double a, double b) { return a * b + 0.5; }
NOINL long leaf(long x) { return x * 3 + 1; }
NOINL long mid(long x) { return leaf(x) + leaf(x + 1) + (long)fleaf((double)x, 2.0); }
int main(void) {
  struct itimerval it = { { 0, 300 }, { 0, 300 } }; long i, s = 0;
  signal(SIGALRM, handler); setitimer(ITIMER_REAL, &it, NULL);
  for (i = 0; i < 60000; i++) { long r = mid(i); if (r != (i * 3 + 1) + (i * 3 + 4) + (long)(i * 2.0 + 0.5)) { mix(i); break; } s += r; }
  it.it_value.tv_usec = 0; it.it_interval.tv_usec = 0; setitimer(ITIMER_REAL, &it, NULL);
  mix(s); mix(ticks > 0);
  report_to("main"); return 9;
}
''',
    "pexit": r'''#include <pthread.h>
#include <signal.h>
NOINL long leaf(long x) { return x * 3 + 1; }
NOINL void deep_exit(long d) { if (d == 0) pthread_exit((void *)(intptr_t)leaf(20)); deep_exit(d - 1); }
static void *worker(void *a) { deep_exit((long)(intptr_t)a); return NULL; }
NOINL void die(long d) { if (d == 0) { report_to("before-raise"); raise(SIGTERM); } die(d - 1); }
int main(void) {
  pthread_t t; void *r; int i;
  for (i = 1; i < 4; i++) { pthread_create(&t, NULL, worker, (void *)(intptr_t)(i * 3)); pthread_join(t, &r); mix((uint64_t)(intptr_t)r); }
  report_to("main");
  die(4);
  return 0;
}
''',
    "ovf": r'''#include <pthread.h>
NOINL long leaf(long x) { return x * 3 + 1; }
NOINL void deep_exit(long d) { volatile long pad = d; if (d == 0) pthread_exit((void *)(intptr_t)leaf(20)); deep_exit(d - 1); mix(pad); }
static void *worker(void *a) { deep_exit((long)(intptr_t)a); return NULL; }
int main(void) {
  pthread_t t; void *r;
  pthread_create(&t, NULL, worker, (void *)(intptr_t)1500); pthread_join(t, &r); mix((uint64_t)(intptr_t)r);
  report_to("main");
  return 4;
}
''',
    "ovf2": r'''#include <sys/wait.h>
NOINL long leaf(long x) { return x * 3 + 1; }
NOINL long deep_fork(long d) { volatile long pad = d; if (d == 0) { int st; pid_t p = fork(); if (p == 0) { mix(leaf(1)); report_to("child"); _exit(7); } waitpid(p, &st, 0); return WEXITSTATUS(st) + leaf(2); } return deep_fork(d - 1) + (pad & 1); }
NOINL void deep_exit(long d) { volatile long pad = d; if (d == 0) { report_to("bottom"); exit(6); } deep_exit(d - 1); mix(pad); }
int main(void) { mix(deep_fork(40)); report_to("main"); deep_exit(40); return 0; }
''',
}


def source(name):
    return COMMON + SCENARIOS[name]


# option sets that make sense for a scenario (names of props/c01.py option_sets) and whether it needs a deep stack
PLAN = {
    "exitdeep": ["plain", "nest-libcall", "depth", "estimate-return", "max-stack", "script"],
    "deeprec": ["plain", "max-stack", "estimate-return", "small-buffer", "time"],
    "fenv": ["plain", "script-fp", "args", "read-trigger", "auto-args", "small-buffer"],
    "forks": ["plain", "nest-libcall", "no-libcall", "max-stack", "estimate-return", "depth"],
    "sigs": ["plain", "small-buffer", "depth", "estimate-return", "script"],
    "pexit": ["plain", "max-stack", "nest-libcall", "estimate-return"],
    "ovf": ["plain", "max-stack-64", "nest-libcall", "estimate-return"],
    "ovf2": ["max-stack-16", "max-stack-16-l", "plain"],
}

