"""C08 - Report statistics are exact sums over the trace.

Theorems: coq/theories/Properties_C08.v over coq/theories/C08/Model.v (per-task accumulation
automaton of utils/fstack.c + cmds/report.c, node table / avg / sort / diff of utils/report.c,
time formatting of utils/debug.c).

Tie (every run, on /repo's current tree):
  * in-process: harness/c/c08_harness.c #includes cmds/report.c and is linked with the scratch build's
    objects; it runs the real build_function_tree/report_calc_avg/report_sort_nodes on generated data
    directories and dumps every counted report_update_node(), the node table in ns and the row order for
    several -s key lists.  Coq (vm_compute) compares rows, table and orders with the model and applies the
    property checker (ok_table against the generating call forest, ok_sorted) to the implementation's output.
  * end-to-end: the real `uftrace report` (default, -s, -f, --avg-total/--avg-self, --task, --diff) on the
    same directories; stdout is parsed, compared with the model's formatting and judged by ok_stdout.
"""
import os
import re
import shutil

from vf import build, coq, datadir
from vf.core import sh
from vf.forest import Call, gen_shape

ENTRY, EXIT, LOST = 0, 1, 2
BASE = 0x400000
KEYS = ["total", "total_avg", "total_min", "total_max", "self", "self_avg", "self_min", "self_max", "call", "func"]
FIELDS = ["total", "total-avg", "total-min", "total-max", "self", "self-avg", "self-min", "self-max", "call"]
NAME_POOL = ["main", "alpha", "beta", "gamma", "delta", "eps", "zeta", "eta", "theta", "iota"]


# ---------------------------------------------------------------- generator
class Fn:
    """an abstract function of a generated program: absolute address and printed name"""
    __slots__ = ("addr", "name")

    def __init__(self, addr, name):
        self.addr, self.name = addr, name


def gen_program(rng, tags):
    """symbol table + functions.  Boundaries: same name at two symbols, two addresses inside one
    symbol, an address outside every symbol."""
    n = rng.randrange(2, 7)
    names = rng.sample(NAME_POOL, n)
    syms, fns = [], []
    sizes = {}
    for i, nm in enumerate(names):
        sizes[nm] = rng.choice((0x40, 0x80, 0x80, 0xc0))       # the Size column / -s size
        syms.append((0x1000 + 0x100 * i, sizes[nm], "T", nm))
        fns.append(Fn(BASE + 0x1000 + 0x100 * i, nm))
    r = rng.random()
    if r < 0.25:        # a second symbol with an existing name (static functions of two files)
        nm = rng.choice(names)
        syms.append((0x1000 + 0x100 * n, sizes[nm], "t", nm))
        fns.append(Fn(BASE + 0x1000 + 0x100 * n, nm))
        tags.append("same-name-two-symbols")
    elif r < 0.4:       # a second address inside an existing symbol
        k = rng.randrange(n)
        fns.append(Fn(fns[k].addr + 8, fns[k].name))
        tags.append("two-addrs-one-symbol")
    elif r < 0.5:       # no symbol at all: printed as <addr>
        a = BASE + 0x9000 + 0x10 * rng.randrange(4)
        fns.append(Fn(a, "<%x>" % a))
        tags.append("unknown-address")
    return syms, fns


def gen_times(rng, forest, t0, scale, zero_bias):
    gaps = (0, 0, 1, 2, 5, 50, 333) if zero_bias else (1, 2, 3, 5, 50, 333, 1000)
    if scale >= 6 * 10 ** 10:
        gaps = (0, 1, 2, 5, 20, 47)          # minutes: figures up to a few hundred hours (below the 999 h cap)
    clock = [t0]

    def go(c):
        clock[0] += rng.choice(gaps) * scale
        c.t0 = clock[0]
        for k in c.kids:
            go(k)
        clock[0] += rng.choice(gaps) * scale
        c.t1 = clock[0]
    for c in forest:
        go(c)


def flat_recs(forest, fns, d0=0):
    out = []

    def go(c, d):
        out.append((ENTRY, d, fns[c.k].addr, c.t0))
        for k in c.kids:
            go(k, d + 1)
        out.append((EXIT, d, fns[c.k].addr, c.t1))
    for c in forest:
        go(c, d0)
    return out


def truth_of_prefix(recs):
    """parse a prefix of a well-nested record list (starting at depth 0) into
    (done calls, chain of open frames); a call is [addr, t0, t1, kids]"""
    root = {"kids": []}
    stack = [root]
    for ty, d, a, t in recs:
        if ty == ENTRY:
            fr = {"a": a, "t0": t, "kids": []}
            stack.append(fr)
        else:
            fr = stack.pop()
            stack[-1]["kids"].append([fr["a"], fr["t0"], t, fr["kids"]])
    done = root["kids"]
    opened = [(fr["a"], fr["t0"], fr["kids"]) for fr in stack[1:]]
    return done, opened


def truth_of_suffix(recs, ti=0):
    """data that starts at depth > 0 (fork child, first buffers lost): the frames open at the first record are
    inherited - in the ground truth they are calls whose ENTRY address is 0 (unknown: never recursive), entered
    at the first record's time and named by their EXIT record (<0> when they never exit).
    A call is [a, t0, t1, kids] or, for an inherited frame, [0, a, t0, t1, kids]; returns (done, opened, k)"""
    ty0, d0, _, t_first = recs[0]
    k = d0 + (1 if ty0 == EXIT else 0)
    root = {"kids": []}
    stack = [root]
    for lvl in range(k):
        stack.append({"a": 0, "t0": t_first, "kids": [], "inh": True})
    for ty, d, a, t in recs:
        if ty == ENTRY:
            stack.append({"a": a, "t0": t, "kids": []})
        else:
            fr = stack.pop()
            if fr.get("inh"):
                stack[-1]["kids"].append([0, a, fr["t0"], t, fr["kids"]])
            else:
                stack[-1]["kids"].append([fr["a"], fr["t0"], t, fr["kids"]])
    done = root["kids"]
    opened = [(fr["a"], fr["t0"], fr["kids"]) for fr in stack[1:]]
    return done, opened, k


def mark_lost(rng, forest, fns, tags):
    """records of the forest with LOST markers where whole calls were dropped (the depth fields of the surviving
    records agree with the nesting): markers before the first record, between siblings (replacing 0-2 complete
    calls), doubled; the ground truth is the forest of the surviving records"""
    out = []

    def lost(n):
        out.append((LOST, 0, max(n, 1), 0))
        tags.append("marker")
        if rng.random() < 0.2:
            out.append((LOST, 0, 1, 0))
            tags.append("marker-doubled")

    def size(c):
        return 1 + sum(size(k) for k in c.kids)

    def seq(cs, d):
        i = 0
        while i < len(cs):
            r = rng.random()
            if r < 0.15:
                n = rng.randrange(0, 3)
                lost(2 * sum(size(c) for c in cs[i:i + n]))
                if n:
                    tags.append("marker-dropped-calls")
                i += n
                continue
            c = cs[i]
            out.append((ENTRY, d, fns[c.k].addr, c.t0))
            if rng.random() < 0.1:
                lost(0)
                tags.append("marker-after-entry")
            seq(c.kids, d + 1)
            if rng.random() < 0.1:
                lost(0)
                tags.append("marker-before-exit")
            out.append((EXIT, d, fns[c.k].addr, c.t1))
            i += 1
    if rng.random() < 0.2:
        lost(0)
        tags.append("marker-first")
    seq(forest, 0)
    return out


def has_recursion(forest, fns, mutual=False):
    def go(c, anc):
        a = fns[c.k].addr
        if a in anc and (not mutual or anc[-1] != a):
            return True
        return any(go(k, anc + [a]) for k in c.kids)
    return any(go(c, []) for c in forest)


def gen_case(ctx, idx, program=None, kind=None):
    rng = ctx.rng
    tags = []
    if program is None:
        syms, fns = gen_program(rng, tags)
    else:
        syms, fns = program[0], [Fn(a, n) for a, n in program[1]]
    ntask = rng.choice([1, 1, 2, 2, 3, 4])
    kind = kind or rng.choice(["forest"] * 6 + ["lost", "marked", "marked", "suffix", "extra-exit", "overflow"])
    scale = rng.choice([1] * 8 + [1000, 10 ** 6, 10 ** 9, 6 * 10 ** 10])
    big = ctx.thorough() and rng.random() < 0.1
    max_stack = 1024
    if kind == "overflow":
        max_stack = rng.randrange(1, 4)
    tasks = []
    for ti in range(ntask):
        small = scale >= 6 * 10 ** 10
        ncalls = rng.randrange(1, 9 if small else (60 if big else 22))
        forest = gen_shape(rng, len(fns), ncalls, rng.randrange(1, 7), wide=rng.choice([2, 3, 5]))
        gen_times(rng, forest, 1000 + rng.randrange(0, 400) * scale, scale, rng.random() < 0.5)
        recs = flat_recs(forest, fns)
        if has_recursion(forest, fns):
            tags.append("direct-or-mutual-recursion")
        if has_recursion(forest, fns, mutual=True):
            tags.append("mutual-recursion")
        if any(r[0] == EXIT and any(e[0] == ENTRY and e[3] == r[3] and e[2] == r[2] for e in recs) for r in recs):
            tags.append("zero-duration-call")
        truth = None
        if kind == "marked":
            recs = mark_lost(rng, forest, fns, tags)
        if kind in ("forest", "marked", "extra-exit", "overflow") and rng.random() < 0.45 and len(recs) > 2:
            recs = recs[:rng.randrange(1, len(recs))]
            tags.append("open-at-end")
        if kind == "marked":
            while recs and recs[-1][0] == LOST:        # a marker as the last record: the "lost" kind
                recs = recs[:-1]
            if not recs:
                recs = flat_recs(forest, fns)
        if kind in ("forest", "marked"):
            truth = truth_of_prefix([r for r in recs if r[0] != LOST])
            if truth[1]:
                tags.append("open-depth-%d" % min(len(truth[1]), 3))
        elif kind == "lost":
            # LOST records as libmcount writes them (time 0, addr = number lost), a chunk of the
            # following records is missing
            for _ in range(rng.randrange(1, 3)):
                p = rng.randrange(0, len(recs) + 1)
                drop = rng.randrange(0, 4)
                lost = (LOST, 0, max(drop, 1), 0 if rng.random() < 0.8 else (recs[min(p, len(recs) - 1)][3]))
                recs = recs[:p] + [lost] + recs[p + drop:]
            tags.append("lost-marker")
            if recs[-1][0] == LOST:
                tags.append("lost-last")
        elif kind == "suffix":
            recs = recs[rng.randrange(1, max(2, len(recs) - 1)):]
            if recs:
                tags.append("starts-at-depth>0" if recs[0][1] > 0 or recs[0][0] == EXIT else "suffix-depth0")
                if recs[0][0] == EXIT:
                    tags.append("starts-with-exit")
                truth = truth_of_suffix(recs, ti)
                if any(o[0] == 0 for o in truth[1]):
                    tags.append("inherited-frame-never-exits")
                tags.append("inherited-%d" % min(truth[2], 3))
        elif kind == "extra-exit":
            t = recs[-1][3] + 7 * scale
            d, _ = truth_of_prefix(recs)
            if not _:      # only after a complete forest: stack_count is 0
                recs = recs + [(EXIT, 0, fns[0].addr, t)]
                tags.append("exit-at-stack-0")
        elif kind == "overflow":
            tags.append("max-stack-%d" % max_stack)
        if not recs:
            recs = [(ENTRY, 0, fns[0].addr, 2000), (EXIT, 0, fns[0].addr, 2100)]
        tasks.append({"tid": 100 + ti, "recs": recs, "truth": truth})
    if ntask > 1:
        tags.append("tasks>1")
    if scale > 1:
        tags.append("scale-minutes" if scale >= 6 * 10 ** 10 else "scale-1e%d" % len(str(scale)[1:]))
    return {"idx": idx, "kind": kind, "max_stack": max_stack, "syms": syms, "fns": [(f.addr, f.name) for f in fns],
            "tasks": tasks, "tags": sorted(set(tags))}


CORPUS = [
    # hand-made boundary cases (fns index -> name); times in ns
    {"kind": "forest", "max_stack": 1024, "tags": ["corpus:recursion+zero+open"],
     "syms": [(0x1000, 0x80, "T", "main"), (0x1100, 0x80, "T", "alpha"), (0x1200, 0x80, "T", "beta"),
              (0x1300, 0x80, "T", "gamma")],
     "fns": [(BASE + 0x1000, "main"), (BASE + 0x1100, "alpha"), (BASE + 0x1200, "beta"), (BASE + 0x1300, "gamma")],
     "tasks": [
         {"tid": 100, "forest": [[0, 1000, 9000, [[1, 1100, 1500, [[1, 1200, 1300, []]]], [2, 2000, 2000, []],
                                                     [1, 3000, 3500, [[2, 3100, 3200, [[1, 3150, 3160, []]]]]]]]]},
         {"tid": 101, "forest": [[0, 1050, 8000, [[3, 1100, 7000, [[2, 5000, 7000, []]]]]]], "cut": 4},
     ]},
    # LOST while main is the innermost open call (its child time gets +1), then the data ends at main's own
    # start time: add_remaining_fstack must clamp total up to child (found by a surviving mutant)
    {"kind": "lost", "max_stack": 1024, "tags": ["corpus:remaining-clamp"],
     "syms": [(0x1000, 0x80, "T", "main"), (0x1100, 0x80, "T", "alpha")],
     "fns": [(BASE + 0x1000, "main"), (BASE + 0x1100, "alpha")],
     "tasks": [{"tid": 100, "recs": [(ENTRY, 0, BASE + 0x1000, 1000), (LOST, 0, 1, 0), (ENTRY, 1, BASE + 0x1100, 1000)]}]},
    # the data of a forked child: only the EXITs of the inherited frames (see C08_inherited_frames_refuted)
    {"kind": "suffix", "max_stack": 1024, "tags": ["corpus:fork-child"],
     "syms": [(0x1000, 0x80, "T", "main"), (0x1100, 0x80, "T", "work"), (0x1200, 0x80, "T", "fork")],
     "fns": [(BASE + 0x1000, "main"), (BASE + 0x1100, "work"), (BASE + 0x1200, "fork")],
     "tasks": [{"tid": 100, "suffix_truth": True,
                "recs": [(ENTRY, 0, BASE + 0x1000, 1000), (ENTRY, 1, BASE + 0x1100, 1100),
                         (ENTRY, 2, BASE + 0x1200, 1200), (EXIT, 2, BASE + 0x1200, 1300),
                         (EXIT, 1, BASE + 0x1100, 1400), (EXIT, 0, BASE + 0x1000, 1500)]},
               {"tid": 101, "suffix_truth": True,
                "recs": [(EXIT, 2, BASE + 0x1200, 1310), (EXIT, 1, BASE + 0x1100, 2310),
                         (EXIT, 0, BASE + 0x1000, 3310)]}]},
    # 30 and 90 minutes (fixed: hours-are-minutes-over-24)
    {"kind": "forest", "max_stack": 1024, "tags": ["corpus:hours"],
     "syms": [(0x1000, 0x80, "T", "main"), (0x1100, 0x80, "T", "work")],
     "fns": [(BASE + 0x1000, "main"), (BASE + 0x1100, "work")],
     "tasks": [{"tid": 100, "forest": [[0, 1000, 3000 + 90 * 60 * 10 ** 9, [[1, 2000, 2000 + 30 * 60 * 10 ** 9, []]]]]}]},
    # the witness of the known finding lost-after-inherited-wrap (compared with the model like any other case;
    # the finding itself is reported through ctx.known_finding)
    {"kind": "lost", "max_stack": 1024, "tags": ["corpus:lost-after-inherited-wrap"],
     "syms": [(0x1000, 0x80, "T", "main"), (0x1100, 0x80, "T", "a"), (0x1200, 0x80, "T", "b")],
     "fns": [(BASE + 0x1000, "main"), (BASE + 0x1100, "a"), (BASE + 0x1200, "b")],
     "tasks": [{"tid": 100, "recs": [(LOST, 0, 1, 0), (EXIT, 2, BASE + 0x1200, 1300), (EXIT, 1, BASE + 0x1100, 1400),
                                     (ENTRY, 1, BASE + 0x1100, 1500), (LOST, 0, 1, 0), (EXIT, 0, BASE + 0x1000, 1900)]}]},
]
CORPUS.append(
    # fixed c76be09: every LOST marker took 1 ns from the Self time of the innermost open call
    {"kind": "marked", "max_stack": 1024, "tags": ["corpus:lost-marker-1ns"],
     "syms": [(0x1000, 0x80, "T", "main"), (0x1100, 0x80, "T", "work")],
     "fns": [(BASE + 0x1000, "main"), (BASE + 0x1100, "work")],
     "tasks": [{"tid": 100, "marked_truth": True,
                "recs": [(ENTRY, 0, BASE + 0x1000, 1000), (ENTRY, 1, BASE + 0x1100, 1100), (LOST, 0, 1, 0),
                         (EXIT, 1, BASE + 0x1100, 1900), (LOST, 0, 1, 0), (EXIT, 0, BASE + 0x1000, 2000)]}]})
CORPUS.append(
    # fixed 5fe3294 / b241d75 / a863f9f: the stdv column (zero mean, calls longer than 4.29 s, sigma/mean)
    {"kind": "forest", "max_stack": 1024, "tags": ["corpus:stdv"],
     "syms": [(0x1000, 0x80, "T", "main"), (0x1100, 0x80, "T", "work"), (0x1200, 0x80, "T", "zero"), (0x1300, 0x80, "T", "big")],
     "fns": [(BASE + 0x1000, "main"), (BASE + 0x1100, "work"), (BASE + 0x1200, "zero"), (BASE + 0x1300, "big")],
     "tasks": [{"tid": 100, "forest": [[0, 1000, 11 * 10 ** 9 + 5000,
                                        [[1, 2000, 2100, []], [1, 2200, 2500, []], [2, 2600, 2600, []], [2, 2700, 2700, []],
                                         [3, 3000, 3000 + 5 * 10 ** 9, []], [3, 4000 + 5 * 10 ** 9, 4000 + 11 * 10 ** 9, []]]]]}]})
CORPUS.append(
    # known finding lost-in-inherited-data: a LOST marker in data that starts at depth > 0 (user_stack_count was
    # never set to the inherited depth) closes the innermost open call with 1 ns and counts it twice
    {"kind": "lost", "max_stack": 1024, "tags": ["corpus:lost-in-inherited-data"],
     "syms": [(0x1000, 0x80, "T", "main"), (0x1100, 0x80, "T", "work"), (0x1200, 0x80, "T", "leaf"), (0x1300, 0x80, "T", "fork")],
     "fns": [(BASE + 0x1000, "main"), (BASE + 0x1100, "work"), (BASE + 0x1200, "leaf"), (BASE + 0x1300, "fork")],
     "tasks": [{"tid": 100, "recs": [(EXIT, 1, BASE + 0x1300, 1310), (ENTRY, 1, BASE + 0x1100, 1400),
                                     (ENTRY, 2, BASE + 0x1200, 1500), (LOST, 0, 1, 0), (EXIT, 2, BASE + 0x1200, 1800),
                                     (EXIT, 1, BASE + 0x1100, 1900), (EXIT, 0, BASE + 0x1000, 2000)]}]})
CORPUS.append(
    # seed C08-5 / fixes 434cc50, 29f6519: --diff OTHER with functions faster, slower, unchanged and missing
    {"kind": "forest", "max_stack": 1024, "tags": ["corpus:diff-pair"],
     "syms": [(0x1000 + 0x100 * i, 0x80, "T", n) for i, n in enumerate(["main", "alpha", "beta", "gamma", "delta", "eps"])],
     "fns": [(BASE + 0x1000 + 0x100 * i, n) for i, n in enumerate(["main", "alpha", "beta", "gamma", "delta", "eps"])],
     "tasks": [{"tid": 100, "forest": [[0, 1000, 63000, [[1, 2000, 12000, []], [2, 13000, 33000, []], [3, 34000, 44000, []],
                                                          [4, 45000, 50000, []], [5, 51000, 52000, []]]]]}],
     "other_tasks": [{"tid": 100, "forest": [[0, 1000, 50000, [[1, 2000, 20000, []], [2, 21000, 25000, []], [3, 26000, 33000, []],
                                                                [4, 34000, 39000, []]]]]}]})
WITNESS_LOST_INHERITED = "corpus:lost-in-inherited-data"
WITNESS_LOST_WRAP = "corpus:lost-after-inherited-wrap"


def corpus_cases():
    out = []
    for i, c in enumerate(CORPUS):
        fns = [Fn(a, n) for a, n in c["fns"]]
        tasks = []
        for t in c["tasks"]:
            if "recs" in t:
                tr = truth_of_suffix(list(t["recs"]), len(tasks)) if t.get("suffix_truth") else None
                if t.get("marked_truth"):
                    tr = truth_of_prefix([r for r in t["recs"] if r[0] != LOST])
                tasks.append({"tid": t["tid"], "recs": list(t["recs"]), "truth": tr})
                continue
            recs = flat_recs([Call.from_json(j) for j in t["forest"]], fns)
            if t.get("cut"):
                recs = recs[:t["cut"]]
            tasks.append({"tid": t["tid"], "recs": recs, "truth": truth_of_prefix(recs)})
        case = {"idx": i, "kind": c["kind"], "max_stack": c["max_stack"], "syms": c["syms"], "fns": c["fns"],
                "tasks": tasks, "tags": c["tags"]}
        if c.get("other_tasks"):
            ot = []
            for t in c["other_tasks"]:
                recs = flat_recs([Call.from_json(j) for j in t["forest"]], fns)
                ot.append({"tid": t["tid"], "recs": recs, "truth": truth_of_prefix(recs)})
            case["other"] = {"idx": -1, "kind": "forest", "max_stack": c["max_stack"], "syms": c["syms"], "fns": c["fns"],
                             "tasks": ot, "tags": ["other:corpus"]}
        out.append(case)
    return out


# ---------------------------------------------------------------- names
def name_table(case):
    """every name that can be printed for this case, numbered in strcmp (byte) order from 1;
    addr -> number for every address occurring in the records (and 0: untouched slots)"""
    addrs = {0}
    for t in case["tasks"]:
        for r in t["recs"]:
            if r[0] != LOST:
                addrs.add(r[2])

    def nm(a):
        rel = a - BASE
        for sa, sz, _, n in case["syms"]:
            if sa <= rel < sa + sz:
                return n
        return "<%x>" % a
    amap = {a: nm(a) for a in addrs}
    allnames = sorted(set(amap.values()) | set(s[3] for s in case["syms"]), key=lambda s: s.encode())
    num = {n: i + 1 for i, n in enumerate(allnames)}
    return {a: num[n] for a, n in amap.items()}, num, amap


# ---------------------------------------------------------------- implementation runs
def write_case(case, d):
    if os.path.exists(d):
        shutil.rmtree(d)
    desc = {"syms": case["syms"], "base": BASE, "max_stack": case["max_stack"],
            "tasks": [{"tid": t["tid"], "pid": 100,
                       "recs": [{"t": r[3], "type": r[0], "depth": r[1], "addr": r[2]} for r in t["recs"]]}
                      for t in case["tasks"]]}
    datadir.write(desc, d)
    return d


def merge_order(case):
    """read_user_stack: the task whose current record has the smallest time, lowest index on ties"""
    ptr = [0] * len(case["tasks"])
    order = []
    while True:
        best = None
        for i, t in enumerate(case["tasks"]):
            if ptr[i] < len(t["recs"]):
                tm = t["recs"][ptr[i]][3]
                if best is None or tm < best[0]:
                    best = (tm, i)
        if best is None:
            return order
        order.append(best[1])
        ptr[best[1]] += 1


def run_harness(exe, d, keysets):
    rc, out, err = sh(["timeout", "30", exe, d] + [",".join(k) for k in keysets], timeout=40)
    res = {"rows": {}, "grows": [], "nodes": [], "sorts": [], "fsorts": [], "stdv": [], "ok": False,
           "raw": out[-2000:], "err": err[-500:], "rc": rc}
    for line in out.splitlines():
        p = line.split()
        if not p:
            continue
        if p[0] == "U":
            res["rows"].setdefault(int(p[1]), []).append((p[2], int(p[3]), int(p[4]), p[5] == "1"))
            res["grows"].append((p[2], int(p[3]), int(p[4]), p[5] == "1"))
        elif p[0] == "N":
            res["nodes"].append((p[1],) + tuple(int(x) for x in p[2:13]))
            res["stdv"].append((p[1], p[13], p[14]))
        elif p[0] == "S":
            if p[1] in ("total_stdv", "self_stdv"):
                res["fsorts"].append((p[1] == "total_stdv", p[2:]))
            else:
                res["sorts"].append((p[1].split(","), p[2:]))
        elif p[0] == "E" and p[1] == "ok":
            res["ok"] = True
    return res


TIME_RE = re.compile(r"^\s*([+-]?)(\d+)\.(\d{3}) (us|ms| s| m| h)$")
UNITS = {"us": 0, "ms": 1, " s": 2, " m": 3, " h": 4}


def parse_cell(txt):
    """-> None (blank) | (d, f, unit) | ('count', n) | ('zero',) | ('raw', txt)"""
    if txt.strip() == "":
        return None
    m = TIME_RE.match(txt)
    if m:
        return (m.group(1), int(m.group(2)), int(m.group(3)), UNITS[m.group(4)])
    s = txt.strip()
    if s == "0 us":
        return ("zero",)
    if re.match(r"^[+-]?\d+$", s):
        return ("count", int(s))
    return ("raw", s)


def parse_report(out, raw=False):
    """-> (header names, rows [(cells..., name)]) using the ==== line for the column positions"""
    lines = [l for l in out.splitlines() if not l.startswith("#")]
    sep = next((i for i, l in enumerate(lines) if l.strip().startswith("=====")), None)
    if sep is None:
        return None
    cols = [(m.start(), m.end()) for m in re.finditer(r"=+", lines[sep])]
    heads = [lines[sep - 1][a:b].strip() for a, b in cols]
    rows = []
    for l in lines[sep + 1:]:
        if not l.strip():
            continue
        cells = [(l[a:b] if raw else parse_cell(l[a:b])) for a, b in cols[:-1]]
        rows.append((cells, l[cols[-1][0]:].strip()))
    return heads, rows


# ---------------------------------------------------------------- Coq terms
def q_rec(r):
    return "%s %d %d %d" % (("E", "X", "L")[r[0]], r[1], r[2], r[3])


def q_list(xs):
    return "[" + "; ".join(xs) + "]"


def q_call(c):
    if len(c) == 5:
        return "CallX %d %d %d %d %s" % (c[0], c[1], c[2], c[3], q_list([q_call(k) for k in c[4]]))
    return "Call %d %d %d %s" % (c[0], c[1], c[2], q_list([q_call(k) for k in c[3]]))


def q_truth(case):
    if any(t["truth"] is None for t in case["tasks"]):
        return "None"
    tts = []
    for t in case["tasks"]:
        done, opened = t["truth"][0], t["truth"][1]
        tts.append("mktt %s %s" % (q_list([q_call(c) for c in done]),
                                   q_list(["mkof %d %d %s" % (a, t0, q_list([q_call(k) for k in kids]))
                                           for a, t0, kids in opened])))
    return "Some " + q_list(tts)


def span_of(case):
    """time spanned by the records of the case (LOST markers carry time 0: not counted); kinds whose figures are
    not bounded by construction (EXIT at stack 0 reads a stale slot) get no bound"""
    if case["kind"] in ("extra-exit",):
        return (1 << 64) - 1
    ts = [r[3] for t in case["tasks"] for r in t["recs"] if r[0] != LOST]
    return (max(ts) - min(ts)) if ts else 0


def inherited_counts(case):
    """per task: number of frames open at the first record (0 for data starting at depth 0)"""
    return [(t["truth"][2] if t["truth"] is not None and len(t["truth"]) > 2 else 0) for t in case["tasks"]]


def q_case(case, amap):
    return "mkcase %d %s %s" % (case["max_stack"], q_list(["(%d, %d)" % kv for kv in sorted(amap.items())]),
                                q_list([q_list([q_rec(r) for r in t["recs"]]) for t in case["tasks"]]))


def q_node(n, num):
    return "nd %d %s" % (num.get(n[0], 0), " ".join(str(x) for x in n[1:]))


def q_key(k):
    return "K_" + k


def q_fld(f):
    return "F_" + f.replace("-", "_")


def q_cell(c):
    if c is None:
        return "None"
    if c[0] == "count":
        return "Some (%d, 0, 99)" % c[1]
    if len(c) == 4 and c[0] == "":
        return "Some (%d, %d, %d)" % (c[1], c[2], c[3])
    return "Some (0, 0, 77)"          # something the model never prints


PRE = """From Coq Require Import NArith ZArith List Bool Floats.
Import ListNotations.
Require Import UV.C08.Model UV.C08.Stdv UV.C08.DiffSort.
Local Open Scope N_scope.
Definition E := mkrec ENTRY. Definition X := mkrec EXIT. Definition L := mkrec LOST.
Definition nd nm call ts tr ta tmi tma ss sr sa smi sma :=
  mknode nm call (mkstat ts tr tmi tma ta) (mkstat ss sr smi sma sa).
Record tcase := mk { tc : case; i_rows : list (list (N * N * N * bool)); i_tbl : list node;
                     i_sorts : list (list key * list N); i_truth : option (list ttrace);
                     i_order : list nat; i_grows : list (N * N * N * bool); i_inh : list nat; i_span : N }.
(* sanity bound for data the exact checker does not judge (LOST markers with unbalanced drops): no figure of a
   node exceeds the time the data spans, Self never exceeds Total *)
Definition prop_bounded t :=
  forallb (fun n => (smax (n_total n) <=? i_span t) && (smax (n_self n) <=? smax (n_total n))
                    && (sum (n_self n) <=? sum (n_total n) + recs (n_total n))
                    && (sum (n_total n) + recs (n_total n) <=? n_call n * i_span t)) (i_tbl t).
(* generator self-check: the ground truth flattens to the records written, LOST markers erased, preceded by one
   ENTRY record of address 0 at the first record's time per frame open when the data begins *)
Definition zeros' (k : nat) (rs : list rec) : list rec :=
  match rs with [] => [] | r0 :: _ => map (fun i => mkrec ENTRY (N.of_nat i) 0 (r_time r0)) (seq 0 k) end.
(* the merged stream: i_order names the task whose next record is read (min time, lowest index on ties) *)
Fixpoint weave (order : list nat) (tasks : list (list rec)) : list (nat * rec) :=
  match order with
  | [] => []
  | i :: t => match nth i tasks [] with
              | [] => weave t tasks
              | r :: rest => (i, r) :: weave t (firstn i tasks ++ rest :: skipn (S i) tasks)
              end
  end.
Definition merged_ok t := orows_eqb (map (obs_row (c_names (tc t)))
                                         (merged_rows (c_max (tc t)) (length (c_tasks (tc t))) (weave (i_order t) (c_tasks (tc t)))))
                                    (i_grows t).
Definition rows_ok t := forallb (fun p => orows_eqb (map (obs_row (c_names (tc t))) (task_rows (c_max (tc t)) (fst p))) (snd p))
                                (combine (c_tasks (tc t)) (i_rows t))
                        && Nat.eqb (length (c_tasks (tc t))) (length (i_rows t)).
Definition table_ok t := nodes_eqb (report (tc t)) (i_tbl t).
Definition sorts_ok t := forallb (fun p => list_eqb (map n_name (sort_nodes (fst p) (report (tc t)))) (snd p)) (i_sorts t).
Definition rec_eqb (a b : rec) := Bool.eqb (is_exit a) (is_exit b) && Bool.eqb (is_lost a) (is_lost b)
  && (r_depth a =? r_depth b) && (r_addr a =? r_addr b) && (r_time a =? r_time b).
Fixpoint recs_eqb (a b : list rec) := match a, b with [], [] => true | x :: a', y :: b' => rec_eqb x y && recs_eqb a' b' | _, _ => false end.
Definition truth_ok t := match i_truth t with
                         | Some tts => forallb (fun p => let rs := filter (fun r => negb (is_lost r)) (snd (fst p)) in
                                                         recs_eqb (trace_recs (fst (fst p))) (zeros' (snd p) rs ++ rs))
                                               (combine (combine tts (c_tasks (tc t))) (i_inh t))
                                       && Nat.eqb (length tts) (length (c_tasks (tc t)))
                         | None => true end.
Definition prop_table t := match i_truth t with Some tts => ok_table (c_names (tc t)) tts (i_tbl t) | None => true end.
Definition prop_sorted t := forallb (fun p => ok_sorted (fst p) (i_tbl t) (snd p)) (i_sorts t).
Record ecase := mke { ec : case; e_tbl : list node; e_runs : list (avg_mode * option (list skey) * option (list fld) * list line);
                      e_task : list (cell * cell * N); e_truth : option (list ttrace); e_diff0 : list (list cell); e_clean : bool;
                      e_other : option (case * list node * list dline * list (bool * dpolicy * N * list key * list N * list (N * list (option Z)))) }.
Definition e_model_ok t := forallb (fun r => let '(m, s, f, out) := r in lines_eqb (stdout_model (report_keys m s f) (report_fields m f) (report (ec t))) out) (e_runs t).
Definition e_prop_ok t := negb (e_clean t) || forallb (fun r => let '(m, s, f, out) := r in ok_stdout (report_keys m s f) (report_fields m f) (e_tbl t) out) (e_runs t).
Definition e_task_model t := existsb (existsb is_lost) (c_tasks (ec t)) || match e_task t with [] => true | l =>
   lines_eqb (map (fun p => (snd p, [fst (fst p); snd (fst p)])) l)
             (map (fun rs => let '(tot, n) := task_line (c_max (ec t)) rs in (n, [fmt_time tot; fmt_time tot])) (c_tasks (ec t))) end.
Definition e_task_prop t := match e_task t, e_truth t with
   | [], _ => true | _, None => true
   | l, Some tts => forallb (fun p => ok_cell (top_time (snd p)) (fst (fst (fst p))) && ok_cell (top_time (snd p)) (snd (fst (fst p))))
                            (combine l tts) end.
Definition e_diff_prop t := forallb (forallb (fun c => match c with None => true | _ => false end)) (e_diff0 t).
Definition e_diff2_model t := match e_other t with None => true
   | Some (c2, _, out, _) => diff_stdout_agrees (report (ec t)) (report c2) out end.
Definition e_diff2_prop t := match e_other t with None => true
   | Some (_, tbl2, out, _) => ok_diff_stdout (e_tbl t) tbl2 out && nonincreasing (map (fun l => absdiff_of (e_tbl t) tbl2 (fst l)) out) end.
(* row order of --diff OTHER under every policy / sort column / key list, and the printed percentages *)
Definition drow (base pair : list node) (nm : N) : node * node :=
  (match find_node base nm with Some n => n | None => zero_node nm end,
   match find_node pair nm with Some n => n | None => zero_node 0 end).
Definition e_dorder_model t := match e_other t with None => true
   | Some (c2, _, _, runs) =>
       forallb (fun r => let '(swap, pol, col, ks, order, _) := r in
                         let b := if swap : bool then report c2 else report (ec t) in
                         let p := if swap : bool then report (ec t) else report c2 in
                         list_eqb (map (fun bp => n_name (fst bp)) (diff_order pol col ks b p)) order) runs end.
Definition e_dorder_prop t := match e_other t with None => true
   | Some (_, tbl2, _, runs) =>
       forallb (fun r => let '(swap, pol, col, ks, order, pcts) := r in
                         let b := if swap : bool then tbl2 else e_tbl t in
                         let p := if swap : bool then e_tbl t else tbl2 in
                         sorted_by (cmp_d pol col ks) (map (drow b p) order)
                         && list_eqb (sort_names order) (sort_names (map (fun bp => n_name (fst bp)) (diff_pairs b p)))
                         && forallb (fun x => let '(nm, cs) := x in let '(bn, pn) := drow b p nm in
                                      match cs with
                                      | [c1; c2] => ok_dpct (sum (n_total bn)) (sum (n_total pn)) c1 && ok_dpct (sum (n_self bn)) (sum (n_self pn)) c2
                                      | _ => false end) pcts) runs end.
(* the stdv columns: raw doubles of the node table, row orders for the keys total_stdv / self_stdv, printed "%9.2f%%" *)
Record scase := mks { sc : case; s_order : list nat; s_truth : option (list ttrace);
                      s_raw : list (N * float * float); s_fsorts : list (bool * list N);
                      s_printed : list (bool * list (N * option Z)) }.
Definition s_model t := report_stdv (c_names (sc t)) (merged_rows (c_max (sc t)) (length (c_tasks (sc t))) (weave (s_order t) (c_tasks (sc t)))).
Definition pick (tot : bool) (x : N * float * float) : N * float := let '(n, a, b) := x in (n, if tot then a else b).
Fixpoint stdv3_eqb (a b : list (N * float * float)) : bool :=
  match a, b with
  | [], [] => true
  | (n1, a1, b1) :: a', (n2, a2, b2) :: b' => (n1 =? n2) && feq a1 a2 && feq b1 b2 && stdv3_eqb a' b'
  | _, _ => false
  end.
Definition lookup_f (l : list (N * float)) (nm : N) : float :=
  match find (fun x => fst x =? nm) l with Some x => snd x | None => nan end.
Definition oz_eqb (a b : option Z) := match a, b with Some x, Some y => Z.eqb x y | None, None => true | _, _ => false end.
Definition s_raw_ok t := stdv3_eqb (s_model t) (s_raw t).
Definition s_sort_ok t := forallb (fun p => list_eqb (sort_f (map (pick (fst p)) (s_model t))) (snd p)) (s_fsorts t).
Definition s_print_ok t := forallb (fun p => let m := map (pick (fst p)) (s_model t) in
                                     forallb (fun r => oz_eqb (hundredths (lookup_f m (fst r))) (snd r)) (snd p)
                                     && list_eqb (sort_f m) (map fst (snd p))) (s_printed t).
Definition vals_of t (tot : bool) (nm : N) : list N :=
  match s_truth t with
  | Some tts => map (fun w => if tot then w_total w else w_self w)
                    (filter (fun w => name_of (c_names (sc t)) (w_addr w) =? nm) (concat (map spec_task tts)))
  | None => []
  end.
Definition s_raw_prop t := match s_truth t with None => true | Some _ =>
   forallb (fun x => let '(n, a, b) := x in
                     match hundredths a, hundredths b with
                     | Some pa, Some pb => ok_stdv pa (vals_of t true n) && ok_stdv pb (vals_of t false n)
                     | _, _ => false end) (s_raw t) end.
Definition s_sort_prop t := forallb (fun p => let raw := map (pick (fst p)) (s_raw t) in
                                               sorted_f (map (fun nm => (nm, lookup_f raw nm)) (snd p))) (s_fsorts t).
Fixpoint noninc_z (l : list (option Z)) : bool :=
  match l with Some a :: ((Some b :: _) as t) => Z.leb b a && noninc_z t | [_] => true | [] => true | _ => false end.
Definition s_print_prop t := forallb (fun p => noninc_z (map snd (snd p))
                                      && match s_truth t with None => true | Some _ =>
                                           forallb (fun r => match snd r with Some pz => ok_stdv pz (vals_of t (fst p) (fst r)) | None => false end) (snd p) end)
                                     (s_printed t).
"""


def q_tcase(case, res, amap, num):
    rows = []
    for t in case["tasks"]:
        rows.append(q_list(["(%d, %d, %d, %s)" % (num.get(n, 0), tot, slf, coq.coq_bool(rc and tot != 0))
                            for n, tot, slf, rc in res["rows"].get(t["tid"], [])]))
    sorts = q_list(["(%s, %s)" % (q_list([q_key(k) for k in ks]), q_list([str(num.get(n, 0)) for n in order]))
                    for ks, order in res["sorts"]])
    grows = q_list(["(%d, %d, %d, %s)" % (num.get(n, 0), tot, slf, coq.coq_bool(rc and tot != 0))
                    for n, tot, slf, rc in res["grows"]])
    return "mk (%s) %s %s %s (%s) %s %s %s %d" % (q_case(case, amap), q_list(rows), q_list([q_node(n, num) for n in res["nodes"]]),
                                            sorts, q_truth(case), q_list(["%d%%nat" % i for i in merge_order(case)]), grows,
                                            q_list(["%d%%nat" % k for k in inherited_counts(case)]), span_of(case))


# ---------------------------------------------------------------- end-to-end option sets
def e2e_option_sets(rng):
    """(argv, avg mode, -s tokens or None, -f fields or None) - the model derives keys and columns itself"""
    allf = ",".join(FIELDS)
    sets = [([], "AVG_NONE", None, None),
            (["--avg-total"], "AVG_TOTAL", None, None),
            (["--avg-self"], "AVG_SELF", None, None),
            (["-f", allf], "AVG_NONE", None, FIELDS)]
    for _ in range(3):
        ks = rng.sample(KEYS, rng.randrange(1, 4))
        fs = rng.sample(FIELDS, rng.randrange(1, 6))
        # -s accepts total-avg as well as total_avg when no --avg-* mode is given
        arg = ",".join(k.replace("_", "-") if rng.random() < 0.3 else k for k in ks)
        sets.append((["-s", arg, "-f", ",".join(fs)], "AVG_NONE", ks, fs))
    # --avg-total / --avg-self rename the short keys avg/min/max
    which = rng.choice(["total", "self"])
    short = rng.sample(["avg", "min", "max"], 2)
    sets.append((["--avg-" + which, "-s", ",".join(short)], "AVG_" + which.upper(), short, None))
    # -f +FIELD adds to the default columns; all = every column; none = no column
    extra = rng.sample(FIELDS, rng.randrange(1, 3))
    sets.append((["-f", "+" + ",".join(extra)], "AVG_NONE", None, ["total", "self", "call"] + extra))
    sets.append((["-f", "all"], "AVG_NONE", None, FIELDS))
    sets.append((["-f", "none"], "AVG_NONE", None, []))
    # a key given twice is the key given once (fixed 7113223: it made the command loop for ever)
    k2 = rng.choice(KEYS)
    sets.append((["-s", "%s,%s" % (k2, k2)], "AVG_NONE", [k2, k2], None))
    # with -f the --avg-* option is ignored (a warning only)
    which = rng.choice(["total", "self"])
    fs = rng.sample(FIELDS, rng.randrange(1, 4))
    sets.append((["--avg-" + which, "-f", ",".join(fs)], "AVG_" + which.upper(), None, fs))
    return sets


def q_skey(k):
    return "S_" + k if k in ("avg", "min", "max") else "SK K_" + k


def q_opt(x):
    return "None" if x is None else "(Some %s)" % x


def diff_text_is_zero(txt):
    """a cell of `report --diff` (any policy) that shows no difference: "0 us", "+0", "+0.00%", "+0.00%pt",
    "N/A" (nothing to compare), and with the full policy two equal figures in front of it"""
    t = txt.split()
    if not t:
        return False
    ok = (t[-1] in ("+0", "+0.00%", "-0.00%", "N/A", "+0.00%pt", "-0.00%pt")) or (t[-2:] == ["0", "us"])
    if not ok:
        return False
    front = t[:-2] if t[-2:] == ["0", "us"] else t[:-1]
    if front:                                  # full policy: base and pair figures
        if len(front) % 2:
            return False
        h = len(front) // 2
        return front[:h] == front[h:]
    return True


def make_other(ctx, case):
    """a second data set of the same program for --diff: the same call forests re-timed so that some functions are
    faster, some slower and some unchanged, the calls of one function removed (a row only one side has); sometimes
    a fresh set of forests"""
    rng = ctx.rng
    if rng.random() < 0.3 or any(t["truth"] is None or len(t["truth"]) > 2 for t in case["tasks"]):
        return gen_case(ctx, -1, program=(case["syms"], case["fns"]), kind="forest")
    addrs = sorted({a for a, _ in case["fns"]})
    factor = {a: rng.choice((0.5, 0.8, 1, 1, 1, 1.25, 2)) for a in addrs}
    gone = rng.choice(addrs) if rng.random() < 0.5 and len(addrs) > 2 else None
    tasks = []
    for t in case["tasks"]:
        done, opened = t["truth"][0], t["truth"][1]
        clock = [None]
        out = []

        def go(c, d):
            a, t0, t1, kids = c
            if a == gone:
                return
            start = clock[0]
            out.append((ENTRY, d, a, clock[0]))
            prev = t0
            for k in kids:
                clock[0] += int((k[1] - prev) * factor[a])
                go(k, d + 1)
                prev = k[2]
            clock[0] += int((t1 - prev) * factor[a])
            out.append((EXIT, d, a, clock[0]))
        prev = None
        for c in done:
            if clock[0] is None:
                clock[0] = c[1]
            else:
                clock[0] += c[1] - prev
            go(c, 0)
            prev = c[2]
        # the open tail is dropped in the other data set (its calls are then "completed calls only")
        recs = out or [(ENTRY, 0, addrs[0], 2000), (EXIT, 0, addrs[0], 2100)]
        tasks.append({"tid": t["tid"], "recs": recs, "truth": truth_of_prefix(recs)})
    return {"idx": -1, "kind": "forest", "max_stack": case["max_stack"], "syms": case["syms"], "fns": case["fns"],
            "tasks": tasks, "tags": ["other:retimed"] + (["other:function-removed"] if gone else [])}


DIFF_KEYS = ["total", "total_avg", "total_min", "total_max", "self", "self_avg", "self_min", "self_max", "call", "func"]


def diff_combos(rng, percent_ok):
    """(abs, percent, full, sort column, keys, swap base and other)"""
    out = []
    for absolute in (True, False):
        for percent in ((False, True) if percent_ok else (False,)):
            col = 2
            ks = rng.sample(DIFF_KEYS, 2) if rng.random() < 0.5 else [rng.choice(DIFF_KEYS[:9])]
            if rng.random() < 0.15:
                ks = ks + [ks[0]]                     # a repeated key changes nothing
            out.append((absolute, percent, rng.random() < 0.3, col, ks, rng.random() < 0.5))
    for col in (0, 1):
        out.append((rng.random() < 0.5, False, True, col, [rng.choice(DIFF_KEYS[:9])], rng.random() < 0.5))
    out.append((True, percent_ok, False, 2, ["total"], False))          # the percent policy with its default key
    return out


PCT_RE = re.compile(r"^\s*([+-])(\d+)\.(\d\d)%$")


def run_diff_orders(ctx, objdir, d, d2, num, percent_ok):
    """-> Coq list of (swap, abs, percent, column, keys, names in printed order, printed percentages)"""
    runs = []
    for absolute, percent, full, col, ks, swap in diff_combos(ctx.rng, percent_ok):
        pol = ",".join(["abs" if absolute else "no-abs", "percent" if percent else "no-percent", "full" if full else "compact"])
        bdir, pdir = (d2, d) if swap else (d, d2)
        argv = ["--diff", pdir, "--diff-policy", pol, "--sort-column", str(col), "-s", ",".join(ks)]
        rc, out, err = uft(objdir, bdir, argv)
        pr = parse_report(out, raw=True)
        if rc != 0 or pr is None:
            ctx.violation("uftrace report %s failed (rc=%d)" % (" ".join(argv), rc), {"argv": argv, "stderr": err[-600:]}, True)
            continue
        names = [num.get(name, 0) for cells, name in pr[1]]
        pcts = []
        if percent and not full:          # compact percent: Total and Self as percentages
            for cells, name in pr[1]:
                vals = []
                for c in cells[:2]:
                    m = PCT_RE.match(c)
                    if c.strip() == "N/A":
                        vals.append("None")
                    elif m:
                        vals.append("(Some (%s%d)%%Z)" % ("-" if m.group(1) == "-" else "", int(m.group(2)) * 100 + int(m.group(3))))
                    else:
                        vals.append("(Some 123456789%Z)")
                pcts.append("(%d, %s)" % (num.get(name, 0), q_list(vals)))
        runs.append("(%s, mkdp %s %s, %d, %s, %s, %s)" % (coq.coq_bool(swap), coq.coq_bool(absolute), coq.coq_bool(percent), col,
                                                        q_list([q_key(k) for k in ks]), q_list(map(str, names)), q_list(pcts)))
        ctx.tag("e2e:--diff-other %s col%d" % (pol, col))
    return q_list(runs)


def uft(objdir, d, args, timeout=30):
    """`uftrace report` under `timeout -s KILL`: a report that loops for ever (a sort key given twice did, and
    ignored SIGTERM) is killed and reported as rc 137 instead of being left behind"""
    exe = os.path.join(objdir, "uftrace")
    return sh(["timeout", "-s", "KILL", str(timeout), exe, "report", "--no-pager", "-d", d] + list(args), timeout=timeout + 10)


def nm_of(case, a):
    rel = a - BASE
    for sa, sz, _, n in case["syms"]:
        if sa <= rel < sa + sz:
            return n
    return "<%x>" % a


def q_dcell(c):
    """difference cell -> Coq dcell"""
    if c is None:
        return "Some (false, 0, 0, 77)"           # a blank is never printed in a diff column
    if c == ("zero",):
        return "None"
    if c[0] == "count":
        return "None" if c[1] == 0 else "Some (%s, %d, 0, 99)" % (coq.coq_bool(c[1] < 0), abs(c[1]))
    if len(c) == 4:
        return "Some (%s, %d, %d, %d)" % (coq.coq_bool(c[0] == "-"), c[1], c[2], c[3])
    return "Some (false, 0, 0, 77)"


def run_e2e(ctx, objdir, case, d, res, amap, num, exe2=None):
    """returns Coq term of the ecase or None"""
    runs = []
    for argv, mode, ks, fs in e2e_option_sets(ctx.rng):
        rc, out, err = uft(objdir, d, argv)
        pr = parse_report(out)
        if argv == ["-f", "none"] and rc == 0:          # no columns at all: one function name per line
            pr = (["Function"], [([], l.strip()) for l in out.splitlines() if l.strip()])
        if rc != 0 or pr is None:
            if res["nodes"]:
                ctx.violation("uftrace report %s failed (rc=%d) on a well-formed data directory" % (" ".join(argv), rc),
                              {"case": case_json(case), "argv": argv, "stdout": out[-1500:], "stderr": err[-800:]}, True)
            continue
        heads, rows = pr
        # --avg-* add a stdv column that the model does not describe: drop it
        # (the stdv columns are checked by stdv_e2e, the Size column by size_e2e)
        keep = [i for i, h in enumerate(heads[:-1]) if "stdv" not in h and h != "Size"]
        lines = ["(%d, %s)" % (num.get(name, 0), q_list([q_cell(cells[i]) for i in keep])) for cells, name in rows]
        runs.append("(%s, %s, %s, %s)" % (mode, q_opt(None if ks is None else q_list([q_skey(k) for k in ks])),
                                          q_opt(None if fs is None else q_list([q_fld(f) for f in fs])), q_list(lines)))
        ctx.tag("e2e:" + (argv[0] if argv else "default"))
    # --task (LOST-free tasks only: the model of report_task covers those)
    task_lines = []
    if case["kind"] in ("forest", "marked", "suffix"):
        rc, out, err = uft(objdir, d, ["--task", "-s", "tid"])
        pr = parse_report(out)
        if rc == 0 and pr:
            by_tid = {}
            for cells, name in pr[1]:
                by_tid[cells[2][1]] = cells
            # tasks without any counted row do not appear
            for t in case["tasks"]:
                c = by_tid.get(t["tid"])
                if c is None:
                    task_lines.append("(None, None, 0)")
                else:
                    task_lines.append("(%s, %s, %d)" % (q_cell(c[0]), q_cell(c[1]), c[3][1]))
            ctx.tag("e2e:--task")
    # --diff against itself: every difference must be printed as zero
    diff0 = []
    rc, out, err = uft(objdir, d, ["--diff", d])
    pr = parse_report(out)
    if rc == 0 and pr:
        for cells, name in pr[1]:
            diff0.append(q_list(["None" if (c == ("zero",) or c == ("count", 0)) else "Some (0, 0, 77)" for c in cells]))
        ctx.tag("e2e:--diff-self")
    elif res["nodes"]:
        ctx.violation("uftrace report --diff DIR DIR failed (rc=%d)" % rc, {"case": case_json(case), "stderr": err[-800:]}, True)
    # ... under every diff policy, field selection and avg mode
    for extra in (["--diff-policy", "full"], ["--diff-policy", "percent"], ["--diff-policy", "full,percent"],
                  ["--diff-policy", "no-abs", "-s", "self"], ["-f", "all"], ["--avg-total"], ["--avg-self", "--diff-policy", "full"]):
        rc, out, err = uft(objdir, d, ["--diff", d] + extra)
        pr = parse_report(out, raw=True)
        if rc != 0 or pr is None:
            if res["nodes"]:
                ctx.violation("uftrace report --diff DIR DIR %s failed (rc=%d)" % (" ".join(extra), rc),
                              {"case": case_json(case), "stderr": err[-800:]}, True)
            continue
        for cells, name in pr[1]:
            diff0.append(q_list(["None" if diff_text_is_zero(c) else "Some (0, 0, 77)" for c in cells]))
        ctx.tag("e2e:--diff-self " + " ".join(extra))
    # --diff against another data set of the same program (model: pairing by name, order by |difference of Total|)
    other = "None"
    if case["kind"] == "forest" and exe2:
        case2 = case.get("other") or make_other(ctx, case)
        case["other"] = case2
        d2 = d + ".other"
        write_case(case2, d2)
        res2 = run_harness(exe2, d2, [])
        # both directories must use one name numbering: only when the other one needs no new name
        _, num2, anames2 = name_table(case2)
        if res2["ok"] and set(num2) <= set(num):
            rc, out, err = uft(objdir, d, ["--diff", d2])
            pr = parse_report(out)
            if rc == 0 and pr:
                dl = []
                for cells, name in pr[1]:
                    dl.append("(%d, %s)" % (num.get(name, 0), q_list([q_dcell(c) for c in cells])))
                amap2n = {a: num[n2] for a, n2 in anames2.items()}
                scale1 = not any(tg.startswith("scale") for tg in case["tags"])
                orders = run_diff_orders(ctx, objdir, d, d2, num, scale1)
                other = "Some (%s, %s, %s, %s)" % (q_case(case2, amap2n), q_list([q_node(n, num) for n in res2["nodes"]]), q_list(dl), orders)
                for tg in case2["tags"]:
                    if tg.startswith("other:"):
                        ctx.tag(tg)
                ctx.tag("e2e:--diff-other")
        shutil.rmtree(d2, ignore_errors=True)
    # LOST markers: the figures of the open calls are whatever the code makes of them (see the report); the
    # printed cells are compared with the model only
    return "mke (%s) %s %s %s (%s) %s %s (%s)" % (q_case(case, amap), q_list([q_node(n, num) for n in res["nodes"]]),
                                                  q_list(runs), q_list(task_lines), q_truth(case), q_list(diff0),
                                                  coq.coq_bool(case["kind"] != "lost"), other)


# ---------------------------------------------------------------- json (replay files)
def case_json(case):
    return {"kind": case["kind"], "max_stack": case["max_stack"], "syms": [list(s) for s in case["syms"]],
            "fns": [list(f) for f in case["fns"]], "tags": case["tags"],
            "other": case_json(case["other"]) if case.get("other") else None,
            "tasks": [{"tid": t["tid"], "recs": [list(r) for r in t["recs"]],
                       "truth": None if t["truth"] is None else
                       [t["truth"][0], [list(o) for o in t["truth"][1]],
                        (t["truth"][2] if len(t["truth"]) > 2 else 0)]}
                      for t in case["tasks"]]}


def case_from_json(j):
    return {"idx": 0, "kind": j["kind"], "max_stack": j["max_stack"], "syms": [tuple(s) for s in j["syms"]],
            "fns": [tuple(f) for f in j["fns"]], "tags": j.get("tags", []),
            "other": case_from_json(j["other"]) if j.get("other") else None,
            "tasks": [{"tid": t["tid"], "recs": [tuple(r) for r in t["recs"]],
                       "truth": None if t["truth"] is None else
                       (t["truth"][0], [tuple(o) for o in t["truth"][1]],
                        (t["truth"][2] if len(t["truth"]) > 2 else 0))}
                      for t in j["tasks"]]}


# ---------------------------------------------------------------- entry points
def common_meta(ctx):
    ctx.rule = ("a case = one generated data directory (1-4 tasks, call forests over 2-7 functions with direct/mutual "
                "recursion, duplicate names, zero durations, optional cut = calls open at the end; odd kinds: LOST "
                "markers, traces starting at depth>0, EXIT at stack 0, max_stack 1-3) run through the real "
                "build_function_tree/report_calc_avg/report_sort_nodes (in-process) and, for a subset, through "
                "`uftrace report` with 9 option sets (default, --avg-total, --avg-self, -f all, 3 random -s/-f, --avg-* with "
                "short keys, --avg-* with -f), --task, --diff DIR DIR and --diff against a second generated data set; "
                "distinct = distinct record lists; non-trivial = >= 2 nesting levels and >= 1 boundary tag")
    ctx.trusted = [
        "Coq 8.16.1 kernel incl. vm_compute; no axioms (Print Assumptions: closed under the global context, except "
        "the three C08_stdv_*_legacy_refuted statements, which compute with Coq's primitive 63-bit integers and "
        "binary64 floats: Print Assumptions lists those primitives - PrimInt63.*, PrimFloat add/sub/mul/div/sqrt/"
        "of_uint63/ltb/... - and nothing else)",
        "coq/theories/C08/Stdv.v: the stdv column computed with Coq's primitive floats = the machine's IEEE-754 "
        "binary64 arithmetic under vm_compute (compared bit for bit with the implementation's doubles)",
        "hand-written model coq/theories/C08/Model.v of fstack_account_time/fstack_update_stack_count (utils/fstack.c), "
        "build_function_tree/add_lost_fstack/add_remaining_fstack/report_task (cmds/report.c), report_update_node/"
        "finish_time_stat/insert_node/report_diff_nodes (utils/report.c), __print_time_unit (utils/debug.c); the two "
        "rb-trees are modelled by their in-order lists",
        "harness harness/c/c08_harness.c (#includes cmds/report.c, wraps report_update_node to log it) and the "
        "parsers/serialisers of props/c08.py; data directories written by vf/datadir.py",
        "names are numbered by the harness in byte order (= strcmp order for NUL-free names)",
    ]
    ctx.assume = [
        "no filters/triggers/time range/kernel or event records (those are C07's); default depth 1024 >= max_stack",
        "symbol lookup is taken as given (C10); the order in which read_rstack merges tasks is compared (merged_rows) "
        "but not derived: theorem C08_merge_irrelevant shows the report is the same for every interleaving",
        "the Size column and the key `size` are judged in props/c08.py (a symbol's size is no figure of the trace; the "
        "Coq model has no size); "
        "--diff OTHER: row order modelled and judged for every policy / sort column / key list (percentages as exact "
        "fractions: the percent runs use data below 2^26 ns where the code's double comparison is the same order); "
        "printed cells modelled for the default policy, judged for the percent policy; the sign of a time difference "
        "is judged (minus = decrease)",
        "LOST markers with whole calls dropped (kind `marked`) are judged by the checkers against the forest of the "
        "surviving records; LOST markers with unbalanced drops, EXIT at stack 0 and max_stack overflow are compared "
        "with the model only; data "
        "starting at depth>0 (fork child) is judged by the checkers with inherited frames counted from the task's "
        "first record, named by their EXIT record and never recursive; the witness of the fixed "
        "lost-after-inherited-wrap defect is a regression case (an unlisted reappearance is a VIOLATION)",
        "printed figures below 1000 hours (above, __print_time_unit prints 999.999)",
        "accumulated sums stay below 2^64 ns in the theorems about exact sums (the model itself wraps like uint64_t)",
    ]


def setup(ctx):
    coq.prove(ctx, "C08", extra_files=["C08/Stdv", "C08/DiffSort"])
    objdir = build.get_build("plain", ctx.log)
    exe = os.path.join(ctx.scratch, "c08_harness")
    build.cc([os.path.join(os.path.dirname(__file__), "../harness/c/c08_harness.c"), build.uf_archive(objdir)],
             exe, objdir, extra=build.UF_LIBS)
    return objdir, exe


def q_float(txt):
    """C's %a -> Coq float literal"""
    t = txt.strip()
    if "nan" in t:
        return "nan"
    if "inf" in t:
        return "neg_infinity" if t.startswith("-") else "infinity"
    return "(%s)%%float" % t


def q_oz(x):
    return "None" if x is None else "(Some (%d)%%Z)" % x


def q_scase(case, res, amap, num, printed):
    raw = q_list(["(%d, %s, %s)" % (num.get(n, 0), q_float(a), q_float(b)) for n, a, b in res["stdv"]])
    fs = q_list(["(%s, %s)" % (coq.coq_bool(tot), q_list([str(num.get(n, 0)) for n in order])) for tot, order in res["fsorts"]])
    pr = q_list(["(%s, %s)" % (coq.coq_bool(tot), q_list(["(%d, %s)" % (num.get(n, 0), q_oz(pz)) for n, pz in rows]))
                 for tot, rows in printed])
    return "mks (%s) %s (%s) %s %s %s" % (q_case(case, amap), q_list(["%d%%nat" % i for i in merge_order(case)]),
                                          q_truth(case), raw, fs, pr)


def size_e2e(ctx, objdir, case, d):
    """the Size column and -s size: Size = size of the symbol the row is named after (0 without a symbol), rows
    in descending Size order (judged here: a symbol's size is not a figure of the trace, the Coq model has no size)"""
    rc, out, err = uft(objdir, d, ["-f", "size,call", "-s", "size,func"])
    pr = parse_report(out)
    if rc != 0 or pr is None:
        return
    heads, rows = pr
    ci = heads.index("Size") if "Size" in heads else None
    if ci is None:
        return
    want = {}
    for a, sz, _, n in case["syms"]:
        want[n] = sz
    got = [(name, cells[ci][1] if cells[ci] and cells[ci][0] == "count" else None) for cells, name in rows]
    bad = [(n, v) for n, v in got if v != want.get(n, 0)]
    order_ok = all(got[i][1] > got[i + 1][1] or (got[i][1] == got[i + 1][1] and got[i][0].encode() < got[i + 1][0].encode())
                   for i in range(len(got) - 1)) if not bad else True
    if bad or not order_ok:
        ctx.violation("uftrace report -f size -s size: %s" % ("Size is not the symbol's size: %s" % bad[:3] if bad
                                                                else "rows are not in descending Size order: %s" % got),
                      {"case": case_json(case), "stdout": out[-1500:]}, True)
    ctx.tag("e2e:-s size")


def stdv_e2e(ctx, objdir, d):
    """`--avg-total -s stdv` / `--avg-self -s stdv`: the printed stdv column, in printed order"""
    out_ = []
    for tot, arg in ((True, "--avg-total"), (False, "--avg-self")):
        rc, out, err = uft(objdir, d, [arg, "-s", "stdv"])
        pr = parse_report(out)
        if rc != 0 or pr is None:
            continue
        heads, rows = pr
        col = next((i for i, h in enumerate(heads) if "stdv" in h), None)
        if col is None:
            continue
        lst = []
        for cells, name in rows:
            c = cells[col]
            pz = None
            if c is not None and c[0] == "raw":
                m = re.match(r"^(-?)(\d+)\.(\d\d)%$", c[1])
                if m:
                    pz = (-1 if m.group(1) else 1) * (int(m.group(2)) * 100 + int(m.group(3)))
            lst.append((name, pz))
        out_.append((tot, lst))
        ctx.tag("e2e:%s -s stdv" % arg)
    return out_


def gen_keysets(rng):
    ks = [["total"], ["func"], ["call", "func"], ["total_stdv"], ["self_stdv"]]
    for _ in range(3):
        ks.append(rng.sample(KEYS, rng.randrange(1, 4)))
    return ks


def explore(ctx, objdir, exe, cases, n_e2e):
    terms, eterms, kept, ekept = [], [], [], []
    d = os.path.join(ctx.scratch, "data")
    for ci, case in enumerate(cases):
        write_case(case, d)
        res = run_harness(exe, d, gen_keysets(ctx.rng))
        amap, num, _ = name_table(case)
        if not res["ok"]:
            ctx.violation("the report accumulation code failed on a generated data directory (rc=%d): %s"
                          % (res["rc"], res["err"] or res["raw"][-300:]), {"case": case_json(case)}, True)
            continue
        case["impl"] = {"nodes": res["nodes"], "sorts": res["sorts"]}
        printed = stdv_e2e(ctx, objdir, d) if ci < n_e2e else []
        if ci < n_e2e and case["kind"] in ("forest", "marked"):
            size_e2e(ctx, objdir, case, d)
        terms.append((q_tcase(case, res, amap, num), q_scase(case, res, amap, num, printed)))
        kept.append(case)
        if ci < n_e2e:
            et = run_e2e(ctx, objdir, case, d, res, amap, num, exe2=exe)
            if et:
                eterms.append(et)
                ekept.append(case)
        nrec = sum(len(t["recs"]) for t in case["tasks"])
        depth = max([r[1] for t in case["tasks"] for r in t["recs"]] or [0])
        ctx.case(key=tuple(tuple(t["recs"]) for t in case["tasks"]) + (case["max_stack"],),
                 nontrivial=depth >= 1 and bool(case["tags"]), tags=["kind:" + case["kind"]] + case["tags"], size=nrec,
                 sample={"kind": case["kind"], "tags": case["tags"], "records": nrec,
                         "table": [list(n[:3]) for n in res["nodes"][:4]]} if ci % 40 == 1 else None)
    return terms, kept, eterms, ekept


def evaluate(ctx, terms, eterms):
    defs = "Definition cases : list tcase := [\n%s\n].\n" % ";\n".join(t[0] for t in terms)
    defs += "Definition scases : list scase := [\n%s\n].\n" % ";\n".join(t[1] for t in terms)
    defs += "Definition ecases : list ecase := [\n%s\n].\n" % ";\n".join(eterms)
    labels = [("gen_truth", "bad_indices truth_ok cases 0"),
              ("m_rows", "bad_indices rows_ok cases 0"),
              ("m_merged", "bad_indices merged_ok cases 0"),
              ("m_table", "bad_indices table_ok cases 0"),
              ("m_sort", "bad_indices sorts_ok cases 0"),
              ("v_table", "bad_indices prop_table cases 0"),
              ("v_sorted", "bad_indices prop_sorted cases 0"),
              ("v_bounded", "bad_indices prop_bounded cases 0"),
              ("m_stdout", "bad_indices e_model_ok ecases 0"),
              ("v_stdout", "bad_indices e_prop_ok ecases 0"),
              ("m_task", "bad_indices e_task_model ecases 0"),
              ("v_task", "bad_indices e_task_prop ecases 0"),
              ("v_diff", "bad_indices e_diff_prop ecases 0"),
              ("m_diff2", "bad_indices e_diff2_model ecases 0"),
              ("v_diff2", "bad_indices e_diff2_prop ecases 0"),
              ("m_dorder", "bad_indices e_dorder_model ecases 0"),
              ("v_dorder", "bad_indices e_dorder_prop ecases 0"),
              ("m_stdv", "bad_indices s_raw_ok scases 0"),
              ("m_stdv_sort", "bad_indices s_sort_ok scases 0"),
              ("m_stdv_print", "bad_indices s_print_ok scases 0"),
              ("v_stdv", "bad_indices s_raw_prop scases 0"),
              ("v_stdv_sort", "bad_indices s_sort_prop scases 0"),
              ("v_stdv_print", "bad_indices s_print_prop scases 0")]
    res = coq.run_cases(ctx, "cases", PRE, defs, labels)
    if res is None:
        return None
    return {k: coq.parse_nat_list(v) for k, v in res.items()}


WHAT = {
    "v_table": "report node table is not the exact sums of the trace (Calls/Total/Self/min/max/avg or Self conservation)",
    "v_sorted": "report rows do not follow the requested sort keys",
    "v_bounded": "a figure of the report exceeds the time the data spans (wrapped or garbage duration), or Self exceeds Total",
    "v_stdout": "`uftrace report` prints a figure that is not the node's value, or rows out of key order",
    "v_task": "`uftrace report --task`: a task's total is not the summed duration of its top-level calls",
    "v_diff": "`uftrace report --diff` of a data set against itself reports a difference",
    "v_diff2": "`uftrace report --diff`: a printed difference is not (other - base) of the two node tables",
    "v_dorder": "`uftrace report --diff OTHER`: rows do not follow the requested key under the given diff policy / sort "
                "column, a row is missing, or a printed percentage is not (other - base) / base",
    "v_stdv": "total.stdv / self.stdv of a node is not the relative standard deviation (sigma/mean*100) of its invocations",
    "v_stdv_sort": "rows sorted with -s total_stdv / self_stdv are not in descending order of that figure",
    "v_stdv_print": "`uftrace report --avg-total/--avg-self`: the printed stdv is not the relative standard deviation, or the "
                    "rows of -s stdv are out of order",
}
MODEL = {
    "m_rows": "per-call rows (report_update_node) differ from the model's task_rows",
    "m_merged": "global order of the counted rows differs from the model's read loop over the merged stream (merged_rows)",
    "m_table": "node table differs from the model's report",
    "m_sort": "row order differs from the model's sort_nodes",
    "m_stdout": "`uftrace report` stdout differs from the model's stdout_model",
    "m_task": "`uftrace report --task` differs from the model's task_line",
    "m_diff2": "`uftrace report --diff OTHER` differs from the model's diff_stdout",
    "m_dorder": "row order of `uftrace report --diff OTHER --diff-policy ... --sort-column ... -s ...` differs from the model's diff_order",
    "m_stdv": "total.stdv / self.stdv (doubles) differ bit-for-bit from the model's report_stdv",
    "m_stdv_sort": "row order for the keys total_stdv / self_stdv differs from the model's sort_f",
    "m_stdv_print": "printed stdv column (%9.2f) or its row order differs from the model",
}


def verdict(ctx, res, kept, ekept):
    if res is None:
        return
    ctx.log("verdicts (indices of failing cases):", {k: v[:6] for k, v in res.items() if v} or "all agree")
    if res["gen_truth"]:
        ctx.broken("generator self-check failed: the ground-truth forest does not flatten to the records written "
                   "(cases %s)" % res["gen_truth"][:5])
    found = False
    for lab, what in WHAT.items():
        src = ekept if lab in ("v_stdout", "v_task", "v_diff", "v_diff2", "v_dorder") else kept
        # report the smallest failing cases (selection instead of shrinking: the generator makes many small ones)
        for i in sorted(res[lab], key=lambda i: sum(len(t["recs"]) for t in src[i]["tasks"]))[:2]:
            found = True
            ctx.violation("C08 violated: " + what, {"check": lab, "case": case_json(src[i]), "impl": src[i].get("impl")}, True)
    nm = 0
    for lab, what in MODEL.items():
        src = ekept if lab in ("m_stdout", "m_task", "m_diff2", "m_dorder") else kept
        nm += len(res[lab])
        if res[lab] and not found:
            i = min(res[lab], key=lambda i: sum(len(t["recs"]) for t in src[i]["tasks"]))
            ctx.violation("model and implementation disagree: %s (%d cases); the property checker accepts the "
                          "implementation's output on every explored case" % (what, len(res[lab])),
                          {"check": lab, "correspondence": "C08.Model vs utils/fstack.c, cmds/report.c, utils/report.c",
                           "case": case_json(src[i]), "impl": src[i].get("impl")}, False)
            break
    ctx.extra["disagreements"] = nm


def known_findings(ctx, kept):
    """lost-after-inherited-wrap: a LOST marker after data that starts at depth > 0 wraps a duration.  The witness
    runs on the implementation on every run; still failing = some figure of its node table is a wrapped negative
    number (>= 2^63).  (Model side: C08_lost_after_inherited_refuted; the case is also compared with the model.)"""
    for case in kept:
        if WITNESS_LOST_WRAP in case["tags"]:
            nodes = case["impl"]["nodes"]
            wrapped = [n for n in nodes if any(x >= 1 << 63 and x != (1 << 64) - 1 for x in n[2:])]
            ctx.known_finding("lost-after-inherited-wrap",
                              "a LOST marker after data that starts at depth > 0 makes report wrap a duration: %s"
                              % (wrapped[:1] or nodes),
                              still_fails=bool(wrapped), replay={"case": case_json(case), "impl": case["impl"]})


def known_finding_lost_inherited(ctx, kept):
    """lost-in-inherited-data: the witness runs on the implementation on every run; still failing = leaf (called
    once, 300 ns) is listed with 2 calls.  Model side: C08_lost_in_inherited_refuted."""
    for case in kept:
        if WITNESS_LOST_INHERITED in case["tags"]:
            leaf = [n for n in case["impl"]["nodes"] if n[0] == "leaf"]
            ctx.known_finding("lost-in-inherited-data",
                              "a LOST marker in data that starts at depth > 0 closes the innermost open call with 1 ns "
                              "and counts it twice: %s" % (leaf or case["impl"]["nodes"]),
                              still_fails=bool(leaf) and leaf[0][1] != 1, replay={"case": case_json(case), "impl": case["impl"]})


def run(ctx):
    common_meta(ctx)
    objdir, exe = setup(ctx)
    cases = corpus_cases() + [gen_case(ctx, i) for i in range(ctx.n(230, 2500))]
    terms, kept, eterms, ekept = explore(ctx, objdir, exe, cases, ctx.n(36, 400))
    ctx.log("explored %d cases (%d end-to-end) on the implementation" % (len(kept), len(ekept)))
    known_findings(ctx, kept)
    known_finding_lost_inherited(ctx, kept)
    # evaluate in chunks (keeps each vm_compute file moderate); the e2e cases are the first ones
    chunk = 600
    for a in range(0, max(len(terms), 1), chunk):
        first = a == 0
        res = evaluate(ctx, terms[a:a + chunk], eterms if first else [])
        verdict(ctx, res, kept[a:a + chunk], ekept if first else [])


def replay(ctx, obj):
    common_meta(ctx)
    objdir, exe = setup(ctx)
    if "case" not in obj:
        ctx.log("replay file has no case; nothing to re-execute")
        return
    case = case_from_json(obj["case"])
    terms, kept, eterms, ekept = explore(ctx, objdir, exe, [case], 1)
    res = evaluate(ctx, terms, eterms)
    ctx.log("replayed: impl table", kept[0].get("impl") if kept else None, "verdicts", res)
    verdict(ctx, res, kept, ekept)
