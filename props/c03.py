"""C03 - No record is lost, duplicated or torn between tracee and recorder.

Theorems: coq/theories/Properties_C03.v over UV.C03.Model (interleaving transition system of
libmcount/record.c's buffer ring and cmds/record.c's FIFO reader / writer threads / stop / flush).

Tie, on every run, two processes as in reality (real FIFO, real POSIX shm):
  producer = harness/c/mc_harness.c linked with the libmcount objects of the current tree
             (entry/exit hooks -> record_trace_data -> get_shmem_buffer ...; shm_open interposed for
             allocation failures),
  recorder = harness/c/c03_recorder.c which #includes cmds/record.c (the real read_record_mmap,
             copy_to_buffer, writer_thread, write_buf_list, flush_shmem_list, record_remaining_buffer).
 (a) step mode: a script names every step (hook call of thread t, next FIFO message, writer w from gate
     to gate, allocation failures, stop/join/flush); after EVERY step a snapshot (ring: nr_buf, curr,
     losts, flag+size of every buffer; shmem_list, buf_write_list, writer tids and bufs, lost count,
     file sizes) is compared with the model inside Coq; at the end the files byte for byte.
 (b) soak mode: the same scripts free-running, 1-8 real writer threads with seeded random delays at
     poll/open/munmap/mutex; only the final files and the lost count are compared (the theorem says
     every schedule gives the same files).
The executable checker ok_c03 (file = concatenation of what the thread put into its buffers, LOST
rule, LOST count) is applied inside Coq to the implementation's outputs alone: in step mode the
per-thread log is OBSERVED (growth of the thread's shm buffers after every hook call, `losts` going up =
a drop), independent of the model; in soak mode (no failures injected) the log is the model's.
"""
import glob
import os
import shutil
import struct
import subprocess

from vf import build, coq
from vf.core import VERIF

KEY_TAIL = "lost-tail-unreported"

# argument capture of the traced functions f<k> (UFTRACE_ARGUMENT): widths of the saved values in bytes;
# f1, f5, f7 have a payload of 4 or 12 bytes = 4 bytes of alignment padding that the size test does not count
ARGW = {1: [4], 2: [8], 3: [4, 4], 4: [8, 8, 8], 5: [4, 8], 7: [4]}
ARGSPEC = "f1@arg1/i32;f2@arg1/i64;f3@arg1/i32,arg2/i32;f4@arg1,arg2,arg3;f5@arg1/i32,arg2/i64;f7@arg1/i32"
ALIGNED_K = [0, 2, 3, 4]
# return values: f2 8 bytes, f6 4 bytes (+ 4 of padding) on the EXIT record
RETW = {2: 8, 6: 4}
RETSPEC = "f2@retval/i64;f6@retval/i32"


def payload(o):
    """saved argument bytes of an ("E", t, k, time, vals) operation"""
    if len(o) < 5:
        return b""
    out = b""
    for w, v in zip(ARGW[o[2]], o[4]):
        out += (v & ((1 << (8 * w)) - 1)).to_bytes(w, "little")
    return out


def ret_payload(o):
    """saved return value bytes of an ("X", t, time, k, val) operation"""
    if len(o) < 5:
        return b""
    w = RETW[o[3]]
    return (o[4] & ((1 << (8 * w)) - 1)).to_bytes(w, "little")


def x_line(o):
    return "X %d" % o[2] if len(o) < 5 else "XR %d %d" % (o[2], o[4])


def e_line(o):
    if len(o) < 5:
        return "E %d %d" % (o[2], o[3])
    return "EA %d %d %s" % (o[2], o[3], " ".join("%d" % v for v in o[4]))

PRE = """From Coq Require Import NArith List Bool.
Import ListNotations.
Require Import UV.Gen.Consts UV.C03.Model.
"""


# ---------------------------------------------------------------- the two processes
class Pair:
    """one recorder + one producer process over <dir>/.channel"""

    def __init__(self, ctx, exes, bufsize, nw, mode, seed, n, args=None):
        self.ctx = ctx
        self.bufsize = bufsize
        self.nw = nw
        self.mode = mode
        self.d = os.path.join(ctx.scratch, "c03d%d" % (n % 4))
        shutil.rmtree(self.d, ignore_errors=True)
        os.makedirs(self.d)
        os.mkfifo(os.path.join(self.d, ".channel"))
        env = {k: v for k, v in os.environ.items() if not k.startswith("UFTRACE_")}
        self.rec = subprocess.Popen(["timeout", "120", exes["rec"], self.d, str(bufsize), str(nw), mode, str(seed)],
                                    stdin=subprocess.PIPE, stdout=subprocess.PIPE, stderr=subprocess.PIPE,
                                    text=True, bufsize=1, env=env)
        l = self.rec.stdout.readline()
        if l.strip() != "READY":
            raise RuntimeError("c03_recorder did not start: %r %s" % (l, self.rec.stderr.read()[-500:]))
        env.update(UFTRACE_DIR=self.d, UFTRACE_BUFFER=str(bufsize), UFTRACE_PATTERN="simple")
        if args:
            env["UFTRACE_ARGUMENT"] = ARGSPEC
            env["UFTRACE_RETVAL"] = RETSPEC
        self.pro = subprocess.Popen(["timeout", "120", exes["pro"]], stdin=subprocess.PIPE, stdout=subprocess.PIPE,
                                    stderr=subprocess.PIPE, text=True, bufsize=1, env=env)
        self.pro_alive = True
        self.cur = 0
        self.tids = {}          # model thread -> real tid
        self.pstate = {}        # model thread -> (nr_buf, curr, losts)
        self.ended = set()
        self.sid = None
        self.sess = {}          # model thread -> [(index of its session's buffer 0 in the model's numbering, session id)]
        self.hth = {}           # model thread -> thread number in the harness (after FORK the child is thread 0 there)
        out = self.P(["BASE"])
        self.base = int(out[0].split()[1])

    # producer
    def P(self, lines):
        if not self.pro_alive:
            raise RuntimeError("producer already gone")
        self.pro.stdin.write("\n".join(lines) + "\nSYNC\n")
        self.pro.stdin.flush()
        out = []
        while True:
            l = self.pro.stdout.readline()
            if not l:
                raise RuntimeError("mc_harness died: rc=%s %s" % (self.pro.poll(), self.pro.stderr.read()[-800:]))
            l = l.strip()
            if l == "SYNC":
                return out
            out.append(l)

    def on_thread(self, t, lines):
        pre = []
        ht = self.hth.get(t, t)
        if self.cur != ht:
            pre = ["T %d" % ht]
            self.cur = ht
        out = self.P(pre + lines)
        return out[len(pre):]

    def refresh(self, t):
        out = self.on_thread(t, ["PSTATE"] + ([] if t in self.tids else ["TID"]))
        k = out[0].split()
        if t not in self.sess:
            self.sess[t] = [(0, self.newest_session())]
        rb = self.sess[t][-1][0]
        self.pstate[t] = (rb + int(k[1]), rb + int(k[2]) if int(k[2]) >= 0 else -1, int(k[3]))
        if t not in self.tids:
            self.tids[t] = int(out[1].split()[1])

    def fork(self, p, ch):
        """FORK: the harness forks, the child goes on with the script as its thread 0, the parent waits"""
        out = self.P(["FORK"])
        if "FORK child" not in out:
            raise RuntimeError("FORK failed: %r" % (out,))
        self.cur = 0
        self.hth[ch] = 0
        self.sess[ch] = [(0, self.sess[p][-1][1])]
        self.refresh(ch)

    def exec_image(self, t):
        """EXEC: same tid, new image, new libmcount session (known once the new image has answered)"""
        old_nb = self.pstate[t][0]
        known = set(self.sessions())
        self.pro.stdin.write("EXEC\n")
        self.pro.stdin.flush()
        l = self.pro.stdout.readline()
        if l.strip() != "EXEC":
            raise RuntimeError("EXEC failed: %r %s" % (l, self.pro.stderr.read()[-500:]))
        self.cur = 0
        self.hth[t] = 0
        out = self.P(["BASE"])
        if int(out[0].split()[1]) != self.base:
            raise RuntimeError("harness base address changed over exec (build it -no-pie)")
        new = [x for x in self.sessions() if x not in known]
        if len(new) != 1:
            raise RuntimeError("expected one new session after exec, got %r" % (new,))
        self.sess[t].append((old_nb, new[0]))

    def quit_producer(self):
        if self.pro_alive:
            self.pro.stdin.write("QUIT\n")
            self.pro.stdin.flush()
            try:
                self.pro.wait(timeout=30)
            except subprocess.TimeoutExpired:
                self.pro.kill()
            self.pro_alive = False

    # recorder
    def R(self, cmd):
        self.rec.stdin.write(cmd + "\n")
        self.rec.stdin.flush()
        l = self.rec.stdout.readline()
        if not l:
            raise RuntimeError("c03_recorder died: rc=%s %s" % (self.rec.poll(), self.rec.stderr.read()[-800:]))
        return l.strip()

    def sessions(self):
        """session ids in the order in which libmcount created them (one per image: exec starts a new one)"""
        fs = [f for f in os.listdir(self.d) if f.startswith("sid-") and f.endswith(".map")]
        fs.sort(key=lambda f: os.stat(os.path.join(self.d, f)).st_mtime_ns)
        return [f[4:20] for f in fs]

    def newest_session(self):
        l = self.sessions()
        return l[-1] if l else None

    def session(self):
        l = self.sessions()
        return l[0] if l else None

    def shm_name(self, t, idx):
        """model buffer (t, idx) -> shm object (the sessions of a task are numbered on)"""
        rb, sid = [x for x in self.sess[t] if x[0] <= idx][-1]
        return "/dev/shm/uftrace-%s-%d-%03d" % (sid, self.tids[t], idx - rb)

    def shm_header(self, t, idx):
        try:
            with open(self.shm_name(t, idx), "rb") as f:
                size, flag = struct.unpack("<II", f.read(8))
            return flag, size
        except (OSError, struct.error):
            return (0xffff, 0xffff)

    def shm_data(self, t, idx, a, b):
        with open(self.shm_name(t, idx), "rb") as f:
            f.seek(16 + a)
            return f.read(b - a)

    def sizes(self, t):
        if t not in self.tids:
            return {}
        return {i: self.shm_header(t, i)[1] for i in range(self.pstate[t][0])}

    def hook(self, t, line, log):
        """one hook call of thread t; appends to `log` what the thread was seen to put into its buffers:
        ("E", bytes) per record, ("M", n, bytes) for a LOST record, ("D",) when losts went up"""
        pre = self.sizes(t)
        old = self.pstate.get(t, (0, -1, 0))
        self.on_thread(t, [line])
        self.refresh(t)
        post = self.sizes(t)
        chunks = []
        for i, sz in post.items():
            a = pre.get(i, 0)
            if sz > a:
                chunks.append((i, self.shm_data(t, i, a, sz)))

        def split(data):
            """whole records of a chunk (a record with the `more` bit carries the saved arguments of its function)"""
            recs = []
            j = 0
            while j < len(data):
                w = struct.unpack("<Q", data[j + 8:j + 16])[0]
                n = 16
                if w & 4:
                    k = ((w >> 16) - self.base - 4) // 256
                    n += ((sum(ARGW.get(k, [])) if w & 3 == 0 else RETW.get(k, 0)) + 7) & ~7
                recs.append(data[j:j + n])
                j += n
            return recs

        def key(ch):
            i, data = ch
            if i == old[1] and i in pre:
                return (0, 0)
            for r in split(data):
                if struct.unpack("<Q", r[8:16])[0] & 3 != 2:
                    return (1, struct.unpack("<Q", r[0:8])[0])
            return (2, 0)
        marker = False
        for i, data in sorted(chunks, key=key):
            for r in split(data):
                w = struct.unpack("<Q", r[8:16])[0]
                if w & 3 == 2:
                    log.append(("M", w >> 16, r))
                    marker = True
                else:
                    log.append(("E", r))
        lo = self.pstate[t][2]
        if (marker and lo > 0) or (not marker and lo > old[2]):
            log.append(("D",))

    def snapshot(self, nt):
        """flat list of ints, same layout as UV.C03.Model.snap"""
        rev = {v: k for k, v in self.tids.items()}

        def enc_id(s):
            sid, rest = s.split(".")
            tid, idx = rest.split(":")
            t = rev.get(int(tid), 777)
            rb = [x[0] for x in self.sess.get(t, []) if x[1] == sid]
            return t * 1000 + (rb[0] if rb else 500) + int(idx)

        def ids(s):
            l = [x for x in s.split(",") if x]
            return [len(l)] + [enc_id(x) for x in l]
        out = []
        for t in range(nt):
            if t in self.ended:
                out.append(999)
            elif t not in self.tids:
                out += [0, 0, 0]
            else:
                nb, cur, lo = self.pstate[t]
                out += [nb, cur + 1, lo]
                for i in range(nb):
                    fl, sz = self.shm_header(t, i)
                    out += [fl, sz]
        out.append(4242)
        snap = self.R("SNAP")
        f = dict(x.split("=", 1) for x in snap.split()[1:])
        out += ids(f["shl"]) + ids(f["bwl"]) + [int(f["lost"]), int(f["kicks"])]
        for w in f["w"].split(";"):
            wt, bufs = w.split(":", 1)
            out.append(0 if wt == "-" else rev.get(int(wt), 777) + 1)
            out += ids(bufs)
        for t in range(nt):
            try:
                out.append(os.path.getsize(os.path.join(self.d, "%d.dat" % self.tids[t])) if t in self.tids else 0)
            except OSError:
                out.append(0)
        self.lost = int(f["lost"])
        return out

    def files(self, nt):
        res = []
        for t in range(nt):
            try:
                res.append(open(os.path.join(self.d, "%d.dat" % self.tids[t]), "rb").read() if t in self.tids else b"")
            except OSError:
                res.append(b"")
        return res

    def close(self):
        self.quit_producer()
        try:
            self.rec.stdin.write("QUIT\n")
            self.rec.stdin.flush()
            self.rec.wait(timeout=20)
        except Exception:
            self.rec.kill()
        for p in (self.pro, self.rec):
            for s in (p.stdin, p.stdout, p.stderr):
                try:
                    s.close()
                except Exception:
                    pass
        for sid in self.sessions():
            for f in glob.glob("/dev/shm/uftrace-%s-*" % sid):
                try:
                    os.unlink(f)
                except OSError:
                    pass


# ---------------------------------------------------------------- scripts
# op tuples: ("E",t,k,time) ("X",t,time) ("END",t) ("FAIL",n) ("M",) ("W",w) ("QUITP",) ("DRAIN",) ("STOP",) ("JOIN",) ("FLUSH",)
def coq_op(o):
    k = o[0]
    if k == "E":
        return "OpE %d %d%%N %d%%N [%s]%%N" % (o[1], o[2], o[3], "; ".join("%d" % b for b in payload(o)))
    if k == "XE":
        return "OpExecE %d %d%%N %d%%N [%s]%%N" % (o[1], o[2], o[3], "; ".join("%d" % b for b in payload(o)))
    if k == "FORK":
        return "OpFork %d %d" % (o[1], o[2])
    if k == "X":
        return "OpX %d %d%%N [%s]%%N" % (o[1], o[2], "; ".join("%d" % x for x in ret_payload(o)))
    if k == "END":
        return "OpEnd %d" % o[1]
    if k == "FAIL":
        return "OpFail %d" % o[1]
    if k == "M":
        return "OpM"
    if k == "W":
        return "OpW %d" % o[1]
    return {"DRAIN": "OpDrain", "STOP": "OpStop", "JOIN": "OpJoin", "FLUSH": "OpFlush", "SETTLE": "OpSettle"}[k]


def model_ops(ops, soak=False):
    """the operations the model executes; for a soak case the model follows one particular schedule (the
    recorder catches up after every hook call) - the theorem says the files do not depend on the schedule"""
    out = []
    for o in ops:
        if o[0] == "QUITP":
            continue
        out.append(o)
        if soak and o[0] in ("E", "X", "END"):
            out += [("DRAIN",), ("SETTLE",)]
    return out


def run_step(ctx, exes, case, n):
    """execute a script step by step; returns (snapshots, files, lost, base, info)"""
    pr = Pair(ctx, exes, case["bufsize"], case["nw"], "step", case["seed"], n, case.get("args"))
    nt = case["nt"]
    snaps = []
    logs = [[] for _ in range(nt)]
    try:
        for o in case["ops"]:
            k = o[0]
            if k == "E":
                pr.hook(o[1], e_line(o), logs[o[1]])
            elif k == "XE":
                pr.exec_image(o[1])
                pr.hook(o[1], e_line(o), logs[o[1]])
            elif k == "FORK":
                pr.fork(o[1], o[2])
            elif k == "X":
                pr.hook(o[1], x_line(o), logs[o[1]])
            elif k == "END":
                # TEND runs the thread destructor (shmem_finish) and switches back to thread 0
                if pr.cur != o[1]:
                    pr.P(["T %d" % o[1]])
                pr.P(["TEND"])
                pr.cur = 0
                pr.ended.add(o[1])
            elif k == "FAIL":
                pr.P(["SHMFAIL %d" % o[1]])
            elif k == "M":
                pr.R("M")
            elif k == "W":
                pr.R("W %d" % o[1])
            elif k == "QUITP":
                pr.quit_producer()
                continue
            elif k == "DRAIN":
                while pr.R("M") != "M none":
                    pass
            elif k in ("STOP", "JOIN", "FLUSH"):
                pr.R(k)
            snaps.append(pr.snapshot(nt))
        files = pr.files(nt)
        return {"snaps": snaps, "files": files, "lost": pr.lost, "base": pr.base, "logs": logs,
                "final_losts": {t: v[2] for t, v in pr.pstate.items() if t not in pr.ended}}
    finally:
        pr.close()


def run_soak(ctx, exes, case, n):
    """the producer runs the whole script at once; the recorder free-runs with nw writers"""
    pr = Pair(ctx, exes, case["bufsize"], case["nw"], "soak", case["seed"], n, case.get("args"))
    nt = case["nt"]
    try:
        pr.rec.stdin.write("RUN\n")
        pr.rec.stdin.flush()
        lines = []
        cur = 0
        for t in range(nt):
            lines += ["T %d" % t, "TID"]
            cur = t
        for o in case["ops"]:
            k = o[0]
            if k in ("E", "X", "END") and cur != o[1]:
                lines.append("T %d" % o[1])
                cur = o[1]
            if k == "E":
                lines.append(e_line(o))
            elif k == "X":
                lines.append(x_line(o))
            elif k == "END":
                lines.append("TEND")
                cur = 0
        out = pr.P(lines)
        tl = [l for l in out if l.startswith("TID ")]
        for t in range(nt):
            pr.tids[t] = int(tl[t].split()[1])
        pr.quit_producer()
        l = pr.rec.stdout.readline()
        if not l.startswith("DONE"):
            raise RuntimeError("c03_recorder soak failed: %r %s" % (l, pr.rec.stderr.read()[-800:]))
        lost = int(l.strip().split("=")[1])
        return {"snaps": [], "files": pr.files(nt), "lost": lost, "base": pr.base, "final_losts": {}, "logs": []}
    finally:
        pr.close()


def case_term(case, res):
    ops = "[" + "; ".join(coq_op(o) for o in model_ops(case["ops"], case["kind"] == "soak")) + "]"
    snaps = "[" + ";\n ".join("[" + "; ".join("%d" % x for x in s) + "]" for s in res["snaps"]) + "]"
    files = "[" + "; ".join("[" + "; ".join("%d" % b for b in f) + "]" for f in res["files"]) + "]"
    def ev(e):
        if e[0] == "E":
            return "Emit [%s]" % "; ".join("%d" % b for b in e[1])
        if e[0] == "M":
            return "Marker %d [%s]" % (e[1], "; ".join("%d" % b for b in e[2]))
        return "Drop []"
    logs = "[" + ";\n ".join("[" + "; ".join(ev(e) for e in l) + "]" for l in res["logs"]) + "]"
    return ("{| c_bufsize := %d; c_nw := %d; c_nt := %d; c_base := %d%%N;\n c_ops := %s;\n c_snaps := (%s)%%N;\n"
            " c_files := (%s)%%N; c_lost := %d%%N;\n c_logs := (%s)%%N |}"
            % (case["bufsize"], case["nw"], case["nt"], res["base"], ops, snaps if res["snaps"] else "[]",
               files, res["lost"], logs))


# ---------------------------------------------------------------- generators
class Gen:
    def __init__(self, rng, nt, args=None):
        self.rng = rng
        self.nt = nt
        self.args = args            # None: no argument capture; "all": every f<k>; "aligned": payloads of 8n bytes only
        self.time = 1000
        self.depth = [0] * nt
        self.stack = [[] for _ in range(nt)]
        self.ops = []

    def tick(self):
        self.time += self.rng.choice([1, 2, 5, 9])
        return self.time

    def enter(self, t, k=None):
        if k is None:
            k = self.rng.choice(ALIGNED_K) if self.args == "aligned" else self.rng.randrange(8)
        if self.args and k in ARGW:
            vals = [self.rng.choice([0, 1, 7, 255, 65536, (1 << 31) - 1, (1 << 32) + 5, (1 << 63) + 9, self.rng.getrandbits(64)])
                    for _ in ARGW[k]]
            self.ops.append(("E", t, k, self.tick(), vals))
        else:
            self.ops.append(("E", t, k, self.tick()))
        self.depth[t] += 1
        self.stack[t].append(k)

    def leave(self, t):
        if self.depth[t] > 0:
            k = self.stack[t].pop()
            if self.args and k in RETW and (self.args == "all" or RETW[k] == 8):
                self.ops.append(("X", t, self.tick(), k, self.rng.choice([0, 1, 255, (1 << 31) + 3, (1 << 40) + 1, self.rng.getrandbits(63)])))
            else:
                self.ops.append(("X", t, self.tick()))
            self.depth[t] -= 1

    def leaf(self, t):
        self.enter(t)
        self.leave(t)

    def start_all(self):
        for t in range(self.nt):
            self.leaf(t)

    def prod_step(self, t, maxdepth=3):
        if self.depth[t] == 0 or (self.depth[t] < maxdepth and self.rng.random() < 0.45):
            self.enter(t)
        else:
            self.leave(t)

    def finish(self, end_threads=(), flush_w=0, nw=1):
        for t in end_threads:
            self.ops.append(("END", t))
        self.ops.append(("QUITP",))
        self.ops.append(("DRAIN",))
        for _ in range(flush_w):
            self.ops.append(("W", self.rng.randrange(nw)))
        self.ops += [("STOP",), ("JOIN",), ("FLUSH",)]
        return self.ops


def gen_random(rng, big=False):
    nt = rng.choice([1, 1, 2, 2, 3])
    nw = rng.choice([1, 2, 2, 3])
    args = rng.choice([None, "all", "all"])
    if args:
        cap = rng.choice([40, 48, 56, 56, 64, 72, 80, 104, 160])    # data bytes per buffer; records are 16..40 bytes
        fail = cap >= 56 and rng.random() < 0.5          # the LOST marker + the largest record must fit
    else:
        per = rng.choice([1, 2, 2, 3, 4, 6])            # records per buffer
        cap = 16 * per
        fail = per >= 2 and rng.random() < 0.5             # the LOST marker + one record must fit
    g = Gen(rng, nt, args)
    g.start_all()
    alive = list(range(nt))
    ended = []
    n = rng.choice([30, 60, 100]) * (2 if big else 1)
    for _ in range(n):
        x = rng.random()
        if x < 0.5:
            g.prod_step(rng.choice(alive))
        elif x < 0.7:
            g.ops.append(("M",))
        elif x < 0.93:
            g.ops.append(("W", rng.randrange(nw)))
        elif x < 0.97 and fail:
            g.ops.append(("FAIL", rng.choice([0, 1, 1, 2, 3])))
        elif len(alive) > 1 and rng.random() < 0.3:
            t = rng.choice([a for a in alive if a != 0])
            alive.remove(t)
            ended.append(t)
            g.ops.append(("END", t))
    tail_end = [t for t in alive if t != 0 and rng.random() < 0.5]
    # just before the end: leave work in every place (FIFO, buf_write_list, a writer's lists)
    if rng.random() < 0.5:
        for _ in range(rng.randrange(2, 7)):
            g.prod_step(rng.choice(alive))
        g.ops += [("M",)] * rng.randrange(0, 4)
        g.ops += [("W", rng.randrange(nw))] * rng.randrange(0, 2)
        for _ in range(rng.randrange(1, 5)):
            g.prod_step(rng.choice(alive))
    ops = g.finish(tail_end, flush_w=rng.randrange(0, 4), nw=nw)
    return {"bufsize": 16 + cap, "nw": nw, "nt": nt, "ops": ops, "kind": "random", "args": args,
            "tags": ["capacity=%d" % cap] + (["args"] if args else ["per-buffer=%d" % (cap // 16)])
            + (["alloc-failures"] if fail else [])}


def directed(rng):
    """scripts aimed at the boundaries of DESIGN appendix B"""
    cases = []

    def mk(name, per, nw, nt, ops, tags, cap=None, args=None):
        cases.append({"bufsize": 16 + (cap or 16 * per), "nw": nw, "nt": nt, "ops": ops, "kind": name, "tags": tags,
                      "args": args})
    # 1. one record per buffer; reuse of buffer 0 while buffer 1 is still RECORDING
    g = Gen(rng, 1)
    g.leaf(0)                      # ENTRY in buf0, EXIT in buf1
    g.ops += [("M",), ("M",), ("M",), ("W", 0), ("W", 0)]      # START0 END0 START1; writer writes buf0
    g.leaf(0)                      # ENTRY: buf1 full -> END1, reuse buf0 (buf1 RECORDING, unprocessed); EXIT -> grow
    g.leaf(0)
    mk("reuse0-while-1-recording", 1, 1, 1, g.finish(nw=1), ["per-buffer=1", "reuse-buf0-while-buf1-recording"])
    # 2. ring growth to >= 4, everything written, then shrink
    g = Gen(rng, 1)
    for _ in range(6):
        g.leaf(0)                  # 12 records, 2 per buffer -> 6 buffers, recorder idle
    g.ops.append(("DRAIN",))
    for _ in range(8):
        g.ops.append(("W", 0))
    g.leaf(0)                      # reuse of index 0; the last buffer (the one just filled) is still RECORDING
    g.ops += [("DRAIN",), ("W", 0), ("W", 0), ("W", 0)]
    for _ in range(4):
        g.leaf(0)                  # reuse of index 1 with >= 3 WRITTEN above and the last one WRITTEN: shrink
    mk("grow-then-shrink", 2, 1, 1, g.finish(nw=1), ["per-buffer=2", "ring>=4", "shrink"])
    # 3. two writers, one thread: the second writer must not touch the thread while the first works for it
    g = Gen(rng, 1)
    g.leaf(0)
    g.leaf(0)
    g.ops += [("DRAIN",), ("W", 0)]              # writer 0 registered for the thread, at the open gate
    g.leaf(0)
    g.leaf(0)
    g.ops += [("DRAIN",), ("W", 1), ("W", 1), ("W", 0), ("W", 1), ("W", 0), ("W", 0), ("W", 0)]
    mk("two-writers-one-thread", 1, 2, 1, g.finish(nw=2), ["per-buffer=1", "2-writers-1-tid", "direct-handover"])
    # 4. one writer, three threads, interleaved
    g = Gen(rng, 3)
    g.start_all()
    for _ in range(5):
        for t in (2, 0, 1):
            g.leaf(t)
    g.ops.append(("DRAIN",))
    for _ in range(12):
        g.ops.append(("W", 0))
    mk("one-writer-three-threads", 2, 1, 3, g.finish(end_threads=[1], nw=1), ["per-buffer=2", "1-writer-3-tids"])
    # 5. allocation failure on the first growth request, then recovery through a released buffer
    g = Gen(rng, 1)
    g.leaf(0)                      # buf0: 2 of 2
    g.leaf(0)                      # buf1: 2 of 2
    g.ops.append(("FAIL", 1))
    g.leaf(0)                      # ENTRY dropped (first growth refused), EXIT not attempted
    g.ops += [("DRAIN",), ("W", 0), ("W", 0)]     # buf0 released
    g.leaf(0)                      # LOST marker + ENTRY in buf0, EXIT -> next
    g.leaf(0)
    mk("alloc-fail-first", 2, 1, 1, g.finish(nw=1), ["per-buffer=2", "alloc-fail-1st", "lost-marker"])
    # 6. two consecutive failures, nested calls (record_trace_data adds count-1)
    g = Gen(rng, 1)
    g.leaf(0)
    g.leaf(0)
    g.ops.append(("FAIL", 2))
    g.enter(0)
    g.enter(0)
    g.enter(0)
    g.leave(0)                     # parent ENTRY refused: losts = 2 + (count-1)
    g.leave(0)                     # refused again
    g.ops += [("DRAIN",), ("W", 0), ("W", 0), ("W", 0)]
    g.leave(0)                     # recovers: LOST marker, the never written ENTRY and its EXIT
    g.leaf(0)
    mk("alloc-fail-two-consecutive", 2, 1, 1, g.finish(nw=1), ["per-buffer=2", "alloc-fail-2-consecutive", "lost-marker",
                                                               "parent-entry-refused"])
    # 7. argument payloads: ENTRY of f4 (16+24) + EXIT (16) fill a 56-byte buffer exactly, every time
    g = Gen(rng, 1, "all")
    for _ in range(4):
        g.enter(0, 4)
        g.leave(0)
    g.ops += [("DRAIN",), ("W", 0), ("W", 0)]
    g.enter(0, 4)
    g.leave(0)
    mk("args-exact-fill", 0, 1, 1, g.finish(nw=1), ["args", "capacity=56", "record-fills-buffer-exactly"], cap=56, args="all")
    # 8. a 4-byte payload (size test 20, advance 24) that ends exactly at the capacity 40
    g = Gen(rng, 1, "all")
    g.enter(0, 0)
    g.enter(0, 1)
    g.leave(0)                     # ENTRY f0 (16) + ENTRY f1 (16+4, padded to 24) = 40; EXIT -> buffer 1
    g.leave(0)
    g.enter(0, 7)
    g.leave(0)
    mk("args-pad-ends-at-capacity", 0, 1, 1, g.finish(nw=1), ["args", "capacity=40", "padded-record-ends-at-capacity"],
       cap=40, args="all")
    # 9. the alignment padding keeps the bytes the re-used buffer held before
    g = Gen(rng, 1, "all")
    for _ in range(3):
        g.enter(0, 4)              # 24 bytes of arguments, values with no zero byte
        g.ops[-1] = g.ops[-1][:4] + ([0x1122334455667788, 0x99aabbccddeeff11, 0x1213141516171819],)
        g.leave(0)
    g.ops += [("DRAIN",), ("W", 0), ("W", 0), ("W", 0), ("W", 0)]      # buffers released, contents stay
    for k in (1, 5, 7, 1, 5):
        g.enter(0, k)              # 4 / 12 bytes of arguments: 4 bytes of padding each
        g.leave(0)
    mk("args-stale-padding", 0, 1, 1, g.finish(nw=1), ["args", "capacity=64", "padding-keeps-old-bytes"], cap=64, args="all")
    return cases


STALL_DOC = """the writer is stalled while the thread owns >= 4 buffers of which the upper ones were written
once, re-used and filled again (flag WRITTEN|RECORDING, REC_END sent, still waiting for the writer) and the
thread switches to a low index.  The "shrink unused buffers" block must not take the pending ones for unused
(flag == WRITTEN, not flag & WRITTEN): it would unmap the last one, forget it (nr_buf--), and the next allocation
would re-create the shm object with O_TRUNC and zero the pending records"""


def stall_directed(rng, per):
    """ring of 4; per = 1 or 2 records per buffer (a leaf call = 2 records)"""
    g = Gen(rng, 1)
    lv = (lambda n: [g.leaf(0) for _ in range(n)])
    if per == 1:
        lv(2)                                           # r1..r4: buffers 0,1,2 full, 3 current
        g.ops += [("DRAIN",)] + [("W", 0)] * 4          # 0,1,2 written: WRITTEN
        lv(1)                                           # r5: END 3, re-use 0; r6: END 0, re-use 1
        g.ops += [("DRAIN",)] + [("W", 0)] * 2          # the writer takes 3 and 0, writes 3
        lv(1)                                           # r7: re-use 2; r8: re-use 3
        g.ops += [("W", 0)]                             # 0 written: 0 free, 1,2 pending (WRITTEN|RECORDING), 3 current
        lv(1)                                           # r9: END 3, switch to 0 with 1,2,3 pending above: the shrink test
        lv(2)                                           # r10..: 0 full, nothing free: the ring must grow at index 4 (3 if it shrank)
    else:
        lv(4)                                           # buffers 0..3 full, 3 current
        g.ops += [("DRAIN",)] + [("W", 0)] * 4
        lv(1)                                           # END 3, re-use 0
        g.ops += [("DRAIN",)] + [("W", 0)] * 2          # 3 written
        lv(3)                                           # re-use 1, 2, 3: 0,1,2 pending
        g.ops += [("DRAIN",)] + [("W", 0)] * 2          # writer takes 0,1,2 and writes only 0: stalled
        lv(1)                                           # END 3, switch to 0 with 1,2,3 pending above: the shrink test
        lv(2)                                           # nothing free: grow
    return {"bufsize": 16 + 16 * per, "nw": 1, "nt": 1, "ops": g.finish(nw=1), "kind": "stalled-writer-reuse",
            "args": None, "tags": ["per-buffer=%d" % per, "stalled-writer", "ring=4"]}


def gen_stall(rng, big=False):
    """one thread, small buffers, the writer runs in rare short bursts: rings of 4-8 buffers in every mixture of
    WRITTEN / RECORDING / WRITTEN|RECORDING while the thread wraps around to low indexes"""
    per = rng.choice([1, 1, 2, 2, 3])
    g = Gen(rng, 1)
    g.leaf(0)
    for _ in range(rng.choice([14, 20, 28]) * (2 if big else 1)):
        for _ in range(rng.randrange(1, 2 + 2 * per)):
            g.leaf(0)
        if rng.random() < 0.8:
            g.ops.append(("DRAIN",))
        g.ops += [("W", 0)] * rng.choice([0, 1, 2, 2, 3, 4, 6])
    return {"bufsize": 16 + 16 * per, "nw": 1, "nt": 1, "ops": g.finish(nw=1), "kind": "stalled-writer-random",
            "args": None, "tags": ["per-buffer=%d" % per, "stalled-writer"]}


def gen_forkexec(rng, directed=None):
    """fork and exec at the protocol level: the child of a fork is known to the recorder under (parent pid, child
    tid); when a task execs, the new image's TASK_START must make the recorder queue the old image's buffer
    (flush_old_shmem) before any buffer of the new session"""
    fork = True if directed else rng.random() < 0.7
    per = 2 if directed else rng.choice([1, 2, 3])
    nw = 1 if directed else rng.choice([1, 2])
    g = Gen(rng, 2 if fork else 1)
    t = 0
    g.leaf(0)
    if rng.random() < 0.5 or directed:
        g.enter(0)                      # an open call is inherited by the child (marked written there)

    def rec_ops(n):
        for _ in range(n):
            x = rng.random()
            g.ops.append(("M",) if x < 0.45 else ("W", rng.randrange(nw)) if x < 0.9 else ("DRAIN",))
    if not directed:
        rec_ops(rng.randrange(0, 4))
    if fork:
        g.ops.append(("FORK", 0, 1))
        g.depth[1] = g.depth[0]
        g.stack[1] = list(g.stack[0])
        t = 1
    for _ in range(1 if directed else rng.randrange(1, 4)):
        g.leaf(t)
    for n in range(1 if directed else rng.choice([1, 1, 2])):
        if not directed:
            rec_ops(rng.randrange(0, 5))
        k = rng.randrange(8)
        g.ops.append(("XE", t, k, g.tick()))
        g.depth[t] = 1
        g.stack[t] = [k]
        g.leave(t)
        for _ in range(3 if directed else rng.randrange(1, 3 + 2 * per)):
            g.prod_step(t)              # the new image fills at least one buffer
        if directed:
            g.ops += [("DRAIN",)] + [("W", 0)] * 4
            g.leaf(t)
    if not directed:
        rec_ops(rng.randrange(0, 6))
    ops = g.finish(flush_w=0 if directed else rng.randrange(0, 3), nw=nw)
    return {"bufsize": 16 + 16 * per, "nw": nw, "nt": 2 if fork else 1, "ops": ops, "kind": "fork-exec",
            "args": None, "tags": ["per-buffer=%d" % per, "exec", "fork+exec" if fork else "exec-of-the-first-process"]}


def tail_loss_case(rng):
    """allocation refused on the LAST request: the dropped records are never reported (witness of the
    refuted theorem C03_lost_tail_unreported_refuted)"""
    g = Gen(rng, 1)
    g.leaf(0)
    g.leaf(0)
    g.ops.append(("FAIL", 5))
    g.leaf(0)
    return {"bufsize": 16 + 32, "nw": 1, "nt": 1, "ops": g.finish(nw=1), "kind": "tail-loss",
            "tags": ["per-buffer=2", "alloc-fail-last"]}


def gen_soak(rng, big=False):
    nt = rng.choice([1, 2, 3, 4])
    nw = rng.choice([1, 2, 3, 4, 8])
    per = rng.choice([1, 2, 3, 8, 255])          # 255 records = 4 KiB buffers
    # payloads of 8n bytes only: the alignment padding keeps what the buffer held before, which depends on the schedule
    args = rng.choice([None, "aligned"])
    if args and per < 3:
        per = 3
    g = Gen(rng, nt, args)
    g.start_all()
    alive = list(range(nt))
    for _ in range(rng.choice([150, 300, 500]) * (3 if big else 1)):
        g.prod_step(rng.choice(alive), maxdepth=4)
    ends = [t for t in range(1, nt) if rng.random() < 0.6]
    ops = g.ops + [("END", t) for t in ends] + [("QUITP",), ("DRAIN",), ("STOP",), ("JOIN",), ("FLUSH",)]
    return {"bufsize": 16 + 16 * per, "nw": nw, "nt": nt, "ops": ops, "kind": "soak", "args": args,
            "tags": ["soak", "capacity=%d" % (16 * per), "writers=%d" % nw, "threads=%d" % nt] + (["args-aligned"] if args else [])}


# ---------------------------------------------------------------- observation-derived boundary tags
def observed_tags(case, res):
    tags = set()
    nt = case["nt"]
    prev_nb = {}
    prev_bwl = None
    for s in res["snaps"]:
        i = 0
        for t in range(nt):
            if s[i] == 999:
                i += 1
                continue
            nb = s[i]
            if nb >= 4:
                tags.add("ring>=4")
            if t in prev_nb and nb < prev_nb[t]:
                tags.add("shrink-observed")
            prev_nb[t] = nb
            if s[i + 2] > 0:
                tags.add("loss-pending")
            if s[i + 1] == 1 and nb >= 2 and (s[i + 3 + 2] & 4):
                tags.add("curr=0,buf1-RECORDING")
            c = s[i + 1] - 1
            if c >= 0 and c + 3 <= nb:
                above = [s[i + 3 + 2 * q] for q in range(c + 1, nb)]
                if sum(1 for f in above if f & 2) >= 3 and (above[-1] & 2) and \
                        not (sum(1 for f in above if f == 2) >= 3 and above[-1] == 2):
                    tags.add("shrink-test:pending(WRITTEN|RECORDING)-buffers-above-curr")
            i += 3 + 2 * nb
        i += 1      # 4242
        nshl = s[i]
        i += 1 + nshl
        nbwl = s[i]
        if prev_bwl is not None and prev_bwl - nbwl >= 2:
            tags.add("picked>=2-at-once")
        prev_bwl = nbwl
        i += 1 + nbwl
        if s[i] > 0:
            tags.add("lost-reported")
        if s[i + 1] > nbwl:
            tags.add("spare-kick")
        if s[i + 1] == nbwl and nbwl > 0:
            tags.add("kicks=queued")
        i += 2
        busy = 0
        for w in range(case["nw"]):
            if s[i] != 0:
                busy += 1
            nb = s[i + 1]
            if nb > 0:
                tags.add("direct-handover-observed")
            i += 2 + nb
        if busy >= 2:
            tags.add("two-writers-busy")
    return sorted(tags)


def parse_rec_part(case, s):
    """recorder part of a snapshot -> (len shmem_list, len buf_write_list, busy writers, buffers handed over directly)"""
    i = 0
    for t in range(case["nt"]):
        i += 1 if s[i] == 999 else 3 + 2 * s[i]
    i += 1
    nshl = s[i]
    i += 1 + nshl
    nbwl = s[i]
    i += 1 + nbwl + 2
    busy = direct = 0
    for w in range(case["nw"]):
        busy += 1 if s[i] else 0
        direct += s[i + 1]
        i += 2 + s[i + 1]
    return nshl, nbwl, busy, direct


def stop_tags(case, res):
    """in which situation stop_all_writers found the recorder (the case splits of C03_can_finish)"""
    mo = model_ops(case["ops"])
    if ("STOP",) not in mo or not res["snaps"]:
        return []
    k = mo.index(("STOP",))
    if k == 0 or k > len(res["snaps"]):
        return []
    nshl, nbwl, busy, direct = parse_rec_part(case, res["snaps"][k - 1])
    tags = []
    if busy:
        tags.append("stop:writer-busy")
    if direct:
        tags.append("stop:direct-bufs-pending")
    if nbwl:
        tags.append("stop:buf_write_list-nonempty")
    if nshl > 1:
        tags.append("stop:several-unfinished-buffers")
    if not (busy or nbwl):
        tags.append("stop:quiet")
    return tags


# ---------------------------------------------------------------- the check
def build_harnesses(ctx):
    objdir = build.get_build("plain", ctx.log)
    exes = {"rec": os.path.join(ctx.scratch, "c03_recorder"), "pro": os.path.join(ctx.scratch, "mc_harness_c03")}
    build.cc([os.path.join(VERIF, "harness/c/c03_recorder.c"), build.uf_archive(objdir)], exes["rec"], objdir,
             extra=build.UF_LIBS)
    build.cc([os.path.join(VERIF, "harness/c/mc_harness.c")] + build.libmcount_objs(objdir, ""), exes["pro"], objdir,
             extra=build.LINK_LIBS + ["-DLIBMCOUNT", "-no-pie"])
    return exes


def execute(ctx, exes, case, n):
    if case["kind"] == "soak":
        return run_soak(ctx, exes, case, n)
    return run_step(ctx, exes, case, n)


def evaluate(ctx, name, cases, results):
    terms = [case_term(c, r) for c, r in zip(cases, results)]
    defs = "Definition cases : list case := [\n%s\n].\n" % ";\n".join(terms)
    return coq.run_cases(ctx, name, PRE, defs, [
        ("mismatch", "bad_indices case_agrees 0 cases"),
        ("violations", "bad_indices case_ok 0 cases"),
        ("diffs", "map (fun k => match case_diff k with Some i => S i | None => 0 end) cases"),
    ], timeout=1200)


def replay_obj(case, res=None, extra=None):
    o = {"mode": case["kind"], "bufsize": case["bufsize"], "nw": case["nw"], "nt": case["nt"], "ops": case["ops"],
         "case_seed": case["seed"], "args": case.get("args")}
    if res is not None:
        o["impl_lost"] = res["lost"]
        o["impl_file_sizes"] = [len(f) for f in res["files"]]
    if extra:
        o.update(extra)
    return o


def judge(ctx, cases, results, ev):
    mism = coq.parse_nat_list(ev["mismatch"])
    viol = coq.parse_nat_list(ev["violations"])
    diffs = coq.parse_nat_list(ev["diffs"])
    for i in viol[:3]:
        c, r = cases[i], results[i]
        ctx.violation("C03: a thread's data file is not the concatenation of the records the thread put into its "
                      "buffers (or the LOST rule / LOST count is broken)", replay_obj(c, r), True)
    if mism and not viol:
        i = mism[0]
        c, r = cases[i], results[i]
        d = diffs[i] - 1 if i < len(diffs) else -1
        mo = model_ops(c["ops"])
        ctx.violation("model and implementation disagree on %d case(s) (hand-off state after an operation, final "
                      "files or LOST count); the property checker accepts every explored output" % len(mism),
                      replay_obj(c, r, {"correspondence": "UV.C03.Model vs libmcount/record.c + cmds/record.c",
                                        "first_differing_op_index": d,
                                        "first_differing_op": mo[d] if 0 <= d < len(mo) else None,
                                        "impl_snapshot": r["snaps"][d] if 0 <= d < len(r["snaps"]) else None}), False)
    return mism, viol


# ---------------------------------------------------------------- end to end: the real `uftrace record`
def e2e_program(nthreads, iters, nested):
    """C program with known per-thread call sequences; returns (source, expected) where expected[name of the
    thread's outermost function] = [(type, depth, function)] in program order (type 0 = ENTRY, 1 = EXIT)"""
    src = ["#include <pthread.h>", "static pthread_barrier_t bar;",
           "#define LEAF(n) __attribute__((noinline)) void n(void) { asm volatile(\"\" ::: \"memory\"); }"]
    expected = {}

    def body(tag, n):
        exp = []
        lines = []
        src.append("LEAF(a%s) LEAF(b%s) LEAF(c%s) LEAF(d%s)" % (tag, tag, tag, tag))
        if nested:
            src.append("__attribute__((noinline)) void n%s(void) { d%s(); asm volatile(\"\" ::: \"memory\"); }" % (tag, tag))
        lines.append("for (int i = 0; i < %d; i++) { a%s(); if (i %% 3 == 0) b%s(); if (i %% 5 == 1) c%s();%s }"
                     % (n, tag, tag, tag, (" if (i %% 4 == 2) n%s();" % tag) if nested else ""))
        for i in range(n):
            exp += [(0, 1, "a" + tag), (1, 1, "a" + tag)]
            if i % 3 == 0:
                exp += [(0, 1, "b" + tag), (1, 1, "b" + tag)]
            if i % 5 == 1:
                exp += [(0, 1, "c" + tag), (1, 1, "c" + tag)]
            if nested and i % 4 == 2:
                exp += [(0, 1, "n" + tag), (0, 2, "d" + tag), (1, 2, "d" + tag), (1, 1, "n" + tag)]
        return lines, exp
    for t in range(nthreads):
        tag = "T%d" % t
        lines, exp = body(tag, iters[t + 1])
        src.append("void *thr%s(void *arg) { pthread_barrier_wait(&bar); %s return 0; }" % (tag, " ".join(lines)))
        expected["thr" + tag] = [(0, 0, "thr" + tag)] + exp + [(1, 0, "thr" + tag)]
    lines, exp = body("M", iters[0])
    src.append("int main(void) { pthread_t th[%d]; pthread_barrier_init(&bar, 0, %d);" % (max(nthreads, 1), nthreads + 1))
    for t in range(nthreads):
        src.append("  pthread_create(&th[%d], 0, thrT%d, 0);" % (t, t))
    src.append("  pthread_barrier_wait(&bar); %s" % " ".join(lines))
    for t in range(nthreads):
        src.append("  pthread_join(th[%d], 0);" % t)
    src.append("  return 0; }")
    expected["main"] = [(0, 0, "main")] + exp + [(1, 0, "main")]
    return "\n".join(src) + "\n", expected


def e2e_forkexec_program(pre, post):
    """parent: pw(); fork(); wait.  child: `pre` calls of cb(), then exec of the same binary (same tid, new
    libmcount session) which makes `post` calls of ca() - more than one trace buffer.  The child's <tid>.dat
    must be [pre-exec records][post-exec records] in that order (flush_old_shmem at the TASK_START of the new image)"""
    src = """#include <string.h>
#include <sys/wait.h>
#include <unistd.h>
#define LEAF(n) __attribute__((noinline)) void n(void) { asm volatile("" ::: "memory"); }
LEAF(pw) LEAF(cb) LEAF(ca) LEAF(cz)
int main(int argc, char **argv)
{
	if (argc > 1 && !strcmp(argv[1], "child")) {
		for (int i = 0; i < %d; i++) ca();
		cz();
		return 0;
	}
	pw();
	pid_t pid = fork();
	if (pid == 0) {
		for (int i = 0; i < %d; i++) cb();
		execl(argv[0], argv[0], "child", (char *)0);
		_exit(9);
	}
	int st; waitpid(pid, &st, 0);
	pw();
	return 0;
}
""" % (post, pre)
    expected = {
        "main": [(0, 0, "main"), (0, 1, "pw"), (1, 1, "pw"), (0, 1, "pw"), (1, 1, "pw"), (1, 0, "main")],
        # the forked child inherits main's frame (ENTRY already written by the parent) and never returns from it
        "cb": [(0, 1, "cb"), (1, 1, "cb")] * pre + [(0, 0, "main")] + [(0, 1, "ca"), (1, 1, "ca")] * post
              + [(0, 1, "cz"), (1, 1, "cz"), (1, 0, "main")],
    }
    return src, expected


def e2e_decode(d, exe):
    """independent decoder: {tid: (records, whole)}; a record is (type, depth, name) or ("L", n)"""
    from vf.core import sh
    rc, out, _ = sh(["nm", "-n", exe])
    syms = []
    for line in out.splitlines():
        k = line.split()
        if len(k) == 3 and k[1] in "Tt":
            syms.append((int(k[0], 16), k[2]))
    res = {}
    for df in glob.glob(os.path.join(d, "*.dat")):
        tid = os.path.basename(df)[:-4]
        if not tid.isdigit():
            continue
        data = open(df, "rb").read()
        recs = []
        times = []
        for off in range(0, len(data) - 15, 16):
            t, w = struct.unpack_from("<QQ", data, off)
            ty, magic, depth, addr = w & 3, (w >> 3) & 7, (w >> 6) & 0x3ff, w >> 16
            if magic != 5:
                recs.append(("BAD", off))
                continue
            if ty == 2:
                recs.append(("L", addr))
                continue
            name = "?%x" % addr
            for a, n in syms:
                if a <= addr:
                    name = n
                else:
                    break
            recs.append((ty, depth, name))
            times.append(t)
        res[int(tid)] = (recs, len(data) % 16 == 0, all(times[i] <= times[i + 1] for i in range(len(times) - 1)))
    return res


def e2e_match(recs, exp, lossy):
    """file records against the thread's program order: equal, or - when allocation failures were injected - the
    stretches between LOST markers are contiguous stretches of the program order, in order (records are missing
    only directly before a marker or at the very end).  -> (ok, markers, number of records missing at the end)"""
    segs = [[]]
    markers = []
    for r in recs:
        if r[0] == "BAD":
            return False, markers, 0
        if r[0] == "L":
            markers.append(r[1])
            segs.append([])
        else:
            segs[-1].append(r)
    if markers and not lossy:
        return False, markers, 0
    pos = 0
    for n, seg in enumerate(segs):
        if n == 0:
            if exp[:len(seg)] != seg:
                return False, markers, 0
            pos = len(seg)
            continue
        if not seg:
            continue
        p = pos
        while p + len(seg) <= len(exp) and exp[p:p + len(seg)] != seg:
            p += 1
        if p + len(seg) > len(exp):
            return False, markers, 0
        pos = p + len(seg)
    tail = len(exp) - pos
    if tail and not lossy:
        return False, markers, tail
    return True, markers, tail


def e2e(ctx, objdir):
    """the real `uftrace record` (its own main loop, FIFO handling, writer threads, stop and flush) with 4 KiB
    buffers, 1-4 writer threads and several traced threads that each call only their own functions; then with
    allocation failures injected into the traced program: LOST markers in the files and the `LOST n records`
    warning must match"""
    from vf.core import sh
    rng = ctx.rng
    uft = os.path.join(objdir, "uftrace")
    work = os.path.join(ctx.scratch, "e2e")
    os.makedirs(work, exist_ok=True)
    lib = os.path.join(work, "libc03shmfail.so")
    rc, o, e = sh(["gcc", "-shared", "-fPIC", "-O1", "-o", lib, os.path.join(VERIF, "harness/c/c03_shmfail.c"), "-ldl"])
    if rc != 0:
        ctx.broken("c03_shmfail.c does not compile", e[-500:])
        return
    nlost_runs = 0
    nfx = ctx.n(2, 6)
    for pi in range(ctx.n(5, 24) + nfx):
        forkexec = pi < nfx
        lossy = (not forkexec) and pi % 2 == 1
        nth = rng.choice([1, 2, 3, 4])
        iters = [rng.choice([300, 900, 2000]) for _ in range(nth + 1)]
        if forkexec:
            nth = 1
            src, expected = e2e_forkexec_program(rng.choice([1, 3, 40]), rng.choice([300, 700, 2000]))
        else:
            src, expected = e2e_program(nth, iters, nested=not lossy)
        cfile = os.path.join(work, "p%d.c" % pi)
        exe = os.path.join(work, "p%d" % pi)
        open(cfile, "w").write(src)
        rc, o, e = sh(["gcc", "-O0", "-pg", "-no-pie", "-o", exe, cfile, "-pthread"], timeout=120)
        if rc != 0:
            ctx.broken("e2e program does not compile", e[-500:])
            continue
        nw = rng.choice([1, 2, 3, 4])
        dd = os.path.join(work, "d%d" % pi)
        env = {}
        if lossy:
            frm = 2 * (nth + 1) + rng.choice([0, 1, 3])
            env = {"LD_PRELOAD": lib, "C03_SHMFAIL_FROM": str(frm), "C03_SHMFAIL_TO": str(frm + rng.choice([2, 8, 40, 100000]))}
        bsz = "4k" if forkexec else rng.choice(["4k", "4k", "4k", "8k", "64k"])
        rc, o, e = sh(["timeout", "60", uft, "record", "--no-pager", "--no-event", "--no-libcall", "-b", bsz,
                       "--num-thread", str(nw), "--libmcount-path=" + objdir, "-d", dd, exe], timeout=90, env=env)
        rep = {"mode": "e2e", "program": src, "writers": nw, "buffer": bsz, "env": env, "stderr": e[-600:]}
        if rc != 0:
            ctx.violation("uftrace record failed/timed out on a generated program (rc=%d)" % rc, rep, True)
            continue
        got = e2e_decode(dd, exe)
        warned = 0
        for line in e.splitlines():
            if "LOST" in line and "records" in line:
                warned += int(line.split("LOST")[1].split()[0])
        tags = ["e2e", "e2e:threads=%d" % (nth + 1), "e2e:writers=%d" % nw, "e2e:-b" + bsz, "e2e:lossy" if lossy else "e2e:lossless"]
        if forkexec:
            tags.append("e2e:fork+exec(same tid, two sessions)")
        ok = len(got) == len(expected)
        why = "" if ok else "%d data files for %d threads" % (len(got), len(expected))
        total_markers = 0
        tails = 0
        for tid, (recs, whole, mono) in sorted(got.items()):
            first = next((r for r in recs if r[0] not in ("L", "BAD")), None)
            exp = expected.get(first[2]) if first else None
            if exp is None:
                # a thread whose very first record was lost cannot be told from its file alone
                ok, why = False, "file %d.dat does not start with the outermost function of a thread" % tid
                continue
            good, markers, tail = e2e_match(recs, exp, lossy)
            total_markers += sum(markers)
            tails += 1 if tail else 0
            if not (good and whole and mono):
                ok = False
                why = ("%d.dat (thread %s): %s" % (tid, first[2], "not the thread's call sequence" if not good else
                                                    "torn record" if not whole else "timestamps go back"))
        if ok and warned != total_markers:
            ok, why = False, "LOST markers in the files add up to %d, the warning says %d" % (total_markers, warned)
        if total_markers:
            tags.append("e2e:lost-markers-and-warning")
            nlost_runs += 1
        if tails:
            tags.append("e2e:tail-loss(known finding)")
        ctx.case(key=("e2e", src, nw, tuple(sorted(env.items()))), tags=tags, size=sum(len(x) for x in expected.values()))
        if not ok:
            rep["why"] = why
            rep["files"] = {str(t): [list(r) for r in v[0][:60]] for t, v in got.items()}
            ctx.violation("C03 (end-to-end `uftrace record -b %s --num-thread %d`): %s" % (bsz, nw, why), rep, True)
    ctx.extra["e2e_runs_with_losses"] = nlost_runs
    ctx.log("end-to-end: %d recordings with the real uftrace record, %d with LOST markers" % (ctx.n(5, 24), nlost_runs))


def run(ctx):
    coq.prove(ctx, "C03")
    exes = build_harnesses(ctx)
    e2e(ctx, build.get_build("plain", ctx.log))
    rng = ctx.rng
    cases = []
    cases += directed(rng)
    cases += [stall_directed(rng, 1), stall_directed(rng, 2), gen_forkexec(rng, directed=True)]
    for _ in range(ctx.n(3, 24)):
        cases.append(gen_forkexec(rng))
    for _ in range(ctx.n(4, 24)):
        cases.append(gen_stall(rng))
    tl = tail_loss_case(rng)
    cases.append(tl)
    for _ in range(ctx.n(20, 130)):
        cases.append(gen_random(rng, big=ctx.thorough()))
    for _ in range(ctx.n(10, 50)):
        cases.append(gen_soak(rng, big=ctx.thorough()))
    results = []
    kept = []
    for n, c in enumerate(cases):
        c["seed"] = ctx.subseed("c03/%d" % n) % (1 << 30)
        try:
            r = execute(ctx, exes, c, n)
        except Exception as e:
            ctx.violation("C03: the hand-off harness failed (crash, hang or protocol error): %s" % (str(e)[:300],),
                          replay_obj(c), True)
            continue
        kept.append(c)
        results.append(r)
        nrec = sum(len(f) for f in r["files"]) // 16
        sizes = set(len(e[1]) for l in r["logs"] for e in l if e[0] == "E")
        argtags = ["record-size=%d" % z for z in sorted(sizes) if z != 16]
        if any(e[0] == "E" and len(e[1]) in (24, 32) and any(e[1][-4:]) and (struct.unpack("<Q", e[1][8:16])[0] >> 16) - r["base"] - 4 in (256, 5 * 256, 7 * 256)
               for l in r["logs"] for e in l):
            argtags.append("padding-nonzero-observed")
        tags = list(c["tags"]) + argtags + observed_tags(c, r) + stop_tags(c, r) + ["mode:" + ("soak" if c["kind"] == "soak" else "step"),
                                                        "writers=%d" % c["nw"], "threads=%d" % c["nt"]]
        ctx.case(key=(c["kind"], c["bufsize"], c["nw"], c["nt"], tuple(c["ops"])), nontrivial=nrec >= 4, tags=tags,
                 size=len(c["ops"]),
                 sample={"kind": c["kind"], "bufsize": c["bufsize"], "writers": c["nw"], "threads": c["nt"],
                         "ops": [list(o) for o in c["ops"][:14]], "records_in_files": nrec, "lost": r["lost"]}
                 if c["kind"] in ("random", "soak") else None)
    cases = kept
    # evaluate in chunks (keeps each cases.v small)
    allm, allv = [], []
    CH = 12
    for a in range(0, len(cases), CH):
        ev = evaluate(ctx, "c03_cases_%d" % (a // CH), cases[a:a + CH], results[a:a + CH])
        if ev is None:
            continue
        m, v = judge(ctx, cases[a:a + CH], results[a:a + CH], ev)
        allm += m
        allv += v
    ctx.extra["disagreements_checked"] = len(allm)
    ctx.extra["snapshots_compared"] = sum(len(r["snaps"]) for r in results)
    ctx.extra["cases_step"] = sum(1 for c in cases if c["kind"] != "soak")
    ctx.extra["cases_soak"] = sum(1 for c in cases if c["kind"] == "soak")
    # the loss that is never reported (refuted theorem): witness
    for c, r in zip(cases, results):
        if c["kind"] == "tail-loss":
            still = r["lost"] == 0 and any(v > 0 for v in r["final_losts"].values())
            txt = ("records dropped after the last successful buffer switch are never reported: producer ends with "
                   "losts=%s, recorder prints no LOST (shmem_lost_count=%d)" % (r["final_losts"], r["lost"]))
            if ctx.kf.listed(ctx.prop, KEY_TAIL):
                ctx.known_finding(KEY_TAIL, txt, still_fails=still, replay=replay_obj(c, r))
            else:
                ctx.log("candidate finding (not listed, reported to the lead): " + txt + (" [reproduces]" if still else " [gone]"))
                ctx.extra["candidate_finding_tail_loss_reproduces"] = still
    ctx.rule = ("model: UV.C03.Model (producer ring + FIFO + N writers + stop/flush LTS); a case is a script of "
                "operations executed by two processes (real libmcount objects; real cmds/record.c) over the real "
                "FIFO and POSIX shm; step mode compares a snapshot of both sides after every operation with the "
                "model (vm_compute), soak mode (free-running, seeded delays) the final files; checker ok_c03 on the "
                "implementation's outputs: file bytes = concatenation of the records seen to enter the thread's shm "
                "buffers, LOST marker before the next record after a drop, LOST count = sum of markers")
    ctx.trusted = ["Coq 8.16.1 kernel + vm_compute", "axioms: none (Print Assumptions: closed)",
                   "hand-written model coq/theories/C03/Model.v (tied by differential testing, not derived from the C text)",
                   "gen/gen_consts.py (record/flag constants)",
                   "harness/c/mc_harness.c, harness/c/c03_recorder.c (gates by interposing poll/open; cmds/record.c #included)",
                   "Linux FIFO atomicity for messages <= PIPE_BUF, sequentially consistent shared memory (x86 TSO + the code's fence)"]
    ctx.assume = ["plain configuration (no arguments/events): every record is 16 bytes",
                  "a LOST marker plus one record fits into a buffer whenever allocation failures are injected",
                  "normal termination: the recorder stops after the FIFO is drained and every tracee thread is gone",
                  "hardware/compiler memory ordering is not modelled (steps are sequentially consistent)"]


def replay(ctx, obj):
    exes = build_harnesses(ctx)
    case = {"bufsize": obj["bufsize"], "nw": obj["nw"], "nt": obj["nt"], "ops": [tuple(o) for o in obj["ops"]],
            "kind": obj.get("mode", "random"), "seed": obj.get("case_seed", 1), "tags": [], "args": obj.get("args")}
    r = execute(ctx, exes, case, 0)
    ctx.case(key=("replay", tuple(case["ops"])), size=len(case["ops"]))
    ev = evaluate(ctx, "c03_replay", [case], [r])
    if ev is not None:
        judge(ctx, [case], [r], ev)
