"""C10 - Recorded addresses resolve to the right symbol, module and session.

Theorems: coq/theories/Properties_C10.v over coq/theories/C10/Model.v; the comparison kernels
addrfind/addrsort/is_kernel_address/get_kernel_address/guess_kernel_base are TRANSLATED from the C
text on every run (gen/gen_kernels.py -> coq/theories/Gen/Kernels.v).

Tie (every run, real object code of the current tree, harness/c/c10_harness.c):
  K  generated kernels vs the C functions on boundary triples
  L  find_sym (bsearch + addrfind) on generated tables, probes addr-1/addr/addr+size-1/addr+size
  S  save_module_symbol_file / load_module_symbol_file on real files (round trip + hand-made variants)
  M  read_session_map on real files; record_proc_maps (libmcount) on a fake /proc/self/maps
  D  whole data directories (task.txt + sid-*.map + *.sym): read_task_txt_file, then
     task_find_sym_addr for probes (tid, time, addr) - sessions by time, fork/exec, dlopen, ASLR
  R  real recordings of programs that dlopen() an instrumented library whose constructor / C++ global initialiser
     call traced functions and dlopen() a second library: every record judged against dladdr + nm ground truth,
     DLOP time <= record time for every record inside the library (record-side ordering invariant)
  E  end to end: `uftrace replay` on a synthetic directory with two sessions and a real
     record/replay of a PIE program with a shared library and dlopen (also --with-syms)
Every answer of the implementation is compared with the model inside Coq (mismatch) and judged
by the executable specification (violations).
"""
import os
import shutil
import struct

from vf import build, coq, datadir
from vf.core import sh

HERE = os.path.dirname(os.path.abspath(__file__))
W64 = 1 << 64
ALLOWED = "?TtwPKDdvu"
NAMES = ["main", "alpha", "beta", "gamma", "delta", "eps", "zeta", "eta", "theta", "iota", "kappa", "lam", "mu",
         "nu", "xi", "omi", "pi", "rho", "sigma", "tau", "ups", "phi", "chi", "psi", "omega", "operator new",
         "ns::f", "_start", "__libc_csu_init", "a", "SyS_read", "sys_read", "__ia32_sys_open", "__x64_sys_open",
         "_GLOBAL__sub_I_x", "f.cold", "g.part.0", "A::~A", "x y z"]
ENDS = ["__sym_end", "__dynsym_end", "__func_end"]

PRE = """From Coq Require Import ZArith List Bool.
Import ListNotations.
Require Import UV.Gen.Kernels UV.C10.Model.
Local Open Scope Z_scope.
"""


# ---------------------------------------------------------------- Coq literals
def cz(n):
    return "(%d)" % n if n < 0 else "%d" % n


def cstr(b):
    if isinstance(b, str):
        b = b.encode()
    return "[" + ";".join("%d" % x for x in b) + "]"


def csym(s):
    return "mkSym %s %s %d %s" % (cz(s[0]), cz(s[1]), ord(s[2]) if isinstance(s[2], str) else s[2], cstr(s[3]))


def ctab(tab):
    return "[" + "; ".join(csym(s) for s in tab) + "]"


def copt(x, f=str):
    return "None" if x is None else "(Some %s)" % f(x)


def hx(b):
    if isinstance(b, str):
        b = b.encode()
    return b.hex() if b else "-"


def unhx(h):
    return b"" if h == "-" else bytes.fromhex(h)


# ---------------------------------------------------------------- harness
class H:
    def __init__(self, ctx, objdir):
        self.ctx = ctx
        self.exe = os.path.join(ctx.scratch, "c10_harness")
        build.cc([os.path.join(HERE, "../harness/c/c10_harness.c"), build.uf_archive(objdir)],
                 self.exe, objdir, extra=build.UF_LIBS)
        self.n = 0

    def run(self, lines, cwd=None):
        self.n += 1
        sp = os.path.join(self.ctx.scratch, "script%d.txt" % self.n)
        with open(sp, "w") as f:
            f.write("\n".join(lines) + "\n")
        rc, out, err = sh(["timeout", "60", self.exe, sp], timeout=90, cwd=cwd or self.ctx.scratch)
        os.unlink(sp)
        if rc != 0:
            raise RuntimeError("c10_harness failed rc=%d: %s" % (rc, err[-800:]))
        return out.splitlines()


# ---------------------------------------------------------------- generators
def gen_table(rng, kind, n=None):
    """returns list of (addr, size, type, name); kind: wf | overlap | dup | unsorted | ends | top"""
    n = n if n is not None else rng.choice([0, 1, 2, 3, 5, 8, 13])
    tab = []
    a = rng.choice([0, 1, 0x100, 0x1000, 0x401000])
    if kind == "top":
        a = W64 - 0x1000
    for i in range(n):
        gap = rng.choice([0, 0, 0, 1, 7, 0x10, 0x1000])          # adjacent symbols are common
        size = rng.choice([0, 1, 1, 2, 0x10, 0x23, 0x100, 0x1234])
        if kind == "top":
            gap, size = rng.choice([0, 1, 7]), rng.choice([0, 1, 2, 0x10])
        a += gap
        if kind == "top" and i == n - 1:
            size = W64 - a - rng.choice([0, 1, 2])               # ends at / just below 2^64
        ty = rng.choice("TTTtwP")
        nm = rng.choice(NAMES[:30]) + ("%d" % i if rng.random() < 0.7 else "")
        if kind == "ends" and rng.random() < 0.3:
            nm = rng.choice(ENDS)
        tab.append((a % W64, size, ty, nm))
        a += size
    if kind == "overlap" and len(tab) >= 2:
        i = rng.randrange(len(tab) - 1)
        x = tab[i]
        tab[i] = (x[0], x[1] + rng.choice([1, 5, 0x2000]), x[2], x[3])
    if kind == "dup" and len(tab) >= 2:
        i = rng.randrange(1, len(tab))
        tab[i] = (tab[i - 1][0], tab[i][1], tab[i][2], tab[i][3])
    if kind == "unsorted" and len(tab) >= 2:
        rng.shuffle(tab)
    return tab


def probes_of(rng, tab, extra=3):
    ps = set()
    for k, (a, s, _, _) in enumerate(tab):
        if k in (0, len(tab) - 1) or rng.random() < 0.6:
            for p in (a - 1, a, a + s - 1, a + s, a + s // 2):
                ps.add(p % W64)
    for _ in range(extra):
        ps.add(rng.randrange(0, 0x3000))
    ps.update([0, W64 - 1])
    return sorted(ps)


def sym_line(s, old=False):
    a, sz, ty, nm = s
    nmb = nm if isinstance(nm, bytes) else nm.encode()
    if old:
        return b"%016x %c " % (a, ord(ty)) + nmb
    return b"%016x %08x %c " % (a, sz, ord(ty)) + nmb


def sym_text(tab, path=None, bid=None, old=False):
    out = []
    if path is not None:
        out.append(b"# symbols: %d" % len(tab))
        out.append(b"# path name: " + path.encode())
        if bid:
            out.append(b"# build-id: " + bid.encode())
    out += [sym_line(s, old) for s in tab]
    return b"\n".join(out) + b"\n"


# ---------------------------------------------------------------- K: kernels
def part_kernels(ctx, h):
    rng = ctx.rng
    cases = []
    for _ in range(ctx.n(150, 1500)):
        sa = rng.choice([0, 1, 0x1000, 0x401000, (1 << 32) - 1, 1 << 32, (1 << 47), (1 << 63), W64 - 0x100, W64 - 1,
                         rng.randrange(W64)])
        sz = rng.choice([0, 1, 2, 0x10, 0xff, (1 << 32) - 1, rng.randrange(1 << 32)])
        for a in (sa - 1, sa, sa + sz - 1, sa + sz, sa + sz + 1, 0, W64 - 1):
            cases.append((a % W64, sa, sz))
    cases = sorted(set(cases))
    kb = [0, 0x3fffffff, 0x40000000, 0x7fffffff, 0x80000000, 0xafffffff, 0xb0000000, 0xbfffffff, 0xc0000000,
          0x7fffffffff, 0x8000000000, 0x3ffffffffff, 0x40000000000, 0x7fffffffffff, 0x800000000000,
          0x7ffc00000000, 0xffff800000000000, W64 - 1] + [rng.randrange(W64) for _ in range(8)]
    lines = ["ADDRFIND %d %d %d" % c for c in cases]
    lines += ["ADDRSORT %d %d" % (c[0], c[1]) for c in cases]
    lines += ["KBASE %x-%x rw-p 00000000 00:00 0    [stack]" % (k, (k + 0x21000) % W64) for k in kb]
    out = h.run(lines)
    vals = [int(l.split()[1]) for l in out]
    nf = len(cases)
    rf, rs, rk = vals[:nf], vals[nf:2 * nf], vals[2 * nf:]
    defs = "Definition kf : list (Z*Z*Z*Z) := [%s].\n" % "; ".join(
        "(%d,%d,%d,%s)" % (a, sa, sz, cz(r)) for (a, sa, sz), r in zip(cases, rf))
    defs += "Definition ks : list (Z*Z*Z) := [%s].\n" % "; ".join(
        "(%d,%d,%s)" % (a, sa, cz(r)) for (a, sa, sz), r in zip(cases, rs))
    defs += "Definition kk : list (Z*Z) := [%s].\n" % "; ".join("(%d,%d)" % (k, r) for k, r in zip(kb, rk))
    res = coq.run_cases(ctx, "cases_k", PRE, defs, [
        ("mf", "bad_indices (fun c => match c with (a,sa,sz,r) => addrfind a sa sz =? r end) kf 0"),
        ("ms", "bad_indices (fun c => match c with (a,sa,r) => addrsort a sa =? r end) ks 0"),
        ("mk", "bad_indices (fun c => match c with (k,r) => guess_kernel_base k =? r end) kk 0"),
        # property level: the comparator says 0 exactly for addresses inside [addr, addr+size) (no wrap)
        ("vf", "bad_indices (fun c => match c with (a,sa,sz,r) => if sa + sz <? W64 then "
               "Bool.eqb (r =? 0) ((sa <=? a) && (a <? sa + sz)) && (if r <? 0 then a <? sa else true) "
               "&& (if r >? 0 then sa + sz <=? a else true) else true end) kf 0"),
    ])
    for (a, sa, sz) in cases:
        tags = []
        if a == sa:
            tags.append("K:first-byte")
        if sz and a == sa + sz - 1:
            tags.append("K:last-byte")
        if a == (sa + sz) % W64:
            tags.append("K:one-past")
        if sa + sz >= W64:
            tags.append("K:wrap64")
        ctx.case(key=("K", a, sa, sz), nontrivial=bool(tags), tags=tags, size=1)
    if res is None:
        return
    r = {k: coq.parse_nat_list(v) for k, v in res.items()}
    for i in r["vf"][:2]:
        ctx.violation("addrfind misplaces an address relative to [addr, addr+size)",
                      {"part": "K", "addr": cases[i][0], "sym_addr": cases[i][1], "sym_size": cases[i][2],
                       "impl": rf[i]}, True)
    if (r["mf"] or r["ms"] or r["mk"]) and not r["vf"]:
        which = "addrfind" if r["mf"] else ("addrsort" if r["ms"] else "guess_kernel_base")
        i = (r["mf"] or r["ms"] or r["mk"])[0]
        ctx.violation("generated kernel %s and the C function disagree (%d cases)" % (which, len(r["mf"] + r["ms"] + r["mk"])),
                      {"part": "K", "kernel": which, "case": (cases[i] if which != "guess_kernel_base" else kb[i])}, False)


# ---------------------------------------------------------------- L: lookups in tables
def run_lookup(h, tab, probes):
    lines = ["TAB %d" % len(tab)] + ["%d %d %d %s" % (a, s, ord(t), hx(n)) for a, s, t, n in tab]
    lines += ["FIND %d" % p for p in probes]
    out = h.run(lines)
    res = [int(l.split()[1]) for l in out[1:]]
    return [None if r < 0 else r for r in res]


def lookup_defs(cases):
    return "Definition lk : list (symtab * list (Z * option nat)) := [\n%s\n].\n" % ";\n".join(
        "(%s, [%s])" % (ctab(tab), "; ".join("(%d, %s)" % (p, copt(r, lambda x: "%d%%nat" % x)) for p, r in zip(ps, rs)))
        for tab, ps, rs in cases)


LK_EVALS = [
    ("mismatch", "bad_indices (fun c => forallb (fun pr => opt_nat_eqb (find_sym_idx (fst c) (fst pr)) (snd pr)) (snd c)) lk 0"),
    ("violations", "bad_indices (fun c => forallb (fun pr => ok_lookup (fst c) (fst pr) (snd pr)) (snd c)) lk 0"),
]


def part_lookup(ctx, h):
    rng = ctx.rng
    cases = []
    kinds = ["wf"] * 5 + ["ends", "top", "overlap", "dup", "unsorted"]
    for i in range(ctx.n(120, 1500)):
        kind = kinds[i % len(kinds)]
        tab = gen_table(rng, kind)
        ps = probes_of(rng, tab)
        rs = run_lookup(h, tab, ps)
        cases.append((tab, ps, rs))
        tags = ["L:" + kind, "L:n=%d" % min(len(tab), 8)]
        if any(s[1] == 0 for s in tab):
            tags.append("L:zero-size")
        if any(tab[k][0] + tab[k][1] == tab[k + 1][0] and tab[k][1] for k in range(len(tab) - 1)):
            tags.append("L:adjacent")
        hit = sum(1 for r in rs if r is not None)
        tags += ["L:hit"] * (1 if hit else 0) + ["L:miss"] * (1 if hit < len(rs) else 0)
        ctx.case(key=("L", tuple(tab), tuple(ps)), nontrivial=len(tab) >= 2, tags=tags, size=len(tab),
                 sample={"part": "L", "table": tab[:4], "probes": ps[:6], "impl": rs[:6]} if i == 3 else None)
    res = coq.run_cases(ctx, "cases_l", PRE, lookup_defs(cases), LK_EVALS)
    if res is None:
        return
    r = {k: coq.parse_nat_list(v) for k, v in res.items()}
    for i in r["violations"][:2]:
        tab, ps, rs = cases[i]
        ctx.violation("find_sym returns a symbol that does not contain the address, or misses the symbol of a "
                      "well-formed table", {"part": "L", "table": tab, "probes": ps, "impl": rs}, True)
    if r["mismatch"] and not r["violations"]:
        tab, ps, rs = cases[r["mismatch"][0]]
        ctx.violation("model find_sym and utils/symbol.c find_sym disagree (%d tables)" % len(r["mismatch"]),
                      {"part": "L", "table": tab, "probes": ps, "impl": rs}, False)


# ---------------------------------------------------------------- S: .sym files
def parse_tab(out):
    """lines of a 'T n' answer -> list of (addr,size,type,name)"""
    n = int(out[0].split()[1])
    tab = []
    for l in out[1:1 + n]:
        a, s, t, nm = l.split()
        tab.append((int(a), int(s), chr(int(t)), unhx(nm)))
    return tab, out[1 + n:]


def gen_file_tab(rng, n=None):
    """a table the writer can get from the ELF loader: sorted, sizes > 0, plain names"""
    tab = [s for s in gen_table(rng, "wf", n) if s[1] > 0]
    out = []
    for a, s, t, nm in tab:
        if out and out[-1][0] == a and out[-1][2] == t:
            continue
        out.append((a, s, t, nm))
    return out


def hand_variants(rng, tab):
    """on-disk variants a reader must cope with: (tag, bytes)"""
    v = []
    sh_ = list(tab)
    rng.shuffle(sh_)
    v.append(("unsorted", sym_text(sh_, "/p/x")))
    v.append(("old-format", sym_text(tab, None, None, old=True)
              + b"%016x T __sym_end\n" % ((tab[-1][0] + tab[-1][1]) if tab else 0x10)))
    if tab:
        d = list(tab)
        k = rng.randrange(len(d))
        d.insert(k + 1, (d[k][0], d[k][1], d[k][2], "dupname"))
        v.append(("dup-line", sym_text(d, "/p/x")))
        z = [(a, 0 if i % 2 == 0 else s, t, n) for i, (a, s, t, n) in enumerate(tab)]
        v.append(("zero-size", sym_text(z, "/p/x") + b"%016x 00000000 ? end\n" % (tab[-1][0] + tab[-1][1])))
        big = [(a, rng.choice([0x9fffffff, 0xa0000000, 0xffffffff, 0x0a000000]), t, n) for a, s, t, n in tab[:3]]
        v.append(("size-hex-lead", sym_text(big, "/p/x")))
        tb = [(a, s, t, (n + "\t[mod]")) for a, s, t, n in tab[:3]]
        v.append(("tab-in-name", sym_text(tb)))
        bad = [(a, s, rng.choice("XxRr"), n) for a, s, t, n in tab[:2]] + tab[:2]
        v.append(("bad-type", sym_text(bad)))
        up = sym_text(tab[:3]).upper().replace(b" T ", b" T ") + b"\n\ngarbage line\n  12 T lead\n0x20 00000004 T pfx\n"
        v.append(("misc", up))
    v.append(("kernel-dups", b"ffffffff81000000 T SyS_read\nffffffff81000000 T sys_read\n"
                             b"ffffffff81000100 T __ia32_sys_open\nffffffff81000100 T __x64_sys_open\n"
                             b"ffffffff81000200 T last\n"))
    return v


def part_symfiles(ctx, h):
    rng = ctx.rng
    d = os.path.join(ctx.scratch, "symfiles")
    os.makedirs(d, exist_ok=True)
    cases = []       # (tag, tab_or_None, path, bid, saved_bytes_or_None, file_bytes, loaded_tab)
    for i in range(ctx.n(30, 500)):
        tab = gen_file_tab(rng)
        if i % 4 == 3:      # tables outside the round-trip guard are still saved/loaded faithfully
            tab = gen_table(rng, rng.choice(["wf", "dup", "ends"]))
        path = rng.choice(["/usr/bin/prog", "/a/libfoo.so", "rel/x", "/p/with space"])
        bid = rng.choice(["", "", "0123456789abcdef0123456789abcdef01234567", "abcd"])
        fn = os.path.join(d, "s%d.sym" % i)
        lines = ["TAB %d" % len(tab)] + ["%d %d %d %s" % (a, s, ord(t), hx(n)) for a, s, t, n in tab]
        lines += ["SAVESYM %s %s %s" % (fn, hx(path), hx(bid)), "LOADSYM %s" % fn]
        out = h.run(lines)
        saved = open(fn, "rb").read() if os.path.exists(fn) else None
        loaded, _ = parse_tab(out[2:])
        cases.append(("roundtrip", tab, path, bid, saved, saved or b"", loaded))
        ctx.case(key=("S", tuple(tab), path, bid), nontrivial=len(tab) >= 2,
                 tags=["S:roundtrip", "S:bid" if bid else "S:nobid"] + (["S:empty-table"] if not tab else []), size=len(tab),
                 sample={"part": "S", "table": tab[:3], "file": (saved or b"")[:160].decode("latin1")} if i == 1 else None)
        if i % 3 == 0:
            for tag, blob in hand_variants(rng, gen_file_tab(rng, rng.choice([2, 3, 5]))):
                fn2 = os.path.join(d, "v.sym")
                open(fn2, "wb").write(blob)
                loaded2, _ = parse_tab(h.run(["LOADSYM %s" % fn2]))
                cases.append((tag, None, None, None, None, blob, loaded2))
                ctx.case(key=("S", tag, blob), tags=["S:" + tag], size=len(loaded2))
    eval_symfiles(ctx, cases)


def eval_symfiles(ctx, cases):
    defs = "Definition sv : list (symtab * str * str * option str) := [\n%s\n].\n" % ";\n".join(
        "(%s, %s, %s, %s)" % (ctab(c[1]), cstr(c[2]), cstr(c[3]), copt(c[4], cstr)) for c in cases if c[1] is not None)
    defs += "Definition ld : list (str * symtab) := [\n%s\n].\n" % ";\n".join(
        "(%s, %s)" % (cstr(c[5]), ctab(c[6])) for c in cases)
    defs += "Definition rt : list (symtab * symtab) := [\n%s\n].\n" % ";\n".join(
        "(%s, %s)" % (ctab(c[1]), ctab(c[6])) for c in cases if c[1] is not None)
    res = coq.run_cases(ctx, "cases_s", PRE, defs, [
        ("msave", "bad_indices (fun c => match c with (t,p,b,f) => match save_sym t p b, f with "
                  "Some x, Some y => str_eqb x y | None, None => true | _, _ => false end end) sv 0"),
        ("mload", "bad_indices (fun c => tab_eqb (load_sym dem_plain (fst c)) (snd c)) ld 0"),
        # property: a table inside the guard reloads to the identical table (sorted by address)
        ("vrt", "bad_indices (fun c => if tab_file_ok (fst c) && forallb (fun s => plain_name (s_name s)) (fst c) "
                "then tab_eqb (sort_syms (fst c)) (snd c) else true) rt 0"),
    ])
    if res is None:
        return
    r = {k: coq.parse_nat_list(v) for k, v in res.items()}
    sv = [c for c in cases if c[1] is not None]
    jtab = lambda t: [list(x[:3]) + [x[3] if isinstance(x[3], str) else x[3].decode("latin1")] for x in t]
    for i in r["vrt"][:2]:
        c = sv[i]
        ctx.violation("a symbol table saved by save_module_symbol_file does not reload to the identical table",
                      {"part": "S", "table": jtab(c[1]), "path": c[2], "build_id": c[3], "reloaded": jtab(c[6])}, True)
    if (r["msave"] or r["mload"]) and not r["vrt"]:
        if r["msave"]:
            c = sv[r["msave"][0]]
            what = "save_module_symbol_file"
        else:
            c = cases[r["mload"][0]]
            what = "load_module_symbol_file"
        ctx.violation("model and utils/symbol.c %s disagree (%d files)" % (what, len(r["msave"]) + len(r["mload"])),
                      {"part": "S", "tag": c[0], "table": jtab(c[1]) if c[1] is not None else None, "path": c[2], "build_id": c[3],
                       "file": c[5].decode("latin1"), "impl_loaded": jtab(c[6])}, False)


def replay_symfile(ctx, h, obj):
    d = os.path.join(ctx.scratch, "symfiles")
    os.makedirs(d, exist_ok=True)
    fn = os.path.join(d, "replay.sym")
    if obj.get("table") is not None:
        tab = [(a, sz, t, n) for a, sz, t, n in obj["table"]]
        lines = ["TAB %d" % len(tab)] + ["%d %d %d %s" % (a, sz, ord(t), hx(n.encode("latin1"))) for a, sz, t, n in tab]
        lines += ["SAVESYM %s %s %s" % (fn, hx(obj["path"]), hx(obj["build_id"])), "LOADSYM %s" % fn]
        out = h.run(lines)
        saved = open(fn, "rb").read() if os.path.exists(fn) else None
        loaded, _ = parse_tab(out[2:])
        case = ("roundtrip", [(a, sz, t, n.encode("latin1")) for a, sz, t, n in tab], obj["path"], obj["build_id"], saved, saved or b"", loaded)
    else:
        blob = obj["file"].encode("latin1")
        open(fn, "wb").write(blob)
        loaded, _ = parse_tab(h.run(["LOADSYM %s" % fn]))
        case = (obj.get("tag", "file"), None, None, None, None, blob, loaded)
    ctx.case(key="replay", sample={"impl_loaded": [list(x[:3]) + [x[3].decode("latin1")] for x in loaded][:8]})
    ctx.log("replayed symbol file: %d symbols loaded" % len(loaded))
    eval_symfiles(ctx, [case])


# ---------------------------------------------------------------- M: map files
def map_line(start, end, prot, path, bid=None, style=0):
    if style == 0:      # as written by libmcount write_map
        l = "%x-%x %.4s %08x %02x:%02x %-26u %s" % (start, end, prot, 0, 0, 0, 0, path)
    else:               # as /proc/<pid>/maps prints it (older data / update_session_map)
        l = "%08x-%08x %s %08x fd:01 %d" % (start, end, prot, 0x1000, 1234567)
        l += " " * max(1, 73 - len(l)) + path
    if bid:
        l += " build-id:" + bid
    return l


def gen_map_text(rng):
    """returns (text, expected_merged_list)"""
    lines = []
    base = rng.choice([0x400000, 0x555555554000, 0x10000])
    mods = ["/usr/bin/prog", "/lib/libc.so.6", "/lib/libfoo.so", "/opt/a/libfoo.so", "/lib/ld.so"]
    rng.shuffle(mods)
    a = base
    for m in mods[:rng.randrange(1, 5)]:
        segs = rng.randrange(1, 5)
        bid = rng.choice([None, None, "0123456789abcdef0123456789abcdef01234567", "12ab"])
        style = rng.randrange(2)
        for s in range(segs):
            ln = rng.choice([0x1000, 0x2000, 0x21000])
            lines.append(map_line(a, a + ln, rng.choice(["r--p", "r-xp", "rw-p"]), m, bid, style))
            a += ln
            if rng.random() < 0.15:
                lines.append("%x-%x rw-p 00000000 00:00 0 " % (a, a + 0x1000))          # anonymous: skipped
                a += 0x1000
        a += rng.choice([0, 0x1000, 0x7f0000000000 - a if a < 0x7f0000000000 and rng.random() < 0.5 else 0x100000])
        if rng.random() < 0.2:
            lines.append("%x-%x rw-p 00000000 00:00 0                          [heap]" % (a, a + 0x21000))
            a += 0x21000
    if rng.random() < 0.85:
        st = rng.choice([0x7ffc00000000, 0x7ffffffde000, 0xbffdf000, 0x3ffffde000])
        lines.append("%x-%x rw-p 00000000 00:00 0                          [stack]" % (st, st + 0x21000))
    if rng.random() < 0.3:
        lines.append("ffffffffff600000-ffffffffff601000 --xp 00000000 00:00 0                  [vsyscall]")
    return ("\n".join(lines) + "\n").encode()


def parse_maps(out):
    hd = out[0].split()
    n, kb = int(hd[1]), int(hd[2])
    ms = []
    for l in out[1:1 + n]:
        st, en, prot, nm, bid = l.split()
        ms.append((int(st), int(en), unhx(prot), unhx(nm), unhx(bid)))
    return kb, ms


def cmaps(ms):
    return "[" + "; ".join("(%d, %d, %s, %s, %s)" % (m[0], m[1], cstr(m[2]), cstr(m[3]), cstr(m[4])) for m in ms) + "]"


MAPS_CMP = """Definition map_tuple (m : mmap) := (m_start m, m_end m, m_prot m, m_name m, m_bid m).
Definition tuple_eqb (a b : Z * Z * str * str * str) : bool :=
  match a, b with (s1,e1,p1,n1,b1), (s2,e2,p2,n2,b2) => (s1 =? s2) && (e1 =? e2) && str_eqb p1 p2 && str_eqb n1 n2 && str_eqb b1 b2 end.
Fixpoint tuples_eqb (a b : list (Z * Z * str * str * str)) : bool :=
  match a, b with [], [] => true | x :: a', y :: b' => tuple_eqb x y && tuples_eqb a' b' | _, _ => false end.
Definition maps_agree (txt : str) (kb : Z) (ms : list (Z * Z * str * str * str)) : bool :=
  let si := read_map (fun _ _ => []) txt in (kbase si =? kb) && tuples_eqb (map map_tuple (maps si)) ms.
"""


def part_maps(ctx, h, objdir):
    rng = ctx.rng
    d = os.path.join(ctx.scratch, "maps")
    os.makedirs(d, exist_ok=True)
    cases = []
    for i in range(ctx.n(40, 600)):
        txt = gen_map_text(rng)
        open(os.path.join(d, "sid-%016x.map" % i), "wb").write(txt)
        kb, ms = parse_maps(h.run(["READMAP %s %016x %s" % (d, i, hx("/usr/bin/prog"))]))
        cases.append((txt, kb, ms))
        ctx.case(key=("M", txt), nontrivial=len(ms) >= 2, size=len(ms),
                 tags=["M:read", "M:stack" if b"[stack]" in txt else "M:no-stack", "M:build-id" if b"build-id:" in txt else "M:no-bid"],
                 sample={"part": "M", "file": txt.decode()[:300], "impl": [list(m[:2]) + [m[3].decode()] for m in ms]} if i == 0 else None)
    # writer: the real record_proc_maps (libmcount object code) on a fake /proc/self/maps
    wcases = part_maps_writer(ctx, h, objdir, d)
    defs = MAPS_CMP + "Definition mp : list (str * Z * list (Z * Z * str * str * str)) := [\n%s\n].\n" % ";\n".join(
        "(%s, %d, %s)" % (cstr(t), kb, cmaps(ms)) for t, kb, ms in cases)
    defs += "Definition mw : list (list seg * str * str * list (Z * Z * str * str * str)) := [\n%s\n].\n" % ";\n".join(
        "([%s], %s, %s, %s)" % ("; ".join("(%d, %d, %s, %s)" % (s, e, cstr(p), cstr(n)) for s, e, p, n in segs), cstr(STACK_LINE),
                                cstr(written), cmaps(ms))
        for segs, written, ms in wcases)
    res = coq.run_cases(ctx, "cases_m", PRE, defs, [
        ("mread", "bad_indices (fun c => match c with (t, kb, ms) => maps_agree t kb ms end) mp 0"),
        # writer: the lines the model prints for the merged segments are the file the code wrote
        ("mwrite", "bad_indices (fun c => match c with (segs, sl, w, ms) => str_eqb (write_maps segs sl) w end) mw 0"),
        # property: what record wrote is read back as the merged segment list
        ("vround", "bad_indices (fun c => match c with (segs, sl, w, ms) => tuples_eqb (map (fun m => match m with (s,e,p,n) => (s,e,p,n,[]) end) "
                   "(merge_segments segs)) (map (fun m => match m with (s,e,p,n,b) => (s,e,p,n,[]) end) ms) end) mw 0"),
    ])
    if res is None:
        return
    r = {k: coq.parse_nat_list(v) for k, v in res.items()}
    for i in r["vround"][:2]:
        segs, written, ms = wcases[i]
        ctx.violation("the map file written by record_proc_maps is not read back as the merged module list",
                      {"part": "M", "proc_maps_segments": [[s, e, p, n] for s, e, p, n in segs], "written": written.decode(),
                       "read_back": [list(m[:2]) + [m[3].decode()] for m in ms]}, True)
    if (r["mread"] or r["mwrite"]) and not r["vround"]:
        if r["mread"]:
            t, kb, ms = cases[r["mread"][0]]
            rep = {"part": "M", "file": t.decode(), "impl_kernel_base": kb, "impl": [list(m[:2]) + [m[3].decode(), m[4].decode()] for m in ms]}
            what = "read_session_map"
        else:
            segs, written, ms = wcases[r["mwrite"][0]]
            rep = {"part": "M", "proc_maps_segments": [[s, e, p, n] for s, e, p, n in segs], "written": written.decode()}
            what = "record_proc_maps"
        ctx.violation("model and %s disagree (%d files)" % (what, len(r["mread"]) + len(r["mwrite"])), rep, False)


STACK_LINE = "7ffc00000000-7ffc00021000 rw-p 00000000 00:00 0                          [stack]"


def part_maps_writer(ctx, h, objdir, d):
    """libmcount's record_proc_maps driven by harness/c/c10_maps.c with fopen(\"/proc/self/maps\") redirected"""
    rng = ctx.rng
    exe = os.path.join(ctx.scratch, "c10_maps")
    src = os.path.join(HERE, "../harness/c/c10_maps.c")
    build.cc([src] + build.libmcount_objs(objdir, ""), exe, objdir,
             extra=build.LINK_LIBS + ["-Wl,--wrap=fopen"])
    out = []
    for i in range(ctx.n(14, 300)):
        segs = []
        a = rng.choice([0x400000, 0x555555554000])
        mods = ["/usr/bin/prog", "/lib/libc.so.6", "/lib/libfoo.so", "/opt/a/libfoo.so", "/lib/ld.so"]
        rng.shuffle(mods)
        lines = []
        for m in mods[:rng.randrange(1, 5)]:
            for s in range(rng.randrange(1, 5)):
                ln = rng.choice([0x1000, 0x2000, 0x21000])
                prot = rng.choice(["r--p", "r-xp", "rw-p"])
                segs.append((a, a + ln, prot, m))
                lines.append("%08x-%08x %s %08x fd:01 %d" % (a, a + ln, prot, 0x1000 * s, 1234567 + s))
                lines[-1] += " " * max(1, 73 - len(lines[-1])) + m
                a += ln
                if rng.random() < 0.15:
                    lines.append("%x-%x rw-p 00000000 00:00 0 " % (a, a + 0x1000))
                    a += 0x1000
            a += rng.choice([0, 0x1000, 0x100000])
            if rng.random() < 0.2:
                lines.append("%x-%x rw-p 00000000 00:00 0                          [heap]" % (a, a + 0x21000))
                a += 0x21000
        lines.append(STACK_LINE)
        lines.append("7ffc00100000-7ffc00102000 r-xp 00000000 00:00 0                          [vdso]")
        fake = os.path.join(d, "fake-proc-maps")
        open(fake, "w").write("\n".join(lines) + "\n")
        sid = "%016x" % (0xabc000 + i)
        rc, o, e = sh(["timeout", "30", exe, fake, d, sid, "/usr/bin/prog"], timeout=40,
                      env={"UFTRACE_DIR": d, "LD_PRELOAD": ""})
        if rc != 0:
            raise RuntimeError("c10_maps failed rc=%d: %s" % (rc, e[-600:]))
        written = open(os.path.join(d, "sid-%s.map" % sid), "rb").read()
        kb, ms = parse_maps(h.run(["READMAP %s %s %s" % (d, sid, hx("/usr/bin/prog"))]))
        out.append((segs, written, ms))
        ctx.case(key=("MW", tuple(segs)), nontrivial=len(segs) >= 2, size=len(segs),
                 tags=["M:write+read", "M:segments=%d" % min(len(segs), 6)],
                 sample={"part": "MW", "written": written.decode()[:300]} if i == 0 else None)
    return out


# ---------------------------------------------------------------- D: data directories
class Story:
    """a process history as `uftrace record` would log it, with its ground truth"""

    def __init__(self, rng):
        self.rng = rng
        self.events = []        # ('SESS',pid,time,sid,exe) ('TASK',tid,pid,time) ('FORK',tid,ppid,time) ('DLOP',sid,time,base,lib)
        self.sessions = []      # dict(sid, maps=[(start,end,modname,bid)], kbase_stack, dl=[(time,base,lib)])
        self.timeline = {}      # tid -> [(start, session index)]
        self.modules = {}       # path -> table (relative addresses)
        self.files = {}         # sym file name -> bytes
        self.t = 1000

    def tick(self, same=False):
        if not same:
            self.t += self.rng.choice([1, 1, 10, 1000, 10**9])
        return self.t


def gen_module(rng, path, nsym=None):
    tab = gen_file_tab(rng, nsym or rng.choice([2, 3, 5, 8]))
    tab = [(a % 0x100000, s, t, n) for a, s, t, n in tab if (a % 0x100000) + s < 0x100000]
    if tab and rng.random() < 0.5:          # a symbol on the very first byte of the module
        a0 = tab[0][0]
        tab = [(a - a0, s, t, n) for a, s, t, n in tab]
    if tab and rng.random() < 0.3:          # ... and one ending on its very last byte
        a, s, t, n = tab[-1]
        tab[-1] = (a, 0x100000 - a, t, n) if 0x100000 - a < 0xa0000000 else tab[-1]
    # unique names per module make answers unambiguous
    tab = [(a, s, t, "%s@%s" % (n.replace(" ", "_"), os.path.basename(path))) for a, s, t, n in tab]
    if rng.random() < 0.3 and tab:
        tab.append((tab[-1][0] + tab[-1][1], 4, "T", "__sym_end"))
    return tab


def gen_story(rng, big=False, withsyms=False):
    st = Story(rng)
    exes = ["/usr/bin/prog", "/usr/bin/child"]
    libs = ["/lib/libc.so.6", "/lib/libfoo.so", "/opt/a/libfoo.so"]
    dls = ["/lib/libplug1.so", "/lib/libplug2.so"]
    use_bid = rng.random() < 0.5
    if withsyms and not use_bid:
        libs = libs[:2]       # --with-syms ignores the path header: same basename needs build-ids to be told apart
    st.bids = {}
    for p in exes + libs + dls:
        st.modules[p] = gen_module(rng, p)
        st.bids[p] = ("%040x" % rng.randrange(1 << 160)) if (use_bid and p not in dls) else ""
    # sym files: libfoo.so exists twice (same basename, different path / build-id) -> the second one is
    # stored under the name make_new_symbol_filename gives it
    for p in exes + libs + dls:
        base = os.path.basename(p)
        fn = base + ".sym"
        body = sym_text(st.modules[p], p, st.bids[p])
        if fn in st.files:
            fn = ("%s-%s.sym" % (base, st.bids[p][:4])) if st.bids[p] else ("%s-%04x.sym" % (base, sum(p.encode()) & 0xffff))
        st.files[fn] = body

    def new_session(pid, exe, same_time=False):
        sid = "%016x" % rng.randrange(1 << 64)
        t = st.tick(same_time)
        a = rng.choice([0x400000, 0x555555554000, 0x5555deadb000])        # ASLR: a new base per session
        maps = []
        for m in [exe] + rng.sample(libs, rng.randrange(0, len(libs) + 1)):
            ln = 0x100000
            maps.append((a, a + ln, m))
            a += ln + rng.choice([0, 0x1000, 0x10000000])
            if m != exe and a < 0x7f0000000000 and rng.random() < 0.5:
                a = 0x7f0000000000 + rng.randrange(0, 0x1000) * 0x1000
        stack = rng.choice([0x7ffc00000000, 0x7ffffffde000])
        st.sessions.append({"sid": sid, "maps": maps, "stack": stack, "dl": [], "pid": pid, "time": t})
        st.events.append(("SESS", pid, t, sid, exe))
        return len(st.sessions) - 1

    def enter(tid, si, t):
        st.timeline.setdefault(tid, []).append((t, si))

    pid0 = 100
    s0 = new_session(pid0, exes[0])
    t = st.tick(rng.random() < 0.3)
    st.events.append(("TASK", pid0, pid0, t))
    enter(pid0, s0, t)
    procs = [(pid0, s0)]
    nexttid = 101
    for _ in range(rng.randrange(1, 7 if big else 5)):
        k = rng.random()
        pid, si = rng.choice(procs)
        # a task is created strictly after its creator's latest session reference (two clock readings of one
        # lineage differ); equal time stamps between unrelated events stay in the generated class
        later = st.timeline[pid][-1][0] >= st.t
        if k < 0.25:        # new thread
            t = st.tick(rng.random() < 0.2 and not later)
            st.events.append(("TASK", nexttid, pid, t))
            enter(nexttid, si, t)
            nexttid += 1
        elif k < 0.5:       # fork
            t = st.tick(rng.random() < 0.2 and not later)
            st.events.append(("FORK", nexttid, pid, t))
            enter(nexttid, si, t)
            procs.append((nexttid, si))
            nexttid += 1
        elif k < 0.7:       # exec in an existing process: new session, same pid
            s2 = new_session(pid, rng.choice(exes), same_time=rng.random() < 0.2)
            t = st.tick(rng.random() < 0.3)
            st.events.append(("TASK", pid, pid, t))
            enter(pid, s2, t)
            procs = [(p, (s2 if p == pid else s)) for p, s in procs]
        else:               # dlopen in session si (possibly re-using an address range)
            sess = st.sessions[si]
            t = st.tick(rng.random() < 0.3)
            bases = [b for _, b, _ in sess["dl"]]
            base = rng.choice(bases) if bases and rng.random() < 0.4 else 0x7e0000000000 + rng.randrange(0, 64) * 0x200000
            lib = rng.choice(dls)
            sess["dl"].append((t, base, lib))
            st.events.append(("DLOP", sess["sid"], t, base, lib))
    return st


def story_files(st, d, symdir=None):
    os.makedirs(d, exist_ok=True)
    symdir = symdir or d
    os.makedirs(symdir, exist_ok=True)
    with open(os.path.join(d, "task.txt"), "w") as f:
        for e in st.events:
            if e[0] == "SESS":
                f.write('SESS timestamp=%d.%09d pid=%d sid=%s exename="%s"\n' % (e[2] // 10**9, e[2] % 10**9, e[1], e[3], e[4]))
            elif e[0] == "TASK":
                f.write("TASK timestamp=%d.%09d tid=%d pid=%d\n" % (e[3] // 10**9, e[3] % 10**9, e[1], e[2]))
            elif e[0] == "FORK":
                f.write("FORK timestamp=%d.%09d pid=%d ppid=%d\n" % (e[3] // 10**9, e[3] % 10**9, e[1], e[2]))
            else:
                f.write('DLOP timestamp=%d.%09d tid=%d sid=%s base=%x libname="%s"\n' % (
                    e[2] // 10**9, e[2] % 10**9, 100, e[1], e[3], e[4]))
    maps = {}
    for s in st.sessions:
        lines = []
        for a, b, m in s["maps"]:
            lines.append(map_line(a, a + 0x1000, "r--p", m, st.bids[m] or None))
            lines.append(map_line(a + 0x1000, b, "r-xp", m, st.bids[m] or None))
        lines.append("%x-%x rw-p 00000000 00:00 0                          [stack]" % (s["stack"], s["stack"] + 0x21000))
        txt = ("\n".join(lines) + "\n").encode()
        maps[s["sid"]] = txt
        open(os.path.join(d, "sid-%s.map" % s["sid"]), "wb").write(txt)
    for fn, body in st.files.items():
        open(os.path.join(symdir, fn), "wb").write(body)
    return maps


def story_probes(rng, st):
    ps = []
    for tid, tl in sorted(st.timeline.items()):
        times = set()
        for t, si in tl:
            times.update([t, t + 1, max(t - 1, 0)])
        for s in st.sessions:
            for t, _, _ in s["dl"]:
                times.update([t, t + 1, max(t - 1, 0)])
        times.add(st.t + 5)
        for t in sorted(times):
            sis = set(si for _, si in tl)
            for si in sis:
                s = st.sessions[si]
                cands = []
                for a, b, m in s["maps"]:
                    tab = st.modules[m]
                    for x in rng.sample(tab, min(len(tab), 2)):
                        cands += [a + x[0] - 1, a + x[0], a + x[0] + x[1] - 1, a + x[0] + x[1]]
                    for q in (a - 1, a, b - 1, b):          # module boundaries: always probed (once per session)
                        if t == tl[0][0]:
                            ps.append((tid, t, q % W64))
                for _, base, lib in s["dl"]:
                    tab = st.modules[lib]
                    for x in rng.sample(tab, min(len(tab), 2)):
                        cands += [base + x[0], base + x[0] + x[1] - 1, base + x[0] + x[1]]
                for a in rng.sample(cands, min(len(cands), 6)):
                    ps.append((tid, t, a % W64))
    ps = sorted(set(ps))
    if len(ps) > 150:
        ps = rng.sample(ps, 150)
    return sorted(ps)


def cevent(e):
    if e[0] == "SESS":
        return "EvSess %d %d %s" % (e[1], e[2], cstr(e[3]))
    if e[0] == "TASK":
        return "EvTask %d %d %d" % (e[1], e[2], e[3])
    if e[0] == "FORK":
        return "EvFork %d %d %d" % (e[1], e[2], e[3])
    return "EvDlopen %s %d %d %s" % (cstr(e[1]), e[2], e[3], cstr(e[4]))


def cdatadir(st, maps, symsdir=False):
    return "mkDir [%s] [%s] [%s] %s" % (
        "; ".join(cevent(e) for e in st.events),
        "; ".join("(%s, %s)" % (cstr(k), cstr(v)) for k, v in maps.items()),
        "; ".join("(%s, %s)" % (cstr(k), cstr(v)) for k, v in st.files.items()),
        "true" if symsdir else "false")


def cgt(st):
    """ground truth: sessions as placed modules + dlopen list, per-task timelines"""
    ss = []
    for s in st.sessions:
        ss.append("mkGt [%s] [%s]" % (
            "; ".join("(%d, %d, %s)" % (a, b, ctab(st.modules[m])) for a, b, m in s["maps"]),
            "; ".join("(%d, %d, %s)" % (t, base, ctab(st.modules[lib])) for t, base, lib in s["dl"])))
    tl = "; ".join("(%d, [%s])" % (tid, "; ".join("(%d, %d%%nat)" % (t, si) for t, si in l)) for tid, l in sorted(st.timeline.items()))
    return "[%s]" % "; ".join(ss), "[%s]" % tl


def run_story(h, d, symdir, probes):
    lines = ["OPEN %s %s" % (d, symdir)] + ["RESOLVE %d %d %d" % p for p in probes] + ["CLOSE"]
    out = h.run(lines)
    if out[0] != "R 0":
        raise RuntimeError("read_task_txt_file failed on a generated directory: %s" % out[0])
    res = []
    for l in out[1:-1]:
        _, nm, a, s, sid, mp = l.split()
        res.append((None if nm == "-" else (int(a), int(s), unhx(nm)), None if mp == "-" else unhx(mp)))
    return res


def cans(r):
    return "None" if r is None else "(Some (%d, %d, %s))" % (r[0], r[1], cstr(r[2]))


D_EVALS = [
    # module shown for the address: model (find_task_session + find_map) and ground truth
    ("mmod", "bad_indices (fun cm => match cm with ((dd, gs, tl, prs), (gm, ms)) => let lk := open_data dem_plain dd in "
             "forallb (fun pm => match pm with ((tid, t, a, ans), m) => match resolve_map lk tid t a, m with Some x, Some y => str_eqb x y "
             "| None, None => true | _, _ => false end end) (combine prs ms) end) (combine dc dm) 0"),
    ("vmod", "bad_indices (fun cm => match cm with ((dd, gs, tl, prs), (gm, ms)) => "
             "forallb (fun pm => match pm with ((tid, t, a, ans), m) => ok_module gm tl tid t a m end) (combine prs ms) end) (combine dc dm) 0"),
    ("mismatch", "bad_indices (fun c => match c with (dd, gs, tl, prs) => let lk := open_data dem_plain dd in "
                 "forallb (fun pr => match pr with (tid, t, a, ans) => ans_eqb (resolve lk tid t a) ans end) prs end) dc 0"),
    ("violations", "bad_indices (fun c => match c with (dd, gs, tl, prs) => "
                   "forallb (fun pr => match pr with (tid, t, a, ans) => ok_resolve gs tl tid t a ans end) prs end) dc 0"),
]
D_DEFS = """Definition ans_eqb (m : option sym) (a : option (Z * Z * str)) : bool :=
  match m, a with
  | Some s, Some (ad, sz, nm) => (s_addr s =? ad) && (s_size s =? sz) && str_eqb (s_name s) nm
  | None, None => true
  | _, _ => false
  end.
"""


def part_datadirs(ctx, h):
    rng = ctx.rng
    cases = []
    for i in range(ctx.n(18, 300)):
        withsyms = (i % 5 == 4)
        st = gen_story(rng, big=(i % 3 == 0), withsyms=withsyms)
        d = os.path.join(ctx.scratch, "dd%d" % (i % 4))
        shutil.rmtree(d, ignore_errors=True)
        symdir = os.path.join(d, "syms") if withsyms else d
        maps = story_files(st, d, symdir)
        probes = story_probes(rng, st)
        ansm = run_story(h, d, symdir, probes)
        ans = [x[0] for x in ansm]
        cases.append((st, maps, probes, ans, withsyms, [x[1] for x in ansm]))
        nsess = len(st.sessions)
        tags = ["D:sessions=%d" % min(nsess, 4), "D:tasks=%d" % min(len(st.timeline), 5)]
        if any(s["dl"] for s in st.sessions):
            tags.append("D:dlopen")
        if any(len(set(b for _, b, _ in s["dl"])) < len(s["dl"]) for s in st.sessions):
            tags.append("D:dlopen-same-base")
        if any(e[0] == "FORK" for e in st.events):
            tags.append("D:fork")
        if nsess > 1:
            tags.append("D:exec")
        times = [e[2] if e[0] in ("SESS", "DLOP") else e[3] for e in st.events]
        if len(set(times)) < len(times):
            tags.append("D:equal-timestamps")
        if withsyms:
            tags.append("D:with-syms-dir")
        hit = sum(1 for a in ans if a is not None)
        ctx.case(key=("D", tuple(st.events), tuple(probes)), nontrivial=nsess >= 1 and hit > 0, tags=tags, size=len(probes),
                 sample={"part": "D", "events": [list(e) for e in st.events][:6], "probe": list(probes[0]),
                         "impl": (ans[0][2].decode() if ans[0] else None)} if i == 0 else None)
        ctx.tag("D:probe-hit", hit)
        ctx.tag("D:probe-miss", len(ans) - hit)
    eval_datadirs(ctx, cases)


def eval_datadirs(ctx, cases):
    defs = D_DEFS + "Definition dc : list (datadir * list gt_session * list (Z * list (Z * nat)) * list (Z * Z * Z * option (Z * Z * str))) := [\n"
    items, mitems = [], []
    for st, maps, probes, ans, withsyms, mods in cases:
        gs, tl = cgt(st)
        items.append("(%s, %s, %s, [%s])" % (cdatadir(st, maps, withsyms), gs, tl,
                                               "; ".join("(%d, %d, %d, %s)" % (p[0], p[1], p[2], cans(a)) for p, a in zip(probes, ans))))
        gm = "[%s]" % "; ".join("[%s]" % "; ".join("(%d, %d, %s)" % (a, b, cstr(m)) for a, b, m in s_["maps"]) for s_ in st.sessions)
        mitems.append("(%s, [%s])" % (gm, "; ".join(copt(m, cstr) for m in mods)))
    defs += ";\n".join(items) + "\n].\n"
    defs += "Definition dm : list (list (list (Z * Z * str)) * list (option str)) := [\n%s\n].\n" % ";\n".join(mitems)
    res = coq.run_cases(ctx, "cases_d", PRE, defs, D_EVALS, timeout=1500)
    if res is None:
        return
    r = {k: coq.parse_nat_list(v) for k, v in res.items()}
    for i in sorted(set(r["violations"] + r["vmod"]))[:2]:
        st, maps, probes, ans, withsyms, mods = cases[i]
        ctx.violation("an address is resolved to the wrong symbol / session (task_find_sym_addr against the ground truth)"
                      if i in r["violations"] else "an address is attributed to the wrong module (find_task_session + find_map against the ground truth)",
                      dict(story_replay(st, probes, ans, withsyms), impl_modules=[None if m is None else m.decode("latin1") for m in mods]), True)
    r["mismatch"] = sorted(set(r["mismatch"] + r["mmod"]))
    if r["mismatch"] and not r["violations"] and not r["vmod"]:
        st, maps, probes, ans, withsyms, mods = cases[r["mismatch"][0]]
        ctx.violation("model and utils/session.c+symbol.c disagree on address resolution (%d directories)" % len(r["mismatch"]),
                      story_replay(st, probes, ans, withsyms), False)


def replay_datadir(ctx, h, obj):
    st = Story(ctx.rng)
    st.events = [tuple(e) for e in obj["events"]]
    st.sessions = [dict(s, maps=[tuple(m) for m in s["maps"]], dl=[tuple(x) for x in s["dl"]]) for s in obj["sessions"]]
    st.timeline = {int(k): [tuple(x) for x in v] for k, v in obj["timeline"].items()}
    st.modules = {k: [tuple(x) for x in v] for k, v in obj["modules"].items()}
    st.files = {k: v.encode("latin1") for k, v in obj["files"].items()}
    st.bids = obj.get("bids", {k: "" for k in st.modules})
    withsyms = bool(obj.get("with_syms"))
    d = os.path.join(ctx.scratch, "replay-dd")
    symdir = os.path.join(d, "syms") if withsyms else d
    maps = story_files(st, d, symdir)
    probes = [tuple(p) for p in obj["probes"]]
    ansm = run_story(h, d, symdir, probes)
    ans = [x[0] for x in ansm]
    ctx.case(key="replay", sample={"impl": [None if a is None else a[2].decode("latin1") for a in ans][:8]})
    ctx.log("replayed data directory: %d probes, %d resolved" % (len(probes), sum(1 for a in ans if a)))
    eval_datadirs(ctx, [(st, maps, probes, ans, withsyms, [x[1] for x in ansm])])


def story_replay(st, probes, ans, withsyms):
    return {"part": "D", "events": [list(e) for e in st.events],
            "sessions": st.sessions, "timeline": {str(k): v for k, v in st.timeline.items()},
            "modules": {k: [list(x) for x in v] for k, v in st.modules.items()},
            "files": {k: v.decode("latin1") for k, v in st.files.items()}, "with_syms": withsyms, "bids": st.bids,
            "probes": [list(p) for p in probes], "impl": [None if a is None else [a[0], a[1], a[2].decode("latin1")] for a in ans]}


# ---------------------------------------------------------------- E: end to end
LIB_C = "int lib_fn(int x) { return x * 3; }\n"
PLUG_C = "int plug_fn(int x) { return x - 7; }\n"
MAIN_C = r"""
#include <dlfcn.h>
#include <stdio.h>
int lib_fn(int);
static int local_fn(int x) { return x + 1; }
int exe_fn(int x) { return local_fn(x) * 2; }
int main(int argc, char **argv) {
  int r = exe_fn(argc) + lib_fn(argc);
  void *h = dlopen(argv[1], RTLD_NOW);
  if (h) { int (*f)(int) = (int (*)(int))dlsym(h, "plug_fn"); r += f(r); }
  return r == 12345;
}
"""
EXPECT = ["main", "exe_fn", "local_fn", "lib_fn", "lib_fn", "dlopen", "dlsym", "plug_fn"]   # lib_fn: PLT entry + function


def funcs_of_replay(out):
    names = []
    for l in out.splitlines():
        body = l.split("|", 1)[1].strip() if "|" in l else l.strip()
        if not body or body.startswith("}") or body.startswith("/*") or body.startswith("#"):
            continue
        nm = body.split("(")[0].strip()
        if nm:
            names.append(nm)
    return names


def part_e2e(ctx, objdir):
    root = os.path.join(ctx.scratch, "e2e")
    os.makedirs(root)
    uft = os.path.join(objdir, "uftrace")
    for fn, src in (("lib.c", LIB_C), ("plug.c", PLUG_C), ("main.c", MAIN_C)):
        open(os.path.join(root, fn), "w").write(src)
    sh(["gcc", "-pg", "-fPIC", "-shared", "-o", "libc10lib.so", "lib.c"], cwd=root, check=True)
    sh(["gcc", "-pg", "-fPIC", "-shared", "-o", "libc10plug.so", "plug.c"], cwd=root, check=True)
    sh(["gcc", "-pg", "-pie", "-fPIE", "-o", "prog", "main.c", "-L.", "-lc10lib", "-ldl", "-Wl,-rpath," + root], cwd=root, check=True)
    runs = []
    for k in range(ctx.n(2, 4)):
        d = os.path.join(root, "data%d" % k)
        rc, out, err = sh(["timeout", "40", uft, "record", "--no-pager", "--no-event", "--libmcount-path=" + objdir,
                           "-d", d, "./prog", os.path.join(root, "libc10plug.so")], timeout=60, cwd=root)
        if rc == 124 or not os.path.exists(os.path.join(d, "task.txt")):
            ctx.broken("e2e: uftrace record failed (rc=%d): %s" % (rc, (out + err)[-300:]))
            return
        rc, out, err = datadir.uftrace(objdir, "replay", d, ["-f", "none"])
        names = funcs_of_replay(out)
        maps = [open(os.path.join(d, f)).read() for f in os.listdir(d) if f.endswith(".map")]
        base = [l.split("-")[0] for l in maps[0].splitlines() if l.rstrip().endswith("/prog")][:1]
        runs.append((names, base))
        want = [n for n in EXPECT]
        got = [n for n in names if n in EXPECT]
        raw = [n for n in names if n.startswith("<") and n.endswith(">")]
        if got != want or raw:
            ctx.violation("real record/replay of a PIE program with a shared library and dlopen does not show the "
                          "functions by name", {"part": "E", "expected_sequence": want, "replay_functions": names,
                                                "raw_addresses": raw, "map": maps[0][:600]}, True)
        ctx.case(key=("E", "record", k), tags=["E:pie+shlib+dlopen"], sample={"part": "E", "replay": names, "load_base": base} if k == 0 else None)
        # --with-syms: a copy of the symbol files in another directory gives the same answer
        sd = os.path.join(root, "syms%d" % k)
        os.makedirs(sd)
        d2 = os.path.join(root, "nosym%d" % k)
        shutil.copytree(d, d2)
        for f in os.listdir(d2):
            if f.endswith(".sym"):
                shutil.move(os.path.join(d2, f), os.path.join(sd, f))
        rc, out2, err = datadir.uftrace(objdir, "replay", d2, ["-f", "none", "--with-syms", sd])
        if funcs_of_replay(out2) != names:
            ctx.violation("replay --with-syms DIR differs from replay with the recorded symbol files",
                          {"part": "E", "with_syms": funcs_of_replay(out2), "plain": names}, True)
        ctx.case(key=("E", "with-syms", k), tags=["E:with-syms"])
        # record --with-syms DIR: the symbol files are taken from DIR (plain copy) and replay shows the same
        d3 = os.path.join(root, "recsyms%d" % k)
        rc, out3, err3 = sh(["timeout", "40", uft, "record", "--no-pager", "--no-event", "--libmcount-path=" + objdir,
                             "--with-syms", sd, "-d", d3, "./prog", os.path.join(root, "libc10plug.so")], timeout=60, cwd=root)
        if rc == 124 or not os.path.exists(os.path.join(d3, "task.txt")):
            ctx.broken("e2e: uftrace record --with-syms failed (rc=%d): %s" % (rc, (out3 + err3)[-300:]))
        else:
            differ = [f for f in os.listdir(sd) if f.endswith(".sym") and
                      (not os.path.exists(os.path.join(d3, f)) or open(os.path.join(d3, f), "rb").read() != open(os.path.join(sd, f), "rb").read())]
            rc, out4, err4 = datadir.uftrace(objdir, "replay", d3, ["-f", "none"])
            names4 = [n for n in funcs_of_replay(out4) if n in EXPECT]
            if differ or names4 != EXPECT:
                ctx.violation("record --with-syms DIR: symbol files are not the ones of DIR, or replay does not show the functions by name",
                              {"part": "E", "differing_sym_files": differ, "replay_functions": funcs_of_replay(out4), "expected": EXPECT}, True)
            ctx.case(key=("E", "record-with-syms", k), tags=["E:record-with-syms"])
        # reload every .sym file record wrote: identical after another save (writer/reader fixpoint)
    if len(set(b[0] for _, b in runs if b)) > 1:
        ctx.tag("E:aslr-bases-differ")




def part_rawdisplay(ctx, objdir):
    """synthetic directory, real `uftrace replay`: an address inside a symbol is printed under its name, every other
    address as <hex of that address> (first byte, last byte, one past, gaps, unmapped)"""
    rng = ctx.rng
    for k in range(ctx.n(2, 12)):
        tab = [(a % 0x80000, sz, t, "f%d_%s" % (i, n.replace(" ", "_").replace(":", "_"))) for i, (a, sz, t, n) in
               enumerate(gen_file_tab(rng, rng.choice([3, 5, 8]))) if t != "P" and sz < 0x8000]
        if not tab:
            continue
        base = rng.choice([0x400000, 0x555555554000])
        probes = [p for p in probes_of(rng, tab, 2) if p < 0x100000][:24] + [0x7000000 - base]
        recs, t = [], 1000
        for pr in probes:
            recs += [{"t": t, "type": datadir.ENTRY, "depth": 0, "addr": base + pr}, {"t": t + 5, "type": datadir.EXIT, "depth": 0, "addr": base + pr}]
            t += 10
        d = os.path.join(ctx.scratch, "rawdisp%d" % k)
        datadir.write({"syms": [(a, sz, ty, n) for a, sz, ty, n in tab], "base": base,
                       "tasks": [{"tid": 100, "pid": 100, "recs": recs}]}, d)
        rc, out, err = datadir.uftrace(objdir, "replay", d, ["-f", "none", "--demangle=no"])
        shown = funcs_of_replay(out)
        if rc != 0 or len(shown) != len(probes):
            ctx.broken("rawdisplay: replay failed or shows %d of %d calls (rc=%d): %s" % (len(shown), len(probes), rc, (out + err)[-300:]))
            continue
        ans = []
        for pr, nm in zip(probes, shown):
            if nm == "<%x>" % (base + pr):
                ans.append(None)
            else:
                ans.append(nm)          # a name - or a raw address that is not the record's address (judged as a wrong name)
        defs = "Definition wt : symtab := %s.\nDefinition wp : list (Z * option str) := [%s].\n" % (
            ctab(tab), "; ".join("(%d, %s)" % (pr, copt(a, cstr)) for pr, a in zip(probes, ans)))
        res = coq.run_cases(ctx, "cases_w%d" % k, PRE, defs, [
            ("v", "bad_indices (fun pr => match spec_find wt (fst pr), snd pr with Some s, Some nm => str_eqb (s_name s) nm "
                  "| None, None => true | _, _ => false end) wp 0"),
            ("m", "bad_indices (fun pr => match find_sym wt (fst pr), snd pr with Some s, Some nm => str_eqb (s_name s) nm "
                  "| None, None => true | _, _ => false end) wp 0")])
        ctx.case(key=("W", tuple(tab), tuple(probes), base), tags=["E:raw-address-display", "E:synthetic-replay"], size=len(probes))
        if res is None:
            continue
        v, m = coq.parse_nat_list(res["v"]), coq.parse_nat_list(res["m"])
        if v:
            ctx.violation("replay of a synthetic directory: an address inside a symbol is not shown under its name, or an address outside "
                          "every symbol is not shown as its raw address", {"part": "E", "table": tab, "base": base,
                          "wrong": [["%x" % (base + probes[i]), shown[i]] for i in v[:6]]}, True)
        elif m:
            ctx.violation("model find_sym and `uftrace replay` disagree on a synthetic directory", {"part": "E", "table": tab, "base": base,
                          "first": ["%x" % (base + probes[m[0]]), shown[m[0]]]}, False)


# ---------------------------------------------------------------- R: real recordings with static initialisers
# A program dlopen()s an instrumented library whose ELF constructor and C++ global initialiser call
# traced functions; the constructor dlopen()s a second library.  Ground truth: the load bases the
# program itself logs (dladdr) and `nm -S` of the ELF files.  EVERY record of the run is judged.
R_DEP_C = "int c10dep_fn(int x) { return x + 100; }\n"
R_LIB_C = ("#include <stdlib.h>\n#include <string.h>\n"
           "int c10lib_fn(int x) { return x * 3 + atoi(\"5\") + (int)strlen(\"abc\"); }\n")   # PLT calls inside a shared library
R_B_CC = r"""
#include <stdio.h>
#include <dlfcn.h>
extern "C" int c10b_helper(int x) { return x * 5; }
struct C10BInit { int v; C10BInit() { v = 0; for (int i = 0; i < %(nb)d; i++) v += c10b_helper(i); } };
static C10BInit c10b_global;
static int c10b_value = c10b_helper(7);
extern "C" int c10b_run(int x) { return c10b_global.v + c10b_value + x; }
__attribute__((constructor)) static void c10b_ctor(void)
{ Dl_info i; if (dladdr((void *)&c10b_run, &i)) fprintf(stderr, "C10BASE %%s %%lx\n", i.dli_fname, (unsigned long)i.dli_fbase); }
"""
R_A_C = r"""
#define _GNU_SOURCE
#include <dlfcn.h>
#include <stdio.h>
#include <stdlib.h>
%(depdecl)s
static int table[4];
int c10a_fill(int i) { table[i & 3] = %(depcall)s; return i; }
int c10a_run(int x) { return table[x & 3] + x; }
__attribute__((constructor)) static void c10a_init(void)
{
	Dl_info di; void *h; int (*f)(int); int i;
	for (i = 0; i < %(na)d; i++) c10a_fill(i);
	if (dladdr((void *)&c10a_run, &di)) fprintf(stderr, "C10BASE %%s %%lx\n", di.dli_fname, (unsigned long)di.dli_fbase);
	%(deplog)s
	if (getenv("C10_LIBB") && getenv("C10_LIBB")[0] && (h = dlopen(getenv("C10_LIBB"), %(flagb)s))) {
		f = (int (*)(int))dlsym(h, "c10b_run");
		if (f) table[3] = f(2);
	}
}
"""
R_MAIN_C = r"""
#define _GNU_SOURCE
#include <dlfcn.h>
#include <stdio.h>
int c10lib_fn(int);
static int c10_local(int x) { return x + 1; }
int c10_exe_fn(int x) { return c10_local(x) * 2; }
int main(int argc, char **argv)
{
	Dl_info di; void *h; int (*run)(int); int r = c10_exe_fn(argc) + c10lib_fn(argc);
	if (dladdr((void *)&main, &di)) fprintf(stderr, "C10BASE %%s %%lx\n", di.dli_fname, (unsigned long)di.dli_fbase);
	if (dladdr((void *)&c10lib_fn, &di)) fprintf(stderr, "C10BASE %%s %%lx\n", di.dli_fname, (unsigned long)di.dli_fbase);
	h = dlopen(argv[1], %(flaga)s);
	if (!h) { fprintf(stderr, "dlopen: %%s\n", dlerror()); return 2; }
	run = (int (*)(int))dlsym(h, "c10a_run");
	r += run(1);
	r += c10_exe_fn(r);
	return r == 12345;
}
"""


def nm_funcs(path):
    """function symbols with a size: [(addr, size, name)], aliases (several names at one address) dropped"""
    rc, out, err = sh(["nm", "-S", "--defined-only", path], check=True)
    by = {}
    for l in out.splitlines():
        k = l.split()
        if len(k) == 4 and k[2] in "tTwW":
            by.setdefault(int(k[0], 16), []).append((int(k[1], 16), k[3]))
    return sorted((a, v[0][0], v[0][1]) for a, v in by.items() if len(v) == 1 and v[0][0] > 0)


def objdump_plt(path):
    """[(addr, 16, name)] of the name@plt labels binutils derives for .plt / .plt.sec"""
    import re
    rc, out, err = sh(["objdump", "-d", "-j", ".plt", "-j", ".plt.sec", "--no-show-raw-insn", path])
    has_sec = "Disassembly of section .plt.sec" in out
    res, sec = [], None
    for l in out.splitlines():
        if l.startswith("Disassembly of section"):
            sec = l.split()[-1].rstrip(":")
        m = re.match(r"^([0-9a-f]+) <([^@>+]+)@plt>:", l)
        if m and (sec == ".plt.sec" or not has_sec):
            res.append((int(m.group(1), 16), 16, m.group(2)))
    return res


def parse_dump(out):
    """`uftrace dump` -> [(tid, time, addr, name)] of the entry records"""
    import re
    res = []
    for l in out.splitlines():
        m = re.match(r"^\s*(\d+\.\d+)\s+(\d+): \[entry\] (.*)\(([0-9a-f]+)\) depth: \d+", l)
        if m:
            res.append((int(m.group(2)), ts_ns(m.group(1)), int(m.group(4), 16), m.group(3)))
    return res


def parse_report(out):
    names, on = [], False
    for l in out.splitlines():
        if l.strip().startswith("====="):
            on = True
            continue
        k = l.split()
        if on and len(k) >= 6:
            names.append(" ".join(k[5:]))
    return names


def ts_ns(txt):
    sec, ns = txt.split(".")
    return int(sec) * 10**9 + int(ns)


def parse_task_txt(path):
    import re
    ev = []
    for l in open(path):
        if l.startswith("SESS"):
            m = re.match(r'SESS timestamp=(\S+) pid=(\d+) sid=(\S+) exename="(.*)"', l)
            ev.append(("SESS", int(m.group(2)), ts_ns(m.group(1)), m.group(3), m.group(4)))
        elif l.startswith("TASK"):
            m = re.match(r"TASK timestamp=(\S+) tid=(\d+) pid=(\d+)", l)
            ev.append(("TASK", int(m.group(2)), int(m.group(3)), ts_ns(m.group(1))))
        elif l.startswith("FORK"):
            m = re.match(r"FORK timestamp=(\S+) pid=(\d+) ppid=(\d+)", l)
            ev.append(("FORK", int(m.group(2)), int(m.group(3)), ts_ns(m.group(1))))
        elif l.startswith("DLOP"):
            m = re.match(r'DLOP timestamp=(\S+) tid=(\d+) sid=(\S+) base=([0-9a-f]+) libname="(.*)"', l)
            ev.append(("DLOP", m.group(3), ts_ns(m.group(1)), int(m.group(4), 16), m.group(5)))
    return ev


def parse_replay_fields(out):
    """`replay -f tid,addr,time,module --demangle=no` -> entry records [(tid, addr, time, module, name)]"""
    recs = []
    for l in out.splitlines():
        if l.startswith("#") or "|" not in l:
            continue
        left, body = l.split("|", 1)
        body = body.strip()
        if not body or body.startswith("}") or body.startswith("/*"):
            continue
        k = left.replace("[", " ").replace("]", " ").split()
        if len(k) < 4:
            continue
        tid, addr, t, mod = int(k[0]), int(k[1], 16), ts_ns(k[2]), " ".join(k[3:])
        name = body.split("(")[0].strip()
        recs.append((tid, addr, t, mod, name))
    return recs


R_EVALS = [
    # the property on the implementation's own output: name (and module) of every record inside a known function
    ("vname", "bad_indices (fun pr => match pr with (tid, t, a, ans) => ok_resolve_name rgs rtl tid t a ans end) rprobes 0"),
    ("vmod", "bad_indices (fun pr => match pr with (shown, want) => str_eqb shown want end) rmods 0"),
    # record side: the DLOP time stamp of a library is not later than any record at its addresses
    ("vorder", "if ok_load_order rloads (map (fun pr => match pr with (tid, t, a, ans) => (t, a) end) rprobes) then [] else [0%nat]"),
    # model of the analysis side on the recorded files
    ("mismatch", "let lk := open_data dem_plain rdir in bad_indices (fun pr => match pr with (tid, t, a, ans) => "
                 "match resolve lk tid t a, ans with Some s, Some nm => str_eqb (s_name s) nm | None, None => true | _, _ => false end end) rprobes 0"),
]


def r_scenario(ctx, objdir, root, tag, na, nb, nested, dep, relpath, lazy, nest=False):
    """build, record, observe; returns a dict or None (ctx.broken called)"""
    uft = os.path.join(objdir, "uftrace")
    w = os.path.join(root, tag)
    os.makedirs(w)
    flag = "RTLD_LAZY" if lazy else "RTLD_NOW"
    src = {
        "dep.c": R_DEP_C, "lib.c": R_LIB_C, "b.cc": R_B_CC % {"nb": nb},
        "a.c": R_A_C % {"na": na, "flagb": flag,
                        "depdecl": "int c10dep_fn(int);" if dep else "",
                        "depcall": "c10dep_fn(i)" if dep else "i + 100",
                        "deplog": ('if (dladdr((void *)&c10dep_fn, &di)) fprintf(stderr, "C10BASE %s %lx\\n", di.dli_fname, '
                                   '(unsigned long)di.dli_fbase);') if dep else ""},
        "main.c": R_MAIN_C % {"flaga": flag},
    }
    for fn, txt in src.items():
        open(os.path.join(w, fn), "w").write(txt)
    sh(["gcc", "-pg", "-O0", "-fPIC", "-shared", "-o", "libc10dep.so", "dep.c"], cwd=w, check=True)
    sh(["gcc", "-pg", "-O0", "-fno-builtin", "-fPIC", "-shared", "-o", "libc10lib.so", "lib.c"], cwd=w, check=True)
    sh(["g++", "-pg", "-O0", "-fPIC", "-shared", "-o", "libc10b.so", "b.cc", "-ldl"], cwd=w, check=True)
    sh(["gcc", "-pg", "-O0", "-fPIC", "-shared", "-o", "libc10a.so", "a.c", "-ldl"]
       + (["-L.", "-lc10dep", "-Wl,-rpath," + w] if dep else []), cwd=w, check=True)
    sh(["gcc", "-pg", "-O0", "-pie", "-fPIE", "-o", "prog", "main.c", "-L.", "-lc10lib", "-ldl", "-Wl,-rpath," + w], cwd=w, check=True)
    d = os.path.join(w, "data")
    env = {"C10_LIBB": os.path.join(w, "libc10b.so")} if nested else {"C10_LIBB": ""}
    liba = "./libc10a.so" if relpath else os.path.join(w, "libc10a.so")
    rc, out, err = sh(["timeout", "40", uft, "record", "--no-pager", "--no-event", "--libmcount-path=" + objdir]
                      + (["--nest-libcall"] if nest else []) + ["-d", d, "./prog", liba], timeout=60, cwd=w, env=env)
    if rc == 124 or not os.path.exists(os.path.join(d, "task.txt")):
        ctx.broken("e2e(%s): uftrace record failed (rc=%d): %s" % (tag, rc, (out + err)[-300:]))
        return None
    bases = {}
    for l in (out + err).splitlines():
        if l.startswith("C10BASE "):
            _, path, b = l.split()
            bases[os.path.basename(path)] = int(b, 16)
    rc, rout, rerr = datadir.uftrace(objdir, "replay", d, ["-f", "tid,addr,time,module", "--demangle=no"])
    recs = parse_replay_fields(rout)
    if rc != 0 or not recs:
        ctx.broken("e2e(%s): uftrace replay failed (rc=%d): %s" % (tag, rc, (rout + rerr)[-300:]))
        return None
    elfs = {n: nm_funcs(os.path.join(w, n)) + objdump_plt(os.path.join(w, n))
            for n in ("prog", "libc10lib.so", "libc10a.so", "libc10b.so", "libc10dep.so") if n in bases}
    rc2, dout, derr = datadir.uftrace(objdir, "dump", d, ["--demangle=no"])
    rc3, pout, perr = datadir.uftrace(objdir, "report", d, ["--demangle=no"])
    if rc2 != 0 or rc3 != 0:
        ctx.broken("e2e(%s): uftrace dump/report failed (rc=%d/%d): %s" % (tag, rc2, rc3, (derr + perr)[-300:]))
        return None
    return {"tag": tag, "dump": parse_dump(dout), "report": parse_report(pout), "dir": d, "w": w, "bases": bases, "recs": recs, "elfs": elfs, "events": parse_task_txt(os.path.join(d, "task.txt")),
            "replay": rout, "params": {"na": na, "nb": nb, "nested": nested, "dep": dep, "relpath": relpath, "lazy": lazy, "nest_libcall": nest}}


def r_evaluate(ctx, sc, skip_mods=()):
    """judge every record of one recording inside Coq; returns dict of index lists (or None)"""
    bases, elfs, recs = sc["bases"], sc["elfs"], sc["recs"]
    mods = []            # ground truth: (start, end, table)
    for n, tab in elfs.items():
        if n in skip_mods or not tab:
            continue
        ext = max(a + s for a, s, _ in tab)
        mods.append((n, bases[n], bases[n] + ext, [(a, s, "T", nm) for a, s, nm in tab]))
    probes, modrows, raw = [], [], []
    for tid, addr, t, mod, name in recs:
        israw = name.startswith("<") and name.endswith(">")
        inmod = [m for m in mods if m[1] <= addr < m[2] and any(a <= addr - m[1] < a + s for a, s, _, _ in m[3])]
        skipped = any(n in skip_mods and n in bases and elfs.get(n) and
                      bases[n] <= addr < bases[n] + max(a + s for a, s, _ in elfs[n]) for n in skip_mods)
        if israw and not skipped:
            raw.append((tid, addr, t, mod, name))
        probes.append((tid, t, addr, None if israw else name))
        if inmod:
            modrows.append((mod, inmod[0][0]))
    for tid, t, addr, name in sc.get("dump", []):          # the same records as `uftrace dump` shows them
        probes.append((tid, t, addr, None if name.startswith("<") else name))
        if name.startswith("<") and not any(m[1] <= addr < m[2] for m in mods if m[0] in skip_mods):
            raw.append((tid, addr, t, "dump", name))
    events = sc["events"]
    d = sc["dir"]
    maps = {}
    for e in events:
        if e[0] == "SESS":
            maps[e[3]] = open(os.path.join(d, "sid-%s.map" % e[3]), "rb").read()
    files = {}
    for n in list(elfs) + ["libc10dep.so"]:
        fn = os.path.join(d, n + ".sym")
        if os.path.exists(fn):
            files[n + ".sym"] = open(fn, "rb").read()
    loads = []
    for e in events:
        if e[0] == "DLOP":
            n = os.path.basename(e[4])
            if n in elfs and elfs[n]:
                loads.append((e[2], e[3], max(a + s for a, s, _ in elfs[n])))
    tids = sorted(set(r[0] for r in recs))
    defs = "Definition rgs : list gt_session := [mkGt [%s] []].\n" % "; ".join(
        "(%d, %d, %s)" % (m[1], m[2], ctab(m[3])) for m in mods)
    defs += "Definition rtl : list (Z * list (Z * nat)) := [%s].\n" % "; ".join("(%d, [(0, 0%%nat)])" % t for t in tids)
    defs += "Definition rprobes : list (Z * Z * Z * option str) := [%s].\n" % "; ".join(
        "(%d, %d, %d, %s)" % (p[0], p[1], p[2], copt(p[3], cstr)) for p in probes)
    defs += "Definition rmods : list (str * str) := [%s].\n" % "; ".join("(%s, %s)" % (cstr(a), cstr(b)) for a, b in modrows)
    defs += "Definition rloads : list (Z * Z * Z) := [%s].\n" % "; ".join("(%d, %d, %d)" % l for l in loads)
    defs += "Definition rdir : datadir := mkDir [%s] [%s] [%s] false.\n" % (
        "; ".join(cevent(e) for e in events),
        "; ".join("(%s, %s)" % (cstr(k), cstr(v)) for k, v in maps.items()),
        "; ".join("(%s, %s)" % (cstr(k), cstr(v)) for k, v in files.items()))
    res = coq.run_cases(ctx, "cases_r_" + sc["tag"], PRE, defs, R_EVALS, timeout=600)
    if res is None:
        return None
    r = {k: coq.parse_nat_list(v) for k, v in res.items()}
    r["raw"] = raw
    r["probes"] = probes
    r["loads"] = loads
    return r


def r_replay_obj(sc, r, extra=None):
    o = {"part": "R", "params": sc["params"], "bases": {k: "%x" % v for k, v in sc["bases"].items()},
         "dlop": [[e[2], "%x" % e[3], e[4]] for e in sc["events"] if e[0] == "DLOP"],
         "replay_output": sc["replay"][-3000:],
         "unresolved": [["%x" % a, t, m] for _, a, t, m, _ in r["raw"]][:10],
         "wrong_name": [[p[0], p[1], "%x" % p[2], p[3]] for i, p in enumerate(r["probes"]) if i in set(r["vname"])][:10]}
    if extra:
        o.update(extra)
    return o


def in_which(sc, addr):
    for n, tab in sc["elfs"].items():
        b = sc["bases"][n]
        for a, s_, nm in tab:
            if b + a <= addr < b + a + s_:
                return "%s of %s" % (nm, n)
    return "?"


def part_recordings(ctx, objdir):
    rng = ctx.rng
    root = os.path.join(ctx.scratch, "rec")
    os.makedirs(root, exist_ok=True)
    # "full": nested dlopen from a constructor AND a DT_NEEDED dependency that comes in with the opened library
    # (regression case of fix 0c4417a: before it the dependency got no DLOP entry)
    variants = [("full", 2, 3, True, True, False, False, True)]
    for k in range(ctx.n(1, 5)):
        variants.append(("v%d" % k, rng.randrange(1, 4), rng.randrange(1, 4), rng.random() < 0.6, rng.random() < 0.5,
                         rng.random() < 0.5, rng.random() < 0.5, rng.random() < 0.5))
    for tag, na, nb, nested, dep, relpath, lazy, nest in variants:
        sc = r_scenario(ctx, objdir, root, tag, na, nb, nested, dep, relpath, lazy, nest)
        if sc is None:
            continue
        r = r_evaluate(ctx, sc)
        tags = ["R:ctor", "R:dependency" if dep else "R:no-dependency", "R:c++-global-init" if nested else "R:no-nested", "R:nested-dlopen" if nested else "R:single-dlopen",
                "R:relative-path" if relpath else "R:absolute-path", "R:lazy" if lazy else "R:now",
                "R:nest-libcall(library PLT)" if nest else "R:exe-PLT-only", "R:dump", "R:report"]
        ctx.case(key=("R", tag, na, nb, nested, dep, relpath, lazy), tags=tags, size=len(sc["recs"]),
                 sample={"part": "R", "params": sc["params"], "records": len(sc["recs"]),
                         "functions": [x[4] for x in sc["recs"]][:14]} if tag == "full" else None)
        if r is None:
            continue
        ctx.tag("R:records-judged", len(sc["recs"]))
        want = {"c10a_init", "c10a_fill", "c10a_run", "c10_exe_fn", "c10_local", "c10lib_fn", "main"}
        if nested:
            want |= {"c10b_helper", "c10b_run", "_GLOBAL__sub_I_b.cc"}
        if dep:
            want |= {"c10dep_fn"}
        if nest:
            want |= {"atoi", "strlen"}            # called through the PLT of libc10lib.so
        addrs_seen = set(in_which(sc, x[1]).split(" of ")[0] for x in sc["recs"])
        missing = sorted(want - addrs_seen)
        rep_names, play_names = set(sc["report"]), set(x[4] for x in sc["recs"])
        if rep_names != play_names:
            ctx.violation("`uftrace report` and `uftrace replay` name the functions of one recording differently",
                          {"part": "R", "params": sc["params"], "only_in_report": sorted(rep_names - play_names),
                           "only_in_replay": sorted(play_names - rep_names)}, True)
        if len(sc["dump"]) != len(sc["recs"]):
            ctx.broken("e2e(%s): dump shows %d entry records, replay %d" % (tag, len(sc["dump"]), len(sc["recs"])))
        if missing:
            ctx.broken("e2e(%s): the recording does not contain records of %s (scenario did not run as designed)" % (tag, missing),
                       sc["replay"][-1500:])
        if r["raw"] or r["vname"] or r["vmod"] or r["vorder"]:
            what = []
            if r["raw"]:
                what.append("records shown as raw addresses: " + ", ".join(
                    "<%x> = %s" % (x[1], in_which(sc, x[1])) for x in r["raw"][:4]))
            if r["vname"]:
                what.append("%d records shown under a wrong name" % len(r["vname"]))
            if r["vmod"]:
                what.append("%d records shown under a wrong module" % len(r["vmod"]))
            if r["vorder"]:
                what.append("a DLOP time stamp is later than a record at an address of that library "
                            "(load event must precede all records of the module)")
            ctx.violation("real recording (dlopen of a library with static initialisers): " + "; ".join(what),
                          r_replay_obj(sc, r), True)
        elif r["mismatch"]:
            ctx.violation("model of the analysis side and `uftrace replay` disagree on a real recording (%d records)" % len(r["mismatch"]),
                          r_replay_obj(sc, r, {"first": list(r["probes"][r["mismatch"][0]])}), False)



# ---------------------------------------------------------------- X: real recordings across fork and exec
# Two NON-PIE executables whose functions overlap in address: the parent (progA) forks, the child runs
# progA code, then execs progB.  A record of the child is progA's before the exec and progB's after it:
# "the session in force at the record's timestamp".  Ground truth: nm/objdump of both files, the
# program's own log of the child pids, and the child's execl() record (PLT address known from objdump).
X_A_C = r"""
#include <stdio.h>
#include <stdlib.h>
#include <unistd.h>
#include <sys/wait.h>
volatile int sink;
int c10x_a_work(int x) { sink += x; return x + 1; }
int c10x_a_child(int x) { sink += x; return x + 2; }
int c10x_a_after(int x) { sink += x; return x + 3; }
int main(int argc, char **argv)
{
	int st = 0, i; pid_t pid;
	c10x_a_work(argc);
	for (i = 0; i < %(nchild)d; i++) {
		pid = fork();
		if (pid == 0) {
			c10x_a_child(i);
			if (%(execmask)d & (1 << i))
				execl(argv[1], argv[1], (char *)0);
			c10x_a_after(i);
			_exit(0);
		}
		fprintf(stderr, "C10CHILD %%d %%d\n", (int)pid, (%(execmask)d >> i) & 1);
		waitpid(pid, &st, 0);
		c10x_a_after(st);
	}
	return 0;
}
"""
X_B_C = r"""
volatile int sink;
int c10x_b_one(int x) { sink += x; return x * 2; }
int c10x_b_two(int x) { sink += x; return c10x_b_one(x) + 1; }
int c10x_b_three(int x) { sink += x; return c10x_b_two(x) + 1; }
int main(int argc, char **argv) { return c10x_b_three(argc) == 12345; }
"""

X_EVALS = [
    ("vname", "bad_indices (fun pr => match pr with (tid, t, a, ans) => ok_resolve_name xgs xtl tid t a ans end) xprobes 0"),
    ("vmod", "bad_indices (fun pr => match pr with (shown, want) => str_eqb shown want end) xmods 0"),
    ("mismatch", "let lk := open_data dem_plain xdir in bad_indices (fun pr => match pr with (tid, t, a, ans) => "
                 "match resolve lk tid t a, ans with Some s, Some nm => str_eqb (s_name s) nm | None, None => true | _, _ => false end end) xprobes 0"),
]


def part_forkexec(ctx, objdir):
    rng = ctx.rng
    uft = os.path.join(objdir, "uftrace")
    root = os.path.join(ctx.scratch, "forkexec")
    os.makedirs(root, exist_ok=True)
    variants = [("x0", 1, 1)] + [("x%d" % (k + 1), rng.randrange(1, 4), rng.randrange(0, 8)) for k in range(ctx.n(1, 4))]
    for tag, nchild, execmask in variants:
        execmask &= (1 << nchild) - 1
        w = os.path.join(root, tag)
        os.makedirs(w)
        open(os.path.join(w, "a.c"), "w").write(X_A_C % {"nchild": nchild, "execmask": execmask})
        open(os.path.join(w, "b.c"), "w").write(X_B_C)
        sh(["gcc", "-pg", "-O0", "-fno-pie", "-no-pie", "-o", "progA", "a.c"], cwd=w, check=True)
        sh(["gcc", "-pg", "-O0", "-fno-pie", "-no-pie", "-o", "progB", "b.c"], cwd=w, check=True)
        d = os.path.join(w, "data")
        rc, out, err = sh(["timeout", "40", uft, "record", "--no-pager", "--no-event", "--libmcount-path=" + objdir, "-d", d,
                           "./progA", os.path.join(w, "progB")], timeout=60, cwd=w)
        if rc == 124 or not os.path.exists(os.path.join(d, "task.txt")):
            ctx.broken("forkexec(%s): uftrace record failed (rc=%d): %s" % (tag, rc, (out + err)[-300:]))
            continue
        children = [(int(l.split()[1]), int(l.split()[2])) for l in (out + err).splitlines() if l.startswith("C10CHILD ")]
        rc, rout, rerr = datadir.uftrace(objdir, "replay", d, ["-f", "tid,addr,time,module", "--demangle=no"])
        recs = parse_replay_fields(rout)
        rc2, dout, derr = datadir.uftrace(objdir, "dump", d, ["--demangle=no"])
        tabs = {n: [(a, sz, nm) for a, sz, nm in nm_funcs(os.path.join(w, n)) + objdump_plt(os.path.join(w, n))] for n in ("progA", "progB")}
        execl_addr = [a for a, sz, nm in tabs["progA"] if nm == "execl"]
        events = parse_task_txt(os.path.join(d, "task.txt"))
        parent = [e[1] for e in events if e[0] == "SESS"][0]
        timeline = {parent: [(0, 0)]}
        for pid, does_exec in children:
            tl = [(0, 0)]
            if does_exec:
                tx = [t for tid, addr, t, mod, nm in recs if tid == pid and execl_addr and addr == execl_addr[0]]
                if not tx:
                    ctx.broken("forkexec(%s): child %d has no execl() record" % (tag, pid), rout[-1500:])
                    continue
                tl.append((tx[0] + 1, 1))
            timeline[pid] = tl

        def in_force(tid, t):
            cur = None
            for st_, si in timeline.get(tid, []):
                if st_ <= t:
                    cur = si
            return cur
        names = ["progA", "progB"]
        probes, modrows, raw = [], [], []
        for tid, addr, t, mod, nm in recs:
            israw = nm.startswith("<") and nm.endswith(">")
            probes.append((tid, t, addr, None if israw else nm))
            si = in_force(tid, t)
            if si is not None and any(a <= addr < a + sz for a, sz, _ in tabs[names[si]]):
                modrows.append((mod, names[si]))
            if israw and addr != 0:
                raw.append(["%x" % addr, tid])
        for tid, t, addr, nm in parse_dump(dout):
            probes.append((tid, t, addr, None if nm.startswith("<") else nm))
        maps, files = {}, {}
        for e in events:
            if e[0] == "SESS":
                maps[e[3]] = open(os.path.join(d, "sid-%s.map" % e[3]), "rb").read()
        for n in names:
            fn = os.path.join(d, n + ".sym")
            if os.path.exists(fn):
                files[n + ".sym"] = open(fn, "rb").read()
        defs = "Definition xgs : list gt_session := [%s].\n" % "; ".join(
            "mkGt [(0, %d, %s)] []" % (max(a + sz for a, sz, _ in tabs[n]), ctab([(a, sz, "T", nm) for a, sz, nm in tabs[n]])) for n in names)
        defs += "Definition xtl : list (Z * list (Z * nat)) := [%s].\n" % "; ".join(
            "(%d, [%s])" % (tid, "; ".join("(%d, %d%%nat)" % x for x in tl)) for tid, tl in sorted(timeline.items()))
        defs += "Definition xprobes : list (Z * Z * Z * option str) := [%s].\n" % "; ".join(
            "(%d, %d, %d, %s)" % (p[0], p[1], p[2], copt(p[3], cstr)) for p in probes)
        defs += "Definition xmods : list (str * str) := [%s].\n" % "; ".join("(%s, %s)" % (cstr(a), cstr(b)) for a, b in modrows)
        defs += "Definition xdir : datadir := mkDir [%s] [%s] [%s] false.\n" % (
            "; ".join(cevent(e) for e in events),
            "; ".join("(%s, %s)" % (cstr(k), cstr(v)) for k, v in maps.items()),
            "; ".join("(%s, %s)" % (cstr(k), cstr(v)) for k, v in files.items()))
        res = coq.run_cases(ctx, "cases_x_" + tag, PRE, defs, X_EVALS, timeout=600)
        nexec = sum(1 for _, e in children if e)
        ctx.case(key=("X", tag, nchild, execmask), tags=["X:fork", "X:children=%d" % nchild, "X:exec=%d" % nexec,
                                                          "X:overlapping-addresses"], size=len(recs),
                 sample={"part": "X", "children": children, "functions": [(r[0], r[4]) for r in recs][:16]} if tag == "x0" else None)
        if res is None:
            continue
        r = {k: coq.parse_nat_list(v) for k, v in res.items()}
        seen = set((tid == parent, nm) for tid, addr, t, mod, nm in recs)
        need = {(True, "c10x_a_work"), (True, "c10x_a_after"), (False, "c10x_a_child")} | ({(False, "c10x_b_one")} if nexec else set())
        rep = {"part": "X", "children": children, "source_a": X_A_C % {"nchild": nchild, "execmask": execmask}, "replay": rout[-3000:],
               "task_txt": open(os.path.join(d, "task.txt")).read(), "timeline": {str(k): v for k, v in timeline.items()}}
        if r["vname"] or r["vmod"] or raw or not need <= seen:
            what = []
            if r["vname"]:
                what.append("%d records under a wrong name: %s" % (len(r["vname"]), [list(probes[i]) for i in r["vname"][:3]]))
            if r["vmod"]:
                what.append("%d records under a wrong module" % len(r["vmod"]))
            if raw:
                what.append("raw addresses %s" % raw[:4])
            if not need <= seen:
                what.append("functions missing from replay: %s" % sorted(need - seen))
            ctx.violation("real recording across fork/exec (two non-PIE programs with overlapping addresses): " + "; ".join(what), rep, True)
        elif r["mismatch"]:
            ctx.violation("model of the analysis side and `uftrace replay` disagree on a fork/exec recording (%d records)" % len(r["mismatch"]),
                          dict(rep, first=list(probes[r["mismatch"][0]])), False)



# ---------------------------------------------------------------- U: unload and reload over one address range
# dlopen(NULL) / failed dlopen / RTLD_NOLOAD calls, then: dlopen(A), call into A, dlclose(A), dlopen(B) - the
# loader maps B where A was (same layout) - call into B.  The first call must be shown under A's function, the
# second under B's: "from their load time on".  Every DLOP stamp must lie between the record of the dlopen()
# call that did the load and the first record inside the library.
U_LIB_C = "int c10u_%s(int x) { return x + %d; }\n"
U_MAIN_C = r"""
#define _GNU_SOURCE
#include <dlfcn.h>
#include <stdio.h>
#include <stdlib.h>
typedef int (*fn_t)(int);
static void empties(int mask, const char *lib)
{
	if (mask & 1) { void *s = dlopen(NULL, RTLD_NOW); fprintf(stderr, "C10OP null %%d\n", s != NULL); }
	if (mask & 2) { void *s = dlopen("/nonexistent/c10-no-such-lib.so", RTLD_NOW); fprintf(stderr, "C10OP fail %%d\n", s != NULL); }
	if (mask & 4) { void *s = dlopen(lib, RTLD_NOW | RTLD_NOLOAD); fprintf(stderr, "C10OP noload %%d\n", s != NULL); }
}
static int use(const char *lib, const char *sym, int arg)
{
	Dl_info di; void *h; fn_t f; int r;
	h = dlopen(lib, RTLD_NOW | RTLD_LOCAL);
	if (!h) { fprintf(stderr, "dlopen: %%s\n", dlerror()); exit(2); }
	f = (fn_t)dlsym(h, sym);
	if (!f) exit(2);
	r = f(arg);
	if (dladdr((void *)f, &di)) fprintf(stderr, "C10LOAD %%s %%lx %%lx\n", sym, (unsigned long)di.dli_fbase, (unsigned long)f);
	dlclose(h);
	return r;
}
int main(int argc, char **argv)
{
	int r = 0;
	empties(%(m0)d, argv[2]);
	r += use(argv[1], "c10u_xfunc_in_first", 1);
	empties(%(m1)d, argv[1]);
	r += use(argv[2], "c10u_yfunc_in_other", 2);
	empties(%(m2)d, argv[1]);
	%(third)s
	return r == 12345;
}
"""

U_EVALS = [
    ("vname", "bad_indices (fun pr => match pr with (tid, t, a, ans) => ok_resolve_name ugs utl tid t a ans end) uprobes 0"),
    ("vstamp", "if ok_stamp_window uwin then [] else [0%nat]"),
    ("vorder", "if ok_load_order uloads (map (fun pr => match pr with (tid, t, a, ans) => (t, a) end) uprobes) then [] else [0%nat]"),
    ("mismatch", "let lk := open_data dem_plain udir in bad_indices (fun pr => match pr with (tid, t, a, ans) => "
                 "match resolve lk tid t a, ans with Some s, Some nm => str_eqb (s_name s) nm | None, None => true | _, _ => false end end) uprobes 0"),
]


def part_reload(ctx, objdir):
    rng = ctx.rng
    uft = os.path.join(objdir, "uftrace")
    root = os.path.join(ctx.scratch, "reload")
    os.makedirs(root, exist_ok=True)
    variants = [("u0", 1, 0, 0, False)] + [("u%d" % (k + 1), rng.randrange(8), rng.randrange(8), rng.randrange(8), rng.random() < 0.5)
                                           for k in range(ctx.n(1, 5))]
    for tag, m0, m1, m2, third in variants:
        w = os.path.join(root, tag)
        os.makedirs(w)
        open(os.path.join(w, "first.c"), "w").write(U_LIB_C % ("xfunc_in_first", 10))
        open(os.path.join(w, "other.c"), "w").write(U_LIB_C % ("yfunc_in_other", 20))
        open(os.path.join(w, "main.c"), "w").write(U_MAIN_C % {"m0": m0, "m1": m1, "m2": m2,
                                                                "third": 'r += use(argv[1], "c10u_xfunc_in_first", 3);' if third else ""})
        sh(["gcc", "-pg", "-O0", "-fPIC", "-shared", "-o", "libc10first.so", "first.c"], cwd=w, check=True)
        sh(["gcc", "-pg", "-O0", "-fPIC", "-shared", "-o", "libc10other.so", "other.c"], cwd=w, check=True)
        sh(["gcc", "-pg", "-O0", "-o", "prog", "main.c", "-ldl"], cwd=w, check=True)
        d = os.path.join(w, "data")
        libs = [os.path.join(w, "libc10first.so"), os.path.join(w, "libc10other.so")]
        rc, out, err = sh(["timeout", "40", uft, "record", "--no-pager", "--no-event", "--libmcount-path=" + objdir, "-d", d,
                           "./prog"] + libs, timeout=60, cwd=w)
        if rc == 124 or not os.path.exists(os.path.join(d, "task.txt")):
            ctx.broken("reload(%s): uftrace record failed (rc=%d): %s" % (tag, rc, (out + err)[-300:]))
            continue
        loads = [(l.split()[1], int(l.split()[2], 16), int(l.split()[3], 16)) for l in (out + err).splitlines() if l.startswith("C10LOAD ")]
        rc, rout, rerr = datadir.uftrace(objdir, "replay", d, ["-f", "tid,addr,time,module", "--demangle=no"])
        recs = parse_replay_fields(rout)
        events = parse_task_txt(os.path.join(d, "task.txt"))
        tabs = {"c10u_xfunc_in_first": [(a, sz, "T", nm) for a, sz, nm in nm_funcs(libs[0])],
                "c10u_yfunc_in_other": [(a, sz, "T", nm) for a, sz, nm in nm_funcs(libs[1])]}
        # ground truth: the k-th load (program order) serves the k-th call; its library is mapped from just after the
        # previous call's record on
        def in_lib_fn(addr):
            return any(base + a <= addr < base + a + sz for sym, base, fa in loads for a, sz, _, nm in tabs[sym] if nm == sym)
        call_recs = [(t, addr) for tid, addr, t, mod, nm in recs if in_lib_fn(addr)]
        dl_calls = [t for tid, addr, t, mod, nm in recs if nm == "dlopen" or (nm.startswith("<") and False)]
        if len(call_recs) != len(loads):
            ctx.broken("reload(%s): %d calls into the libraries recorded, %d expected" % (tag, len(call_recs), len(loads)), rout[-1500:])
            continue
        gdl, prev_t = [], 0
        for (sym, base, fa), (t, addr) in zip(loads, call_recs):
            gdl.append((prev_t, base, tabs[sym]))
            prev_t = t + 1
        dlops = [e for e in events if e[0] == "DLOP"]
        # the dlopen() record that precedes each library call (PLT entry of the loading call)
        windows, problems = [], []
        for k, (sym, base, fa) in enumerate(loads):
            t_call = call_recs[k][0]
            prior = [t for t in dl_calls if t < t_call]
            libname = os.path.basename(libs[0] if "first" in sym else libs[1])
            cand = [e for e in dlops if os.path.basename(e[4]) == libname and e[3] == base and e[2] <= t_call]
            if not prior or not cand:
                problems.append("no DLOP entry at or before the call into %s (load %d)" % (libname, k))
                continue
            windows.append((max(prior), max(c[2] for c in cand), t_call))
        prog_tab = [(a, sz, "T", nm) for a, sz, nm in nm_funcs(os.path.join(w, "prog"))]
        pbase = 0
        for l in (out + err).splitlines():
            pass
        probes = [(tid, t, addr, None if (nm.startswith("<") and nm.endswith(">")) else nm) for tid, addr, t, mod, nm in recs]
        tid0 = recs[0][0]
        maps, files = {}, {}
        for e in events:
            if e[0] == "SESS":
                maps[e[3]] = open(os.path.join(d, "sid-%s.map" % e[3]), "rb").read()
        for n in ("prog", "libc10first.so", "libc10other.so"):
            fn = os.path.join(d, n + ".sym")
            if os.path.exists(fn):
                files[n + ".sym"] = open(fn, "rb").read()
        ext = {os.path.basename(libs[0]): max(a + sz for a, sz, _, _ in tabs["c10u_xfunc_in_first"]),
               os.path.basename(libs[1]): max(a + sz for a, sz, _, _ in tabs["c10u_yfunc_in_other"])}
        defs = "Definition ugs : list gt_session := [mkGt [] [%s]].\n" % "; ".join("(%d, %d, %s)" % (t, b, ctab(tb)) for t, b, tb in gdl)
        defs += "Definition utl : list (Z * list (Z * nat)) := [(%d, [(0, 0%%nat)])].\n" % tid0
        defs += "Definition uprobes : list (Z * Z * Z * option str) := [%s].\n" % "; ".join(
            "(%d, %d, %d, %s)" % (p[0], p[1], p[2], copt(p[3], cstr)) for p in probes)
        defs += "Definition uwin : list (Z * Z * Z) := [%s].\n" % "; ".join("(%d, %d, %d)" % x for x in windows)
        # ordering invariant only for the library that owns the record (ground truth), i.e. the load that serves the call
        defs += "Definition uloads : list (Z * Z * Z) := [].\n"
        defs += "Definition udir : datadir := mkDir [%s] [%s] [%s] false.\n" % (
            "; ".join(cevent(e) for e in events),
            "; ".join("(%s, %s)" % (cstr(k), cstr(v)) for k, v in maps.items()),
            "; ".join("(%s, %s)" % (cstr(k), cstr(v)) for k, v in files.items()))
        res = coq.run_cases(ctx, "cases_u_" + tag, PRE, defs, U_EVALS, timeout=600)
        same = len(set(b for _, b, _ in loads)) < len(loads)
        ctx.case(key=("U", tag, m0, m1, m2, third), size=len(recs),
                 tags=["U:unload+reload", "U:same-range" if same else "U:different-range", "U:loads=%d" % len(loads)]
                 + (["U:dlopen(NULL)-first"] if m0 & 1 else []) + (["U:failed-dlopen"] if (m0 | m1 | m2) & 2 else [])
                 + (["U:RTLD_NOLOAD"] if (m0 | m1 | m2) & 4 else []) + (["U:dlopen(NULL)-between"] if m1 & 1 else []),
                 sample={"part": "U", "loads": [[s_, "%x" % b] for s_, b, _ in loads], "dlop": [[e[2], "%x" % e[3], os.path.basename(e[4])] for e in dlops]}
                 if tag == "u0" else None)
        if res is None:
            continue
        r = {k: coq.parse_nat_list(v) for k, v in res.items()}
        raw = [["%x" % p[2], p[1]] for p in probes if p[3] is None]
        rep = {"part": "U", "masks": [m0, m1, m2], "third": third, "loads": [[s_, "%x" % b, "%x" % fa] for s_, b, fa in loads],
               "dlop": [[e[2], "%x" % e[3], e[4]] for e in dlops], "windows(dlopen record, DLOP stamp, first call)": windows,
               "source": open(os.path.join(w, "main.c")).read(), "replay": rout[-2500:]}
        if r["vname"] or r["vstamp"] or raw or problems:
            what = list(problems)
            if r["vname"]:
                what.append("calls shown under a wrong function: %s" % [[probes[i][3], "%x" % probes[i][2]] for i in r["vname"][:4]])
            if r["vstamp"]:
                what.append("a DLOP time stamp lies outside [record of its dlopen() call, first call into the library]")
            if raw:
                what.append("raw addresses %s" % raw[:4])
            ctx.violation("real recording with unload/reload over one address range: " + "; ".join(what), rep, True)
        elif r["mismatch"]:
            ctx.violation("model of the analysis side and `uftrace replay` disagree on an unload/reload recording (%d records)" % len(r["mismatch"]),
                          dict(rep, first=list(probes[r["mismatch"][0]])), False)


# ---------------------------------------------------------------- P: PLT entries of real ELF files
# Executables built -no-pie / -pie, with and without address-taken library functions (canonical PLT
# entries: st_value != 0 in an undefined dynsym), with and without .plt.sec.  Ground truth: objdump's
# name@plt labels and readelf's program/section headers.  Judged: the table load_elf_dynsymtab builds
# (ADJ_OFFSET as record/analysis use it, and the run-time form), the module table record writes and
# the reloaded .sym file, and the names replay shows for calls through every PLT slot.
P_POOL = [("strcmp", 'strcmp(argv[0], "b")'), ("strlen", "strlen(argv[0])"), ("atoi", 'atoi("3")'), ("getpid", "getpid()"),
          ("puts", 'puts("x")'), ("toupper", "toupper('a')"), ("strchr", "(long)strchr(argv[0], 0)"), ("abs", "abs(argc)"),
          ("labs", "labs(argc)"), ("atol", 'atol("7")'), ("getppid", "getppid()"), ("tolower", "tolower('A')")]
P_SRC = r"""
#include <stdio.h>
#include <stdlib.h>
#include <string.h>
#include <unistd.h>
#include <ctype.h>
volatile long sink;
int c10p_user(int x) { return x + 1; }
int main(int argc, char **argv)
{
%s
	sink += c10p_user(argc);
	return 0;
}
"""


def p_build(w, name, funcs, taken, pie, ibt):
    body = []
    for f, call in funcs:
        if f in taken:
            body.append("\t{ volatile void *p = (void *)%s; sink += (p != 0); }" % f)
    for f, call in funcs:
        body.append("\tsink += %s;" % call)
    open(os.path.join(w, name + ".c"), "w").write(P_SRC % "\n".join(body))
    fl = ["-pg", "-O0", "-fno-builtin"] + (["-fPIE", "-pie"] if pie else ["-fno-pie", "-no-pie"])
    fl += ["-fcf-protection=full"] if ibt else ["-fcf-protection=none"]
    sh(["gcc"] + fl + ["-o", name, name + ".c"], cwd=w, check=True)
    return os.path.join(w, name)


def p_elf_facts(path):
    """(vaddr0, plt, pltsec|None, rels[(name, value, shndx)], truth[(name, addr)], (plt_lo, plt_hi))"""
    import re
    _, out, _ = sh(["readelf", "-lW", path], check=True)
    vaddr0 = int([l for l in out.splitlines() if l.strip().startswith("LOAD")][0].split()[2], 16)
    _, out, _ = sh(["readelf", "-SW", path], check=True)
    secs = {}
    for l in out.splitlines():
        m = re.search(r"\]\s+(\.\S+)\s+\S+\s+([0-9a-f]{16})\s+[0-9a-f]+\s+([0-9a-f]+)", l)
        if m:
            secs[m.group(1)] = (int(m.group(2), 16), int(m.group(3), 16))
    _, out, _ = sh(["readelf", "--dyn-syms", "-W", path], check=True)
    dyn = {}
    for l in out.splitlines():
        k = l.split()
        if len(k) >= 7 and k[0].endswith(":") and k[0][:-1].isdigit():
            nm = k[7].split("@")[0] if len(k) > 7 else ""
            dyn[int(k[0][:-1])] = (nm, int(k[1], 16), 0 if k[6] == "UND" else (int(k[6]) if k[6].isdigit() else 0xfff1))
    _, out, _ = sh(["readelf", "-rW", path], check=True)
    rels, on = [], False
    for l in out.splitlines():
        if l.startswith("Relocation section"):
            on = "'.rela.plt'" in l
            continue
        k = l.split()
        if on and len(k) >= 3 and len(k[0]) == 16 and k[0] != "Offset":
            idx = int(k[1], 16) >> 32
            rels.append(dyn.get(idx, ("", 0, 0)) if idx else ("", 0, 0))
    _, out, _ = sh(["objdump", "-d", "-j", ".plt", "-j", ".plt.sec", "--no-show-raw-insn", path], check=True)
    truth, sec = {}, None
    for l in out.splitlines():
        if l.startswith("Disassembly of section"):
            sec = l.split()[-1].rstrip(":")
        m = re.match(r"^([0-9a-f]+) <([^@>+]+)@plt>:", l)
        if m and (sec == ".plt.sec" or ".plt.sec" not in secs):
            truth[m.group(2)] = int(m.group(1), 16)
    lo = min(a for n, (a, sz) in secs.items() if n in (".plt", ".plt.sec"))
    hi = max(a + sz for n, (a, sz) in secs.items() if n in (".plt", ".plt.sec"))
    return {"vaddr0": vaddr0, "plt": secs[".plt"][0], "pltsec": secs[".plt.sec"][0] if ".plt.sec" in secs else None,
            "rels": rels, "truth": sorted(truth.items(), key=lambda x: x[1]), "range": (lo, hi)}


def celfplt(f):
    return "mkElfPlt %d %d %s [%s]" % (f["vaddr0"], f["plt"], copt(f["pltsec"]),
                                      "; ".join("mkRel %s %d %d" % (cstr(n), v, sx) for n, v, sx in f["rels"]))


def ctruth(f):
    return "[" + "; ".join("(%s, %d)" % (cstr(n), a) for n, a in f["truth"]) + "]"


def btab(tab):
    return [(a, sz, t, n) for a, sz, t, n in tab]


P_EVALS = [
    # model of load_elf_dynsymtab vs the implementation: ADJ_OFFSET form and run-time form
    ("madj", "bad_indices (fun c => match c with (e, tr, base, tadj, trun, tmod, tre) => tab_eqb (load_elf_dynsymtab true 0 e) tadj end) pc 0"),
    ("mrun", "bad_indices (fun c => match c with (e, tr, base, tadj, trun, tmod, tre) => tab_eqb (load_elf_dynsymtab false base e) trun end) pc 0"),
    # property: every PLT entry at (real address - module base) in the loaded table, in the module table that
    # record writes and in the reloaded .sym file
    ("vadj", "bad_indices (fun c => match c with (e, tr, base, tadj, trun, tmod, tre) => ok_plt_table (ep_vaddr0 e) tr tadj end) pc 0"),
    ("vrun", "bad_indices (fun c => match c with (e, tr, base, tadj, trun, tmod, tre) => ok_plt_table (- base) tr trun end) pc 0"),
    ("vmod", "bad_indices (fun c => match c with (e, tr, base, tadj, trun, tmod, tre) => ok_plt_table (ep_vaddr0 e) tr tmod end) pc 0"),
    ("vre", "bad_indices (fun c => match c with (e, tr, base, tadj, trun, tmod, tre) => ok_plt_table (ep_vaddr0 e) tr tre && tab_eqb tmod tre end) pc 0"),
]


def part_plt(ctx, h, objdir):
    rng = ctx.rng
    w = os.path.join(ctx.scratch, "plt")
    os.makedirs(w, exist_ok=True)
    uft = os.path.join(objdir, "uftrace")
    variants = [("np_canon", False, 1, False), ("np_plain", False, 0, False), ("pie_taken", True, 1, False), ("np_canon_ibt", False, 2, True)]
    for k in range(ctx.n(2, 14)):
        variants.append(("r%d" % k, rng.random() < 0.3, rng.choice([0, 1, 1, 2, 3]), rng.random() < 0.3))
    cases, recs_todo = [], []
    for name, pie, ntaken, ibt in variants:
        funcs = rng.sample(P_POOL, rng.randrange(4, 8))
        taken = set(f for f, _ in rng.sample(funcs, min(ntaken, len(funcs))))
        exe = p_build(w, name, funcs, taken, pie, ibt)
        f = p_elf_facts(exe)
        base = 0 if not pie else rng.choice([0x555555554000, 0x5555deadb000])
        symf = os.path.join(w, name + ".sym")
        if os.path.exists(symf):
            os.unlink(symf)
        out = h.run(["ELFDYN %s 1 0" % exe, "ELFDYN %s 0 %d" % (exe, base), "ELFMOD %s" % exe,
                     "SAVESYM %s %s -" % (symf, hx(exe)), "LOADSYM %s" % symf])
        tadj, out = parse_tab(out)
        trun, out = parse_tab(out)
        tmod, out = parse_tab(out)
        tre, out = parse_tab(out[1:])
        cases.append((name, f, base, tadj, trun, tmod, tre, sorted(taken), pie, ibt))
        canon = [n for n, v, sx in f["rels"] if v and sx == 0]
        pos = [i for i, (n, v, sx) in enumerate(f["rels"]) if v and sx == 0]
        tags = ["P:pie" if pie else "P:non-pie", "P:plt.sec" if f["pltsec"] is not None else "P:plt",
                "P:canonical=%d" % min(len(canon), 3)]
        if pos:
            tags.append("P:canonical-first" if pos[0] == 0 else ("P:canonical-last" if pos[-1] == len(f["rels"]) - 1 else "P:canonical-middle"))
        ctx.case(key=("P", name, tuple(f["rels"]), f["vaddr0"], base), nontrivial=len(f["rels"]) >= 2, tags=tags, size=len(f["rels"]),
                 sample={"part": "P", "exe": name, "vaddr0": "%x" % f["vaddr0"], "canonical": canon,
                         "rela.plt": [r[0] for r in f["rels"]], "table": [("%x" % a, n.decode()) for a, _, _, n in tadj][:6]}
                 if name == "np_canon" else None)
        if name in ("np_canon", "pie_taken", "np_canon_ibt") or ctx.thorough():
            recs_todo.append((name, exe, f, funcs, pie))
    defs = "Definition pc : list (elfplt * list (str * Z) * Z * symtab * symtab * symtab * symtab) := [\n%s\n].\n" % ";\n".join(
        "(%s, %s, %d, %s, %s, %s, %s)" % (celfplt(c[1]), ctruth(c[1]), c[2], ctab(c[3]), ctab(c[4]), ctab(c[5]), ctab(c[6])) for c in cases)
    res = coq.run_cases(ctx, "cases_p", PRE, defs, P_EVALS)
    if res is not None:
        r = {k: coq.parse_nat_list(v) for k, v in res.items()}
        bad = sorted(set(r["vadj"] + r["vrun"] + r["vmod"] + r["vre"]))
        for i in bad[:2]:
            c = cases[i]
            where = [k for k in ("vadj", "vrun", "vmod", "vre") if i in r[k]]
            ctx.violation("PLT symbols of an ELF file are not at (PLT entry address - module base): "
                          + ", ".join({"vadj": "table loaded with ADJ_OFFSET", "vrun": "run-time table", "vmod": "module table written by record",
                                       "vre": "reloaded .sym file"}[k] for k in where),
                          p_replay_obj(c), True)
        if (r["madj"] or r["mrun"]) and not bad:
            c = cases[(r["madj"] or r["mrun"])[0]]
            ctx.violation("model and utils/symbol.c load_elf_dynsymtab disagree (%d files)" % len(set(r["madj"] + r["mrun"])),
                          p_replay_obj(c), False)
    plt_noplt_case(ctx, h, objdir, w)
    extra = os.path.join(w, "libc10t.so")
    open(os.path.join(w, "t.cc"), "w").write(R_B_CC % {"nb": 2})
    sh(["g++", "-pg", "-O0", "-fPIC", "-shared", "-o", extra, "t.cc", "-ldl"], cwd=w, check=True)
    label_files = part_labels(ctx, h, objdir, w)
    part_elftables(ctx, h, objdir, [os.path.join(w, c[0]) for c in cases[:ctx.n(3, 30)]] + [extra, os.path.join(w, "noplt"), os.path.join(w, "noplt_pie")]
                   + label_files + part_far(ctx, h, objdir, w))
    # recordings: every call through a PLT slot is shown under the slot's name
    for name, exe, f, funcs, pie in recs_todo:
        d = os.path.join(w, "data-" + name)
        rc, out, err = sh(["timeout", "40", uft, "record", "--no-pager", "--no-event", "--libmcount-path=" + objdir, "-d", d, exe],
                          timeout=60, cwd=w)
        if rc == 124 or not os.path.exists(os.path.join(d, "task.txt")):
            ctx.broken("plt(%s): uftrace record failed (rc=%d): %s" % (name, rc, (out + err)[-300:]))
            continue
        rc, rout, rerr = datadir.uftrace(objdir, "replay", d, ["-f", "tid,addr,time,module", "--demangle=no"])
        recs = parse_replay_fields(rout)
        base = 0
        if pie:
            for fn in os.listdir(d):
                if fn.endswith(".map"):
                    for l in open(os.path.join(d, fn)):
                        if l.rstrip().split()[-1] == exe or (len(l.split()) > 5 and l.split()[5] == exe):
                            base = int(l.split("-")[0], 16) - f["vaddr0"]
                            break
        lo, hi = f["range"]
        by_addr = {a: n for n, a in f["truth"]}
        wrong, seen = [], set()
        for tid, addr, t, mod, nm in recs:
            if lo <= addr - base < hi:
                want = by_addr.get(addr - base)
                seen.add(want)
                if want is not None and nm != want:
                    wrong.append(["%x" % addr, nm, want])
            elif nm.startswith("<") and nm.endswith(">"):
                wrong.append(["%x" % addr, nm, "(a name)"])
        called = set(fn_ for fn_, _ in funcs) & set(dict(f["truth"]))      # a PIE reaches address-taken functions through .plt.got
        if not called <= seen:
            ctx.broken("plt(%s): no record through the PLT slots of %s" % (name, sorted(called - seen)), rout[-1200:])
        symtab_rec, _ = parse_tab(h.run(["LOADSYM %s" % os.path.join(d, name + ".sym")]))
        plt_bad = [("%x" % a, n.decode()) for a, sz, t, n in symtab_rec
                   if t == "P" and n.decode() in dict(f["truth"]) and a != dict(f["truth"])[n.decode()] - f["vaddr0"]]
        tmod_ = [c[5] for c in cases if c[0] == name][0]
        if symtab_rec != tmod_:
            diff = [x for x in symtab_rec if x not in tmod_][:5] + [x for x in tmod_ if x not in symtab_rec][:5]
            ctx.violation("the symbol file written by record does not reload to the table the loader builds from the ELF file",
                          {"part": "P", "exe": name, "pie": pie, "differing_entries": [["%x" % a, sz, t, n.decode("latin1")] for a, sz, t, n in diff]},
                          True)
        ctx.case(key=("P", "record", name), tags=["P:record+replay", "P:rec-pie" if pie else "P:rec-non-pie", "P:recorded-sym=elf-table"],
                 size=len(recs))
        if wrong or plt_bad:
            ctx.violation("calls through PLT entries are not shown under the function's name (recording of %s executable%s)"
                          % ("a PIE" if pie else "a non-PIE", "; PLT entries in the written .sym file are not module-relative" if plt_bad else ""),
                          {"part": "P", "exe": name, "pie": pie, "source": open(exe + ".c").read(), "wrong_records": wrong[:10],
                           "sym_file_plt_entries_wrong": plt_bad[:10], "objdump_plt": [[n, "%x" % a] for n, a in f["truth"]],
                           "replay": rout[-2500:]}, True)


P_NOPLT_SRC = r"""
#include <stdlib.h>
#include <string.h>
#include <unistd.h>
volatile long sink;
int c10p_user(int x) { return x + 1; }
int main(int argc, char **argv)
{ sink += atoi("3"); sink += strlen(argv[0]); sink += getpid(); sink += c10p_user(argc); return 0; }
"""


def plt_noplt_case(ctx, h, objdir, w):
    """regression case (fixed: 9d75b95): a non-PIE built with -fno-plt - calls go through the GOT (GLOB_DAT relocations),
    libmcount records them under the address of the relocation entry, arch_load_dynsymtab_noplt makes pseudo PLT symbols"""
    import re
    uft = os.path.join(objdir, "uftrace")
    open(os.path.join(w, "noplt.c"), "w").write(P_NOPLT_SRC)
    for exe, fl in (("noplt", ["-fno-pie", "-no-pie"]), ("noplt_pie", ["-fPIE", "-pie"])):
        sh(["gcc", "-pg", "-O0", "-fno-builtin", "-fno-plt"] + fl + ["-o", exe, "noplt.c"], cwd=w, check=True)
        path = os.path.join(w, exe)
        # ground truth: pseudo symbol of the i-th .rela.dyn entry = .rela.dyn address + i * 24 - first PT_LOAD address
        _, out, _ = sh(["readelf", "-lW", path], check=True)
        vaddr0 = int([l for l in out.splitlines() if l.strip().startswith("LOAD")][0].split()[2], 16)
        _, out, _ = sh(["readelf", "-SW", path], check=True)
        m = re.search(r"\]\s+\.rela\.dyn\s+\S+\s+([0-9a-f]{16})", out)
        reladyn = int(m.group(1), 16)
        _, out, _ = sh(["readelf", "-rW", path], check=True)
        truth, on, idx = {}, False, 0
        for l in out.splitlines():
            if l.startswith("Relocation section"):
                on = "'.rela.dyn'" in l
                idx = 0
                continue
            k = l.split()
            if on and len(k) >= 3 and len(k[0]) == 16 and k[0] != "Offset":
                if "GLOB_DAT" in k[2] and len(k) >= 5 and k[4].split("@")[0] in ("atoi", "strlen", "getpid"):
                    truth[k[4].split("@")[0]] = reladyn + idx * 24 - vaddr0
                idx += 1
        symf = os.path.join(w, exe + ".sym")
        if os.path.exists(symf):
            os.unlink(symf)
        out = h.run(["ELFMOD %s" % path, "SAVESYM %s %s -" % (symf, hx(path)), "LOADSYM %s" % symf])
        tmod, out = parse_tab(out)
        tre, _ = parse_tab(out[1:])
        d = os.path.join(w, "data-" + exe)
        rc, o, e = sh(["timeout", "40", uft, "record", "--no-pager", "--no-event", "--libmcount-path=" + objdir, "-d", d, "./" + exe],
                      timeout=60, cwd=w)
        if rc == 124 or not os.path.exists(os.path.join(d, "task.txt")):
            ctx.broken("plt(%s): uftrace record failed (rc=%d): %s" % (exe, rc, (o + e)[-300:]))
            continue
        rc, rout, rerr = datadir.uftrace(objdir, "replay", d, ["-f", "tid,addr,time,module", "--demangle=no"])
        names = [r[4] for r in parse_replay_fields(rout)]
        trec, _ = parse_tab(h.run(["LOADSYM %s" % os.path.join(d, exe + ".sym")]))
        defs = "Definition nt : list (str * Z) := [%s].\nDefinition ntabs : list symtab := [%s; %s; %s].\n" % (
            "; ".join("(%s, %d)" % (cstr(n), a) for n, a in sorted(truth.items())), ctab(tmod), ctab(tre), ctab(trec))
        defs += "Definition nnames : list str := [%s].\nDefinition nwant : list str := [%s].\n" % (
            "; ".join(cstr(n) for n in names), "; ".join(cstr(n) for n in ("main", "atoi", "strlen", "getpid", "c10p_user")))
        res = coq.run_cases(ctx, "cases_noplt_" + exe, PRE, defs, [
            # every pseudo PLT symbol at (relocation entry address - module base), in all three tables
            ("vtab", "bad_indices (fun tab => forallb (fun p => existsb (fun s => (s_type s =? K_ST_PLT_FUNC) && str_eqb (s_name s) (fst p) "
                     "&& (s_addr s =? snd p)) tab) nt) ntabs 0"),
            # every call of the run is shown by name
            ("vname", "bad_indices (fun n => existsb (str_eqb n) nnames) nwant 0"),
            ("vraw", "bad_indices (fun n => negb (prefix [60] n)) nnames 0"),
        ])
        ctx.case(key=("P", exe), tags=["P:no-plt-pie" if "pie" in exe else "P:no-plt-non-pie"], size=len(names))
        if res is None:
            continue
        r = {k: coq.parse_nat_list(v) for k, v in res.items()}
        if len(truth) != 3:
            ctx.broken("plt(%s): expected GLOB_DAT relocations for atoi/strlen/getpid, found %s" % (exe, sorted(truth)))
        if r["vtab"] or r["vname"] or r["vraw"]:
            which = [["module table (ELF)", "reloaded .sym", ".sym written by record"][i] for i in r["vtab"]]
            ctx.violation("non-PIE/PIE executable built with -fno-plt: " + "; ".join(
                ([("pseudo PLT symbols of GOT calls are not module-relative in: " + ", ".join(which))] if which else [])
                + (["library calls are shown as raw addresses / missing: %s" % [n for n in names if n.startswith("<")]] if (r["vname"] or r["vraw"]) else [])),
                {"part": "P", "exe": exe, "source": P_NOPLT_SRC, "flags": fl, "expected_relative": {k: "%x" % v for k, v in truth.items()},
                 "module_table_P": [["%x" % a, n.decode()] for a, sz, t, n in tmod if t == "P"],
                 "recorded_sym_P": [["%x" % a, n.decode()] for a, sz, t, n in trec if t == "P"], "replay": rout[-1500:]}, True)



def elf_syms(path):
    """(.symtab entries, .dynsym entries) in file order: (value, size, type, bind, shndx, name)"""
    _, out, _ = sh(["readelf", "-sW", path], check=True)
    T = {"NOTYPE": 0, "OBJECT": 1, "FUNC": 2, "SECTION": 3, "FILE": 4, "COMMON": 5, "TLS": 6, "IFUNC": 10}
    B = {"LOCAL": 0, "GLOBAL": 1, "WEAK": 2, "UNIQUE": 10}
    tabs, cur = {}, None
    for l in out.splitlines():
        if l.startswith("Symbol table '"):
            cur = l.split("'")[1]
            tabs[cur] = []
            continue
        k = l.split()
        if cur and len(k) >= 7 and k[0].endswith(":") and k[0][:-1].isdigit():
            size = int(k[2], 16) if k[2].startswith("0x") else int(k[2])
            ndx = 0 if k[6] == "UND" else (0xfff1 if k[6] == "ABS" else (0xfff2 if k[6] == "COM" else int(k[6])))
            name = k[7].split("@")[0] if len(k) > 7 else ""
            tabs[cur].append((int(k[1], 16), size, T.get(k[3], 99), B.get(k[4], 99), ndx, name))
    return tabs.get(".symtab", []), tabs.get(".dynsym", [])


def elf_file_facts(path):
    import re
    f = p_elf_facts(path)
    st, dyn = elf_syms(path)
    _, out, _ = sh(["readelf", "-SW", path], check=True)
    m = re.search(r"\]\s+\.rela\.dyn\s+\S+\s+([0-9a-f]{16})", out)
    reladyn = int(m.group(1), 16) if m else 0
    _, out, _ = sh(["readelf", "-rW", path], check=True)
    dynidx = {}
    gd, on, idx = [], False, 0
    for l in out.splitlines():
        if l.startswith("Relocation section"):
            on = "'.rela.dyn'" in l
            idx = 0
            continue
        k = l.split()
        if on and len(k) >= 3 and len(k[0]) == 16 and k[0] != "Offset":
            if "GLOB_DAT" in k[2]:
                si = int(k[1], 16) >> 32
                if si and si < len(dyn) and dyn[si][2] in (2, 10) and dyn[si][4] == 0:
                    gd.append((idx, dyn[si][5]))
            idx += 1
    f.update({"symtab": st, "dynsym": dyn, "reladyn": reladyn, "globdat": gd})
    return f


def cesyms(l):
    return "[" + "; ".join("mkESym %d %d %d %d %d %s" % (v, sz, t, b, x, cstr(n)) for v, sz, t, b, x, n in l) + "]"


def celffile(f):
    return "mkElf %d %s %s (%s) %d [%s]" % (f["vaddr0"], cesyms(f["symtab"]), cesyms(f["dynsym"]), celfplt(f), f["reladyn"],
                                           "; ".join("(%d, %s)" % (i, cstr(n)) for i, n in f["globdat"]))


def part_elftables(ctx, h, objdir, files):
    """the whole module table (ELF .symtab + PLT + GOT pseudo symbols, merged, renamed by .dynsym): model vs
    load_module_symtab, and the checker on the implementation's table"""
    cases = []
    for path in files:
        f = elf_file_facts(path)
        tmod, _ = parse_tab(h.run(["ELFMOD %s" % path]))
        cases.append((path, f, tmod))
        alias = len(set(v for v, sz, t, b, x, n in f["symtab"] if x and sz and t in (1, 2, 10))) < \
            len([1 for v, sz, t, b, x, n in f["symtab"] if x and sz and t in (1, 2, 10)])
        ctx.case(key=("T", os.path.basename(path), len(f["symtab"]), f["vaddr0"]), nontrivial=True, size=len(f["symtab"]),
                 tags=["T:elf-module-table", "T:aliases" if alias else "T:no-aliases", "T:pie/so" if f["vaddr0"] == 0 else "T:non-pie",
                       "T:got-pseudo-syms" if f["globdat"] else "T:no-got-syms"])
    defs = "Definition tc : list (elffile * symtab) := [\n%s\n].\n" % ";\n".join("(%s, %s)" % (celffile(f), ctab(t)) for _, f, t in cases)
    res = coq.run_cases(ctx, "cases_t", PRE, defs, [
        ("m", "bad_indices (fun c => tab_eqb (module_table (fst c)) (snd c)) tc 0"),
        ("v", "bad_indices (fun c => ok_module_table (fst c) (snd c)) tc 0")], timeout=600)
    if res is None:
        return
    m, v = coq.parse_nat_list(res["m"]), coq.parse_nat_list(res["v"])
    for i in v[:2]:
        path, f, tmod = cases[i]
        ctx.violation("the module table built from an ELF file misses a function/object symbol at (st_value - module base) or holds an "
                      "address twice", {"part": "T", "file": os.path.basename(path), "vaddr0": "%x" % f["vaddr0"],
                                        "table": [["%x" % a, sz, t, n.decode("latin1")] for a, sz, t, n in tmod][:60]}, True)
    if m and not v:
        path, f, tmod = cases[m[0]]
        ctx.violation("model module_table and load_module_symtab disagree (%d files)" % len(m),
                      {"part": "T", "file": os.path.basename(path), "impl_table": [["%x" % a, sz, t, n.decode("latin1")] for a, sz, t, n in tmod][:80]}, False)



# ELF objects whose .symtab has NOTYPE / size-0 entries at the address of a function, directly before it
# (assembler labels, region markers), and aliases before and after: the alias rule of load_symtab must compare with
# the last ACCEPTED entry only
def gen_label_source(rng, nfun):
    kinds = ["plain", "label", "glabel", "szero", "alias_after", "objlabel"]
    out = ["#include <stdio.h>", "volatile long c10l_sink;"]
    names = []
    for i in range(nfun):
        k = "label" if i == 0 else rng.choice(kinds)
        fn = "c10l_f%d" % i
        static = rng.random() < 0.5 and k != "alias_after"
        if k == "label":
            out.append('__asm__(".text\\n\\t.p2align 4\\nc10l_lbl%d:\\n");' % i)
        elif k == "glabel":
            out.append('__asm__(".text\\n\\t.p2align 4\\n\\t.globl c10l_glbl%d\\nc10l_glbl%d:\\n");' % (i, i))
        elif k == "szero":
            out.append('__asm__(".text\\n\\t.p2align 4\\n\\t.type c10l_sz%d,@function\\nc10l_sz%d:\\n");' % (i, i))
        elif k == "objlabel":
            out.append('__asm__(".text\\n\\t.p2align 4\\n\\t.type c10l_ob%d,@object\\nc10l_ob%d:\\n");' % (i, i))
        out.append("%sint %s(int x) { c10l_sink += x; return x + %d; }" % ("static " if static else "", fn, i))
        if k == "alias_after":
            out.append("int c10l_al%d(int) __attribute__((alias(\"%s\")));" % (i, fn))
        names.append((fn, k, static))
    out.append("int main(int argc, char **argv)\n{\n\tint r = 0;")
    for fn, k, static in names:
        out.append("\tr += %s(argc);" % fn)
    out.append("\treturn r == 12345;\n}")
    return "\n".join(out) + "\n", names


def part_labels(ctx, h, objdir, w):
    """returns the list of built files; records one of them and checks that every function is shown by name"""
    rng = ctx.rng
    uft = os.path.join(objdir, "uftrace")
    files = []
    for k in range(ctx.n(3, 12)):
        src, names = gen_label_source(rng, rng.randrange(3, 8))
        name = "lbl%d" % k
        open(os.path.join(w, name + ".c"), "w").write(src)
        mode = ["nonpie", "pie", "so"][k % 3]
        fl = {"nonpie": ["-fno-pie", "-no-pie"], "pie": ["-fPIE", "-pie"], "so": ["-fPIE", "-pie"]}[mode]
        sh(["gcc", "-pg", "-O0", "-fno-toplevel-reorder"] + fl + ["-o", name, name + ".c"], cwd=w, check=True)
        path = os.path.join(w, name)
        files.append(path)
        kinds = sorted(set(kk for _, kk, _ in names))
        ctx.case(key=("T", "labels", src), tags=["T:label-before-function"] + ["T:" + kk for kk in kinds], size=len(names))
        if k == 0 or ctx.thorough():
            d = os.path.join(w, "data-" + name)
            rc, out, err = sh(["timeout", "40", uft, "record", "--no-pager", "--no-event", "--libmcount-path=" + objdir, "-d", d, "./" + name],
                              timeout=60, cwd=w)
            if rc == 124 or not os.path.exists(os.path.join(d, "task.txt")):
                ctx.broken("labels(%s): uftrace record failed (rc=%d): %s" % (name, rc, (out + err)[-300:]))
                continue
            rc, rout, rerr = datadir.uftrace(objdir, "replay", d, ["-f", "tid,addr,time,module", "--demangle=no"])
            shown = [r[4] for r in parse_replay_fields(rout)]
            want = [fn for fn, kk, st in names if kk != "alias_after"] + ["main"]
            raw = [n for n in shown if n.startswith("<")]
            missing = [fn for fn in want if fn not in shown]
            ctx.case(key=("T", "labels-record", name), tags=["T:label-recording"], size=len(shown))
            if raw or missing:
                ctx.violation("a function that follows a label / size-0 symbol of the same address is not shown by name "
                              "(recording of a program with assembler labels)",
                              {"part": "T", "exe": name, "source": src, "raw": raw, "missing": missing, "replay": rout[-1500:]}, True)
    return files



# a non-PIE executable that exports its functions (-rdynamic) and spans more than 4 MiB: one function sits at the
# module-relative offset that equals the ABSOLUTE address of an exported one (update_symtab_using_dynsym must look the
# dynamic symbols up at st_value - first PT_LOAD address)
F_SRC = r"""
#include <stdio.h>
volatile long c10f_sink;
#define NOINLINE __attribute__((noinline))
NOINLINE int c10f_near_one(int x) { c10f_sink += x; return x + 1; }
NOINLINE int c10f_near_two(int x) { return c10f_near_one(x) * 2; }
%(extra)s
__attribute__((noinline, section(".fartext"))) int c10f_far_victim(int x)
{
	asm volatile(".skip %(skip)s, 0x90");
	return x - 1;
}
int main(void)
{
	int r = c10f_near_two(1);
	r += c10f_far_victim(r);
	r += c10f_near_one(r);
	%(calls)s
	return r == 12345;
}
"""


def part_far(ctx, h, objdir, w):
    rng = ctx.rng
    uft = os.path.join(objdir, "uftrace")
    files = []
    for k in range(ctx.n(2, 6)):
        pie = (k % 2 == 1)
        nextra = rng.randrange(0, 4)
        extra = "\n".join("NOINLINE int c10f_more%d(int x) { c10f_sink += x; return x ^ %d; }" % (i, i) for i in range(nextra))
        calls = " ".join("r += c10f_more%d(r);" % i for i in range(nextra))
        name = "far%d" % k
        open(os.path.join(w, name + ".c"), "w").write(F_SRC % {"extra": extra, "calls": calls, "skip": rng.choice(["0x3000", "0x2000", "0x5000"])})
        start = rng.choice(["0x801000", "0x800000"])
        fl = ["-fPIE", "-pie"] if pie else ["-fno-pie", "-no-pie"]
        sh(["gcc", "-pg", "-O0", "-rdynamic", "-Wl,--section-start=.fartext=" + start] + fl + ["-o", name, name + ".c"], cwd=w, check=True)
        path = os.path.join(w, name)
        files.append(path)
        ctx.case(key=("T", "far", name, pie, start, nextra), tags=["T:far-section(>4MiB)", "T:rdynamic", "T:far-pie" if pie else "T:far-non-pie"], size=4 + nextra)
        d = os.path.join(w, "data-" + name)
        rc, out, err = sh(["timeout", "40", uft, "record", "--no-pager", "--no-event", "--libmcount-path=" + objdir, "-d", d, "./" + name],
                          timeout=60, cwd=w)
        if rc == 124 or not os.path.exists(os.path.join(d, "task.txt")):
            ctx.broken("far(%s): uftrace record failed (rc=%d): %s" % (name, rc, (out + err)[-300:]))
            continue
        rc, rout, rerr = datadir.uftrace(objdir, "replay", d, ["-f", "tid,addr,time,module", "--demangle=no"])
        recs = parse_replay_fields(rout)
        truth = nm_funcs(path)
        base = 0
        if pie:
            for fn in os.listdir(d):
                if fn.endswith(".map"):
                    for l in open(os.path.join(d, fn)):
                        if l.split()[-1] == path or (len(l.split()) > 5 and l.split()[5] == path):
                            base = int(l.split("-")[0], 16)
                            break
        wrong = []
        for tid, addr, t, mod, nm in recs:
            hit = [n for a, sz, n in truth if base + a <= addr < base + a + sz]
            if hit and nm != hit[0]:
                wrong.append(["%x" % addr, nm, hit[0]])
        seen = set(r[4] for r in recs)
        if "c10f_far_victim" not in [n for a, sz, n in truth] or not any(base + a <= r[1] < base + a + sz for r in recs for a, sz, n in truth if n == "c10f_far_victim"):
            ctx.broken("far(%s): no record inside c10f_far_victim" % name, rout[-1200:])
        if wrong:
            ctx.violation("a function of a large non-PIE/PIE executable with exported symbols is shown under another function's name",
                          {"part": "T", "exe": name, "pie": pie, "section_start": start, "wrong": wrong[:6], "replay": rout[-1500:]}, True)
    return files


def p_replay_obj(c):
    name, f, base, tadj, trun, tmod, tre, taken, pie, ibt = c
    j = lambda t: [["%x" % a, sz, ty, n.decode("latin1")] for a, sz, ty, n in t if ty == "P"]
    return {"part": "P", "exe": name, "pie": pie, "ibt": ibt, "address_taken": taken, "vaddr0": "%x" % f["vaddr0"],
            "rela_plt": [[n, "%x" % v, sx] for n, v, sx in f["rels"]], "objdump_plt": [[n, "%x" % a] for n, a in f["truth"]],
            "loaded_adj_offset": j(tadj), "loaded_runtime(base=%x)" % base: j(trun), "module_table": j(tmod), "reloaded_sym": j(tre)}


# ---------------------------------------------------------------- entry points
def meta(ctx):
    ctx.rule = ("one case = one table with its probe set (L), one symbol file (S), one map file (M), one data directory with "
                "its probes (D), one kernel triple (K), one real recording (E); distinct = distinct inputs; non-trivial = "
                "table/file with >= 2 entries, directory with >= 1 resolved probe, kernel triple on a boundary")
    ctx.trusted = [
        "Coq 8.16.1 kernel incl. vm_compute; no axioms (Print Assumptions: closed under the global context)",
        "translator gen/gen_kernels.py (clang JSON AST -> Gallina over Z, explicit mod 2^64) for addrfind, addrsort, "
        "is_kernel_address, get_kernel_address, guess_kernel_base; validated on every run against the C functions",
        "hand-written model coq/theories/C10/Model.v (glibc bsearch loop, find_sym/find_map/find_symtabs, .sym reader/"
        "writer, sid-*.map reader/writer, sessions as in-order list of the rb-tree, task session references, dlopen list)",
        "harnesses harness/c/c10_harness.c (#includes utils/symbol.c and utils/session.c of the current tree) and "
        "harness/c/c10_maps.c (libmcount objects, fopen of /proc/self/maps redirected) + props/c10.py",
        "demangle() is the identity on names that are not mangled (C13); generated names are of that kind",
        "model of the libmcount dlopen() wrapper (Model.v run_act): call order taken from the C text (wrap_dlopen_clock_first), "
        "the rest tied by real recordings (part R); ground truth of part R = dladdr bases logged by the program + nm -S",
    ]
    ctx.assume = [
        "symbol tables are address-sorted with pairwise disjoint ranges for the completeness direction (soundness holds for "
        "every table); addr+size does not wrap 2^64",
        "task.txt lines are those `uftrace record` writes (time-ordered per task; a task is created strictly after its "
        "creator's latest session reference; parent chain acyclic); the sscanf parsing of task.txt itself is not modelled "
        "(exercised through the real reader only)",
        "no NUL bytes / over-long tokens in .sym and .map files (robustness against malformed files is C12)",
        "the rb-tree of sessions is represented by its in-order sequence (rotations preserve it)",
    ]


def setup(ctx):
    coq.prove(ctx, "C10")
    objdir = build.get_build("plain", ctx.log)
    return objdir, H(ctx, objdir)


def run(ctx):
    meta(ctx)
    objdir, h = setup(ctx)
    for name, f in (("K kernels", lambda: part_kernels(ctx, h)), ("L lookups", lambda: part_lookup(ctx, h)),
                    ("S symbol files", lambda: part_symfiles(ctx, h)), ("M map files", lambda: part_maps(ctx, h, objdir)),
                    ("D data directories", lambda: part_datadirs(ctx, h)), ("E end to end", lambda: (part_e2e(ctx, objdir), part_rawdisplay(ctx, objdir))),
                    ("R real recordings with static initialisers", lambda: part_recordings(ctx, objdir)),
                    ("X real recordings across fork and exec", lambda: part_forkexec(ctx, objdir)),
                    ("U unload and reload over one address range", lambda: part_reload(ctx, objdir)),
                    ("P PLT entries of ELF files", lambda: part_plt(ctx, h, objdir))):
        n0 = ctx.evaluations
        f()
        ctx.log("part %s: %d cases" % (name, ctx.evaluations - n0))


def replay(ctx, obj):
    meta(ctx)
    objdir, h = setup(ctx)
    part = obj.get("part")
    if part == "L":
        tab = [tuple(x) for x in obj["table"]]
        ps = obj["probes"]
        rs = run_lookup(h, tab, ps)
        res = coq.run_cases(ctx, "replay_l", PRE, lookup_defs([(tab, ps, rs)]), LK_EVALS)
        ctx.case(key="replay", sample={"impl": rs})
        ctx.log("replayed lookup: impl =", rs, "coq =", res)
        if res and coq.parse_nat_list(res["violations"]):
            ctx.violation("replayed lookup still violates the property", {"part": "L", "table": tab, "probes": ps, "impl": rs}, True)
        elif res and coq.parse_nat_list(res["mismatch"]):
            ctx.violation("replayed lookup: model and implementation still disagree", {"part": "L", "table": tab, "probes": ps, "impl": rs}, False)
    elif part == "K" and "addr" in obj:
        out = h.run(["ADDRFIND %d %d %d" % (obj["addr"], obj["sym_addr"], obj["sym_size"])])
        ctx.case(key="replay", sample={"impl": out})
        ctx.log("replayed addrfind:", out)
        r = int(out[0].split()[1])
        a, sa, sz = obj["addr"], obj["sym_addr"], obj["sym_size"]
        if sa + sz < W64 and (r == 0) != (sa <= a < sa + sz):
            ctx.violation("addrfind misplaces an address relative to [addr, addr+size)", dict(obj, impl=r), True)
    else:
        if part not in ("D", "S"):
            ctx.log("replay of part %r: re-running that part with the recorded seed" % part)
        ctx.rng.seed(obj.get("seed", ctx.seed))
        if part == "D" and "events" in obj:
            replay_datadir(ctx, h, obj)
        elif part == "S" and ("table" in obj or "file" in obj):
            replay_symfile(ctx, h, obj)
        elif part == "M":
            part_maps(ctx, h, objdir)
        elif part == "E":
            part_e2e(ctx, objdir)
        elif part == "R":
            part_recordings(ctx, objdir)
        elif part == "P":
            part_plt(ctx, h, objdir)
        elif part == "X":
            part_forkexec(ctx, objdir)
        elif part == "U":
            part_reload(ctx, objdir)
        else:
            part_kernels(ctx, h)
