"""C18 - Scripts observe the same calls as replay.

Theorems: coq/theories/Properties_C18.v (script_run of cmds/script.c on the reader model of C06).
Tie, replay time: for the generated data directories of C06 a logging script (Python, and the
same in Lua) is run by the REAL `uftrace script -S` with and without UFTRACE_FUNCS and --tid;
its lines are compared inside Coq with the model (script_run) and judged by the executable
checker ok_script against what `uftrace replay --no-merge -f duration,tid,addr,time` of the same
tree prints for the same data and options.
Scripts defining only some callbacks (entry-only, exit-only, ...) and callbacks that raise are variants of the same tie
(model: script_run_defs; checker ok_script_d).
Tie, arguments / return value: directories whose records carry -A/-R payloads; what a Python and a Lua script receive in
ctx["args"] / ctx["retval"] is compared (ok_script_args, inside Coq) with the text replay prints for the same record.
Tie, record time: a threaded -pg program is recorded with `-S log.py`; the callbacks are judged by
ok_record_time (properly paired entry/exit per thread) and compared with replay of the recording.
"""
import os
import re
import shutil

from vf import build, coq, datadir
from vf.core import sh
from props import c06

# every line is written with one unbuffered write(2): nothing is lost or duplicated across fork()
PY_HEAD = '''%s
import os
RAISE = %s
N = [0]
def boom(ctx):
    N[0] += 1
    if N[0] - 1 in RAISE:
        return ctx["nosuchkey"]            # KeyError inside the callback
'''
PY_CB = {
    "B": '''def uftrace_begin(ctx):
    os.write(1, ("B %d\\n" % os.getpid()).encode())
    boom(ctx)
''',
    "E": '''def uftrace_entry(ctx):
    os.write(1, ("E %d %d %d %d %s\\n" % (ctx["tid"], ctx["depth"], ctx["timestamp"], ctx["address"], ctx["name"])).encode())
    boom(ctx)
''',
    "X": '''def uftrace_exit(ctx):
    os.write(1, ("X %d %d %d %d %d %s\\n" % (ctx["tid"], ctx["depth"], ctx["timestamp"], ctx["duration"], ctx["address"], ctx["name"])).encode())
    boom(ctx)
''',
    "Z": '''def uftrace_end():
    os.write(1, ("Z %d\\n" % os.getpid()).encode())
''',
}
LUA_HEAD = '''%s
RAISE = %s
N = 0
function boom() N = N + 1; if RAISE[N - 1] then error("boom") end end
'''
LUA_CB = {
    "B": 'function uftrace_begin(ctx) print("B"); boom() end\n',
    "E": 'function uftrace_entry(ctx) print(string.format("E %d %d %d %d %s", ctx["tid"], ctx["depth"], ctx["timestamp"], '
         'ctx["address"], ctx["name"])); boom() end\n',
    "X": 'function uftrace_exit(ctx) print(string.format("X %d %d %d %d %d %s", ctx["tid"], ctx["depth"], ctx["timestamp"], '
         'ctx["duration"], ctx["address"], ctx["name"])); boom() end\n',
    "Z": 'function uftrace_end() print("Z") end\n',
}


def lang_parts(lang):
    '''"py" | "lua" | "py#BEZ" (the script defines begin, entry, end only) | "py!:1,4" | "py#EX!v:0,2"
    -> (base, verbose, callbacks (0 = the first delivered one, then in order) that raise after logging, defined callbacks)'''
    verbose, raising = False, []
    if "!" in lang:
        lang, rest = lang.split("!", 1)
        flag, idx = rest.split(":", 1)
        verbose, raising = flag == "v", [int(x) for x in idx.split(",") if x]
    defs = "BEXZ"
    if "#" in lang:
        lang, defs = lang.split("#", 1)
    return lang, verbose, raising, defs


def coq_defs(lang):
    d = lang_parts(lang)[3]
    return "(mkdefs %s)" % " ".join("true" if k in d else "false" for k in "BEXZ")


def write_script(path, lang, funcs):
    base, _, raising, defs = lang_parts(lang)
    if base == "py":
        hdr = "" if funcs is None else "UFTRACE_FUNCS = [%s]" % ", ".join('"%s"' % f for f in funcs)
        open(path, "w").write(PY_HEAD % (hdr, repr(set(raising)) if raising else "set()") + "".join(PY_CB[k] for k in "BEXZ" if k in defs))
    else:
        hdr = "" if funcs is None else "UFTRACE_FUNCS = {%s}" % ", ".join('"%s"' % f for f in funcs)
        open(path, "w").write(LUA_HEAD % (hdr, "{" + ", ".join("[%d] = true" % i for i in raising) + "}")
                              + "".join(LUA_CB[k] for k in "BEXZ" if k in defs))


def parse_callbacks(out, tid_idx, name_idx, addr_idx):
    """stdout of the logging script -> list of tuples"""
    cbs = []
    for ln in out.split("\n"):
        if ln == "":
            continue
        mb = re.fullmatch(r"([BZ])(?: (\d+))?", ln)
        if mb:
            cbs.append((mb.group(1),) if mb.group(2) is None else (mb.group(1), int(mb.group(2))))
        else:
            m = re.fullmatch(r"E (-?\d+) (-?\d+) (\d+) (\d+) (\S+)", ln)
            if m:
                tid, d, t, a, n = m.groups()
                if int(d) < 0:
                    cbs.append(("?",))
                    continue
                cbs.append(("E", tid_idx(int(tid)), int(d), int(t), addr_idx(int(a)), name_idx(n)))
                continue
            m = re.fullmatch(r"X (-?\d+) (-?\d+) (\d+) (\d+) (\d+) (\S+)", ln)
            if m:
                tid, d, t, u, a, n = m.groups()
                if int(d) < 0:
                    cbs.append(("?",))
                    continue
                cbs.append(("X", tid_idx(int(tid)), int(d), int(t), int(u), addr_idx(int(a)), name_idx(n)))
                continue
            cbs.append(("?",))
    return cbs


def coq_cb(c):
    if c[0] == "B":
        return "CBegin"
    if c[0] == "Z":
        return "CEnd"
    if c[0] == "E":
        return "CEntry %d%%nat %d %d %d %d" % c[1:]
    if c[0] == "X":
        return "CExit %d%%nat %d %d %d %d %d" % c[1:]
    return "CBad"


PRE = c06.PRE + "Require Import UV.C18.Model.\n"


# ------------------------------------------------------------------ UFTRACE_FUNCS patterns
REGEX_CHARS = ".?*+-^$|()[]{}"          # utils/filter.h: an entry without any of these is compared with strcmp


class Funcs(list):
    """a UFTRACE_FUNCS list; ptype = pattern type given with --match (regex is the default)"""
    ptype = "regex"


def funcs_ptype(funcs):
    return getattr(funcs, "ptype", "regex")


def entry_matches(entry, name, ptype):
    """the oracle for script_match_filter: init_filter_pattern + match_filter_pattern (POSIX ERE search / fnmatch)"""
    import fnmatch
    if not any(ch in entry for ch in REGEX_CHARS):
        return entry == name
    if ptype == "glob":
        return fnmatch.fnmatchcase(name, entry)
    return re.search(entry, name) is not None


def matched_ids(case, funcs):
    """ids (index + 1) of the functions a UFTRACE_FUNCS list selects; [] = no list; [77777] = a list matching nothing"""
    if funcs is None:
        return []
    pt = funcs_ptype(funcs)
    ids = [c06.fid(case, i) for i, n in enumerate(case["names"]) if any(entry_matches(e, n, pt) for e in funcs)]
    return ids or [77777]


def gen_patterns(rng, names, ptype):
    """entries with regex / glob characters, built from the names so that some match and some do not"""
    ns = [n for n in names if len(n) >= 3] or list(names)
    out = []
    for _ in range(rng.choice([1, 1, 2])):
        n = rng.choice(ns)
        m = rng.choice(ns)
        if ptype == "glob":
            out.append(rng.choice([n[:2] + "*", "*" + n[-2:], "?" + n[1:], "[" + n[0] + m[0] + "]*", n[0] + "*" + n[-1],
                                   "*" + n[1:-1] + "*", n[:-1] + "?x"]))
        else:
            out.append(rng.choice(["^" + n[:2], n[-2:] + "$", n[0] + ".*" + n[-1], n + "|" + m, n[:1] + "." + n[2:],
                                   "^(" + n + "|" + m[:2] + ")$", "[" + n[0] + m[0] + "]" + n[1:3], n[:2] + "+", "^" + n[1:]]))
    return out


# ------------------------------------------------------------------ replay time
SUBSETS = ["py#BEZ", "py#BXZ", "lua#BEZ", "lua#BXZ", "py#BZ", "py#EX", "lua#EX", "py#E", "lua#X", "py#XZ", "lua#BE", "py#BEZ!:1,2"]


def gen_funcs(rng, case):
    names = case["names"]
    k = rng.randrange(1, max(2, len(names)))
    pick = rng.sample(names, min(k, len(names)))
    if rng.random() < 0.3:
        pick.append("nosuchfunction")
    others = [n for n in names if n not in pick and len(n) > 1]
    if others and rng.random() < 0.5:
        o = rng.choice(others)
        # a proper prefix / an extension of an unlisted name must NOT match (PATT_SIMPLE = strcmp)
        pick.append(o[:-1] if rng.random() < 0.5 else o + "x")
    pick = Funcs(pick)
    r = rng.random()
    if r < 0.45:
        # entries with pattern characters: regex (default) or glob (--match glob)
        pick.ptype = "glob" if r < 0.2 else "regex"
        pats = gen_patterns(rng, names, pick.ptype)
        if rng.random() < 0.5:
            del pick[:]
        pick.extend(pats)
    return pick


def closed_sel(rng, case):
    n = len(case["tasks"])
    s = set(rng.sample(range(n), rng.randrange(1, n + 1)))
    ch = True
    while ch:
        ch = False
        for i in list(s):
            p = case["tasks"][i]["parent"]
            if p is not None and p not in s:
                s.add(p)
                ch = True
    return sorted(s)


def run_script_case(ctx, objdir, case, variants):
    """variants: list of (lang, funcs or None, sel or None).  returns list of (variant, callbacks, replay_lines)"""
    d = os.path.join(ctx.scratch, "data")
    c06.write_dir(case, d)
    name_map = c06.name_ids(case)
    tid_map = {t["tid"]: i for i, t in enumerate(case["tasks"])}
    syms = c06.sym_table(case)
    addr_map = {c06.BASE + s[0]: c06.fid(case, i) for i, s in enumerate(syms)}
    addr_map.update({c06.BASE2 + s[0]: c06.fid(case, i) for i, s in enumerate(syms)})
    res = []
    replay_cache = {}
    for lang, funcs, sel in variants:
        base, verbose = lang_parts(lang)[:2]
        script = os.path.join(ctx.scratch, "log.%s" % ("py" if base == "py" else "lua"))
        write_script(script, lang, funcs)
        args = ["-S", script] + (["-v"] if verbose else [])
        if funcs is not None and funcs_ptype(funcs) == "glob":
            args.append("--match=glob")
        if sel is not None:
            args.append("--tid=" + ",".join(str(case["tasks"][i]["tid"]) for i in sel))
        rc, out, err = datadir.uftrace(objdir, "script", d, args, timeout=60)
        if rc != 0:
            ctx.violation("uftrace script failed (rc=%d): %s" % (rc, (out + err)[-300:]),
                          {"case": case, "lang": lang, "funcs": funcs, "ptype": funcs_ptype(funcs), "sel": sel}, True)
            continue
        cbs = parse_callbacks(out, lambda t: tid_map.get(t, 999), lambda n: name_map.get(n, 88888),
                              lambda a: addr_map.get(a, 99999))
        key = repr(sel)
        if key not in replay_cache:
            v = {"fold": False, "sel": sel, "fields": ["duration", "tid", "addr", "time"], "column": None, "newline": False}
            o, raw = c06.run_variant(objdir, d, case, v)
            replay_cache[key] = o[0] if o else [c06.BAD]
        res.append(((lang, funcs, sel), cbs, replay_cache[key]))
    return res


# ------------------------------------------------------------------ replay-time filter options x UFTRACE_FUNCS
def used_names(case):
    ks = sorted({r[3] for t in case["tasks"] for r in t["recs"] if r[1] != c06.LOSTREC})
    return [case["names"][k] for k in ks]


def gen_opts(rng, case):
    """a replay-time filter option set: -D / -F / -N (modelled by C18.Filter) or -t (property check only)"""
    used = used_names(case) or case["names"][:1]
    kind = rng.choice(["D", "D", "F", "F", "N", "DF", "FN", "DN", "t", "C", "H", "r", "T", "T"])
    o = {"depth": None, "F": [], "N": [], "t": None, "extra": []}
    if kind == "C":
        o["extra"] = ["-C", rng.choice(used)]
    elif kind == "H":
        o["extra"] = ["-H", rng.choice(used)]
    elif kind == "r":
        a0 = rng.choice([0, 1, 3, 10])
        o["extra"] = ["-r", "%dns~%dns" % (a0, a0 + rng.choice([1, 5, 20, 900]))]
    elif kind == "T":
        f = rng.choice(used)
        o["extra"] = rng.choice([["-T", f + "@depth=1"], ["-T", f + "@depth=2"], ["-T", f + "@trace_off"],
                                 ["--trace=off", "-T", f + "@trace_on"], ["-T", f + "@filter"], ["-T", f + "@notrace"],
                                 ["-T", f + "@time=2ns"], ["-T", f + "@hide"]])
    if "D" in kind:
        o["depth"] = rng.choice([1, 1, 2, 2, 3, 4])
    if "F" in kind:
        o["F"] = rng.sample(used, min(len(used), rng.choice([1, 1, 2])))
    if "N" in kind:
        rest = [n for n in used if n not in o["F"]] or [n for n in case["names"] if n not in o["F"]]
        if rest:
            o["N"] = [rng.choice(rest)]
    if kind == "t":
        o["t"] = rng.choice([1, 2, 3, 10, 100])
    return o


def opts_args(o):
    a = []
    if o["depth"] is not None:
        a += ["-D", str(o["depth"])]
    for n in o["F"]:
        a += ["-F", n]
    for n in o["N"]:
        a += ["-N", n]
    if o["t"] is not None:
        a += ["-t", "%dns" % o["t"]]
    return a + list(o.get("extra") or [])


def gen_funcs_for_opts(rng, case, o):
    """a UFTRACE_FUNCS list that leaves some of the functions the options care about UNLISTED (their
    exits must still undo the filter state) while listing functions that are called later"""
    used = used_names(case) or case["names"][:1]
    k = rng.randrange(1, max(2, len(used)))
    pick = rng.sample(used, min(k, len(used)))
    if o["F"] and rng.random() < 0.7:
        pick = [n for n in pick if n not in o["F"]] or pick       # the -F function itself unlisted
    if rng.random() < 0.2:
        pick.append("nosuchfunction")
    pick = Funcs(pick)
    if rng.random() < 0.3:
        pick.ptype = rng.choice(["regex", "glob"])
        pick.extend(gen_patterns(rng, case["names"], pick.ptype))
    return pick


def run_opts_case(ctx, objdir, case, variants):
    """variants: list of (lang, opts, funcs, sel); returns (variant, callbacks, replay lines with the same options)"""
    d = os.path.join(ctx.scratch, "data")
    c06.write_dir(case, d)
    name_map = c06.name_ids(case)
    tid_map = {t["tid"]: i for i, t in enumerate(case["tasks"])}
    addr_map = {c06.BASE + sy[0]: c06.fid(case, i) for i, sy in enumerate(c06.sym_table(case))}
    addr_map.update({c06.BASE2 + sy[0]: c06.fid(case, i) for i, sy in enumerate(c06.sym_table(case))})
    res = []
    for lang, o, funcs, sel in variants:
        script = os.path.join(ctx.scratch, "logo.%s" % ("py" if lang_parts(lang)[0] == "py" else "lua"))
        write_script(script, lang, funcs)
        extra = opts_args(o)
        if funcs is not None and funcs_ptype(funcs) == "glob":
            extra.append("--match=glob")
        if sel is not None:
            extra.append("--tid=" + ",".join(str(case["tasks"][i]["tid"]) for i in sel))
        rc, out, err = datadir.uftrace(objdir, "script", d, ["-S", script] + extra, timeout=60)
        if rc != 0:
            ctx.violation("uftrace script %s failed (rc=%d): %s" % (" ".join(extra), rc, (out + err)[-300:]),
                          {"case": case, "lang": lang, "opts": o, "funcs": funcs, "ptype": funcs_ptype(funcs), "sel": sel}, True)
            continue
        cbs = parse_callbacks(out, lambda t: tid_map.get(t, 999), lambda n: name_map.get(n, 88888),
                              lambda a: addr_map.get(a, 99999))
        v = {"fold": False, "sel": None, "fields": ["duration", "tid", "addr", "time"], "column": None, "newline": False}
        rc2, out2, err2 = datadir.uftrace(objdir, "replay", d, ["--no-merge", "-f", "duration,tid,addr,time"] + extra, timeout=60)
        lines = c06.parse_output(out2, v, case)[0] if rc2 == 0 else [c06.BAD]
        res.append(((lang, o, funcs, sel), cbs, lines))
    return res


def coq_fopts(o, names):
    return "(mkfopts %d [%s] [%s])" % (o["depth"] if o["depth"] is not None else 1024,
                                       "; ".join(str(names[n]) for n in o["F"]), "; ".join(str(names[n]) for n in o["N"]))


def evaluate_opts(ctx, items, name):
    defs = []
    for ci, (case, obs) in enumerate(items):
        names = c06.name_ids(case)
        vs = []
        for (lang, o, funcs, sel), cbs, lines in obs:
            fl = matched_ids(case, funcs)
            vs.append("(%s, [%s], %s, %s, [%s], [%s])" % (
                coq_fopts(o, names), "; ".join(map(str, fl)),
                "None" if sel is None else "(Some [%s])" % "; ".join("%d%%nat" % i for i in sel),
                coq.coq_bool(o["t"] is None and not o.get("extra")),
                "; ".join(coq_cb(c) for c in cbs), "; ".join(c06.coq_line(l) for l in lines)))
        defs.append("Definition c%d : ocase := ([%s], [%s], [%s])." % (
            ci, "; ".join(str(c06.fid(case, k)) for k in case["forks"]), ";\n ".join(c06.coq_task(t, case) for t in case["tasks"]),
            ";\n ".join(vs)))
    defs.append("Definition cases : list ocase := [%s]." % "; ".join("c%d" % i for i in range(len(items))))
    res = coq.run_cases(ctx, name, PRE + "Require Import UV.C18.Filter.\n", "\n".join(defs), [
        ("mismatch", "bad_indices (fun b : bool => b) (flat_map agree_ocase cases) 0"),
        ("violations", "bad_indices (fun b : bool => b) (flat_map check_ocase cases) 0"),
    ])
    if res is None:
        return None
    return {k: coq.parse_nat_list(v) for k, v in res.items()}


def verdict_opts(ctx, items, res):
    if res is None:
        return
    flat = [(ci, vi) for ci, (case, obs) in enumerate(items) for vi in range(len(obs))]
    for k in res["violations"][:3]:
        ci, vi = flat[k]
        case, obs = items[ci]
        (lang, o, funcs, sel), cbs, lines = obs[vi]
        ctx.violation("C18 violated: with the options `%s` the callbacks of a %s script (UFTRACE_FUNCS=%s) are not the listed "
                      "functions' sub-sequence of what `uftrace replay` shows with the same options"
                      % (" ".join(opts_args(o)), lang, funcs),
                      {"case": case, "lang": lang, "opts": o, "funcs": funcs, "ptype": funcs_ptype(funcs), "sel": sel, "callbacks": cbs[:200]}, True)
    if res["mismatch"] and not res["violations"]:
        ci, vi = flat[res["mismatch"][0]]
        case, obs = items[ci]
        (lang, o, funcs, sel), cbs, lines = obs[vi]
        ctx.violation("filter model (C18.Filter) and implementation disagree on %d (case, options) pairs; the property checker "
                      "accepts every explored output" % len(res["mismatch"]),
                      {"correspondence": "C18.Filter.script_opts / replay_opts vs uftrace script / replay with %s" % " ".join(opts_args(o)),
                       "case": case, "lang": lang, "opts": o, "funcs": funcs, "ptype": funcs_ptype(funcs), "sel": sel, "callbacks": cbs[:200]}, False)
    ctx.extra["disagreements_checked"] = ctx.extra.get("disagreements_checked", 0) + len(res["mismatch"])


def leak_shape_case():
    """the shape of the seeded regression, written out: unlisted functions return before listed ones"""
    E, X = c06.E, c06.X
    return {"names": ["main", "helper", "leaf", "target", "sub"], "forks": [], "max_stack": 1024, "illformed": False, "tasks": [
        {"tid": 11, "parent": None, "recs": [
            [1000, E, 0, 0], [1010, E, 1, 1], [1020, E, 2, 2], [1030, X, 2, 2], [1040, X, 1, 1],
            [1050, E, 1, 1], [1060, X, 1, 1], [1070, E, 1, 3], [1080, E, 2, 4], [1090, X, 2, 4], [1100, X, 1, 3],
            [1110, E, 1, 2], [1120, X, 1, 2], [1130, X, 0, 0]]}]}


def evaluate(ctx, items, name):
    defs = []
    for ci, (case, obs) in enumerate(items):
        names = c06.name_ids(case)
        vs = []
        for (lang, funcs, sel), cbs, lines in obs:
            fl = matched_ids(case, funcs)
            vs.append("([%s], %s, %s, [%s], [%s])" % (
                "; ".join(map(str, fl)),
                "None" if sel is None else "(Some [%s])" % "; ".join("%d%%nat" % i for i in sel), coq_defs(lang),
                "; ".join(coq_cb(c) for c in cbs), "; ".join(c06.coq_line(l) for l in lines)))
        defs.append("Definition c%d : scase := ([%s], [%s], [%s])." % (
            ci, "; ".join(str(c06.fid(case, k)) for k in case["forks"]), ";\n ".join(c06.coq_task(t, case) for t in case["tasks"]),
            ";\n ".join(vs)))
    defs.append("Definition cases : list scase := [%s]." % "; ".join("c%d" % i for i in range(len(items))))
    res = coq.run_cases(ctx, name, PRE, "\n".join(defs), [
        ("mismatch", "bad_indices (fun b : bool => b) (flat_map agree_scase cases) 0"),
        ("violations", "bad_indices (fun b : bool => b) (flat_map check_scase cases) 0"),
    ])
    if res is None:
        return None
    return {k: coq.parse_nat_list(v) for k, v in res.items()}


def verdict(ctx, items, res):
    if res is None:
        return
    flat = [(ci, vi) for ci, (case, obs) in enumerate(items) for vi in range(len(obs))]
    for k in res["violations"][:3]:
        ci, vi = flat[k]
        case, obs = items[ci]
        (lang, funcs, sel), cbs, lines = obs[vi]
        ctx.violation("C18 violated: the callbacks a %s script received differ from the calls `uftrace replay` shows for "
                      "the same data and options (UFTRACE_FUNCS=%s, --tid=%s)" % (lang, funcs, sel),
                      {"case": case, "lang": lang, "funcs": funcs, "ptype": funcs_ptype(funcs), "sel": sel, "callbacks": cbs[:200]}, True)
    if res["mismatch"] and not res["violations"]:
        ci, vi = flat[res["mismatch"][0]]
        case, obs = items[ci]
        (lang, funcs, sel), cbs, lines = obs[vi]
        ctx.violation("model and implementation of `uftrace script` disagree on %d (case, variant) pairs; the property "
                      "checker accepts every explored output" % len(res["mismatch"]),
                      {"correspondence": "C18.Model.script_run vs callbacks of a logging script", "case": case,
                       "lang": lang, "funcs": funcs, "ptype": funcs_ptype(funcs), "sel": sel, "callbacks": cbs[:200]}, False)
    ctx.extra["disagreements_checked"] = ctx.extra.get("disagreements_checked", 0) + len(res["mismatch"])


# ------------------------------------------------------------------ record time
PROG = r'''
#include <pthread.h>
#include <stdio.h>
#include <unistd.h>
#include <sys/wait.h>
int leaf(int x) { return x + 1; }
int rec(int n) { return n <= 0 ? leaf(n) : rec(n - 1) + 1; }
int mid(int x) { return leaf(x) + rec(x %% 4); }
void *worker(void *arg) { long n = (long)arg; int s = 0; for (int i = 0; i < n; i++) s += mid(i); return (void *)(long)s; }
int main(void) {
	pthread_t t[%(nthr)d];
	for (long i = 0; i < %(nthr)d; i++) pthread_create(&t[i], NULL, worker, (void *)(i + %(work)d));
	mid(7);
	for (int i = 0; i < %(nthr)d; i++) pthread_join(t[i], NULL);
	%(fork)s
	return 0;
}
'''
FORK_PART = "{ pid_t p = fork(); if (p == 0) { mid(2); return 0; } waitpid(p, NULL, 0); }"


def record_time(ctx, objdir):
    """real `uftrace record -S log.py` on a threaded program: pairing per thread + comparison with replay"""
    root = os.path.join(ctx.scratch, "rt")
    os.makedirs(root, exist_ok=True)
    rng = ctx.rng
    uft = os.path.join(objdir, "uftrace")
    base_runs = ctx.n(5, 30)
    runs = base_runs + ctx.n(4, 10)       # + regression runs: a Lua script and four busy threads (fix: interpreter lock)
    nsub = ctx.n(2, 8)                    # + scripts that define only uftrace_entry or only uftrace_exit (beside begin/end)
    terms, metas = [], []
    for k in range(runs + nsub):
        nthr = rng.choice([1, 2, 3, 4])
        work = rng.choice([1, 2, 5])
        stress = base_runs <= k < runs
        sub = None if k < runs else ["#BEZ", "#BXZ"][(k - runs) % 2]
        if stress:
            nthr, work = 4, 5
        with_fork = (k == 2) or rng.random() < 0.4 and k >= 2 and k % 2 == 0   # option-free runs only (see ropts below): the harness
        #                                                  locates the child's inherited frames by the fork() entry callback
        funcs = rng.choice([None, None, ["mid"], ["leaf", "rec"], ["worker", "main", "nosuch"]])
        if funcs and with_fork:
            funcs = funcs + ["fork"]        # the harness locates the child's inherited frames by the fork() entry
        if stress:
            funcs, with_fork = None, False
        if sub:
            with_fork = False
        src = os.path.join(root, "p%d.c" % k)
        open(src, "w").write(PROG % {"nthr": nthr, "work": work, "fork": FORK_PART if with_fork else ""})
        exe = os.path.join(root, "p%d" % k)
        sh(["gcc", "-pg", "-O0", "-pthread", "-o", exe, src], check=True)
        lang = "lua" if (k % 5 == 4 or stress) else "py"
        if sub:
            lang = "lua" if (k - runs) % 4 >= 2 else "py"
        script = os.path.join(root, "log%d.%s" % (k, lang))
        write_script(script, lang + (sub or ""), funcs)
        d = os.path.join(root, "rec%d.data" % k)
        shutil.rmtree(d, ignore_errors=True)
        # record-time options: the pairing clause must hold under every filter / trigger option set
        # (the comparison with replay is made for the option-free runs only: record-time hooks see the calls
        # before the time filter is applied)
        ropts = rng.choice([[], [], ["-t", "1us"], ["-D", "3"], ["-F", "mid"], ["-N", "rec"], ["-F", "worker", "-N", "leaf"],
                            ["--trace=off", "-T", "mid@trace_on"], ["-T", "rec@trace_off"],
                            ["-T", "mid@trace_off", "-T", "leaf@trace_on"], ["-T", "mid@depth=1"], ["-C", "leaf"],
                            ["-t", "1ms", "-W", "cpu"], ["-t", "1ms", "-T", "mid@read=proc/statm"],
                            ["-t", "1ms", "-T", "leaf@read=page-fault", "-W", "cpu"], ["-W", "cpu"]])
        if with_fork:
            ropts = []
        if k == 0:
            ropts = ["--trace=off", "-T", "mid@trace_on"]      # witness of the repaired defect 3895699
        if k == 1:
            ropts = ["-T", "rec@trace_off"]
        if k == 3:
            ropts = ["-t", "1ms", "-T", "mid@read=proc/statm", "-W", "cpu"]   # time-filtered calls with pending events
        if stress or sub:
            ropts = []
        rc, out, err = sh(["timeout", "60", uft, "record", "--no-pager", "--no-event", "--libmcount-path=" + objdir,
                           "-d", d, "-S", script] + ropts + [exe], timeout=90,
                          env={"PYTHONPATH": os.path.join(objdir, "python")})
        meta = {"threads": nthr, "work": work, "fork": with_fork, "funcs": funcs, "record_options": ropts, "lang": lang + (sub or "")}
        if rc != 0:
            ctx.violation("uftrace record -S failed (rc=%d): %s" % (rc, (out + err)[-300:]), {"record_time": meta}, True)
            continue
        tids, names = {}, {}
        cbs = parse_callbacks(out, lambda t: tids.setdefault(t, len(tids)), lambda n: names.setdefault(n, len(names) + 1),
                              lambda a: 0)
        # a forked child runs the script's begin/end as well: split per process is not possible from
        # the text alone, so only the paired-ness per tid is judged (B/Z of the child are dropped)
        inner = [c for c in cbs if c[0] in ("E", "X", "?")]
        cbs2 = [("B",)] + ([] if sub else inner) + [("Z",)]      # pairing needs both kinds; a one-kind script is compared with replay
        if sub and any(c[0] not in sub for c in inner):
            inner_bad = True
            cbs2 = [("?",)]
        # uftrace_begin exactly once (before anything else); uftrace_end exactly once per process (the forked child
        # inherits the interpreter and ends it itself), the recorded program's own end last
        bs = [c for c in cbs if c[0] == "B"]
        zs = [c for c in cbs if c[0] == "Z"]
        zpids = [c[1] for c in zs if len(c) > 1]
        ok_shape = (bool(cbs) and cbs[0][0] == "B" and cbs[-1][0] == "Z" and len(bs) == 1
                    and len(zs) == (2 if with_fork else 1) and len(set(zpids)) == len(zpids)
                    and (lang != "py" or (len(bs[0]) > 1 and cbs[-1][1:] == bs[0][1:])))
        # names the recording has per tid, from replay of the data just written
        rc2, out2, err2 = datadir.uftrace(objdir, "replay", d, ["--no-merge", "-f", "tid"], timeout=60)
        rep = {}
        for ln in out2.split("\n"):
            m = re.fullmatch(r" *\[ *(\d+)\] \| ( *)([A-Za-z_][A-Za-z_0-9.]*)\(\) \{", ln)
            if m:
                rep.setdefault(int(m.group(1)), []).append("E " + m.group(3))
            m = re.fullmatch(r" *\[ *(\d+)\] \| ( *)\} /\* ([A-Za-z_][A-Za-z_0-9.]*) \*/", ln)
            if m:
                rep.setdefault(int(m.group(1)), []).append("X " + m.group(3))
        want = {t: [n for n in ns if (funcs is None or n[2:] in funcs) and (not sub or n[0] in sub)] for t, ns in rep.items()}
        got = {}
        inv_t = {v: k2 for k2, v in tids.items()}
        inv_n = {v: k2 for k2, v in names.items()}
        for c in inner:
            if c[0] == "E":
                got.setdefault(inv_t[c[1]], []).append("E " + inv_n[c[5]])
            elif c[0] == "X":
                got.setdefault(inv_t[c[1]], []).append("X " + inv_n[c[6]])
        want = {t: ns for t, ns in want.items() if ns}
        same = (got == want) or bool(ropts)
        # a forked child continues on its parent's stack: the calls open in the parent when it
        # entered fork() are the child's inherited frames (closed by exits without entries)
        inits = {}
        stacks = {}
        fork_stack = None
        for c in inner:
            if c[0] == "E":
                stacks.setdefault(c[1], []).append((c[2], c[5]))
                if inv_n.get(c[5]) == "fork":
                    fork_stack = list(stacks[c[1]])
            elif c[0] == "X":
                if c[1] not in stacks:
                    # first callback of this tid is an exit: a forked child
                    stacks[c[1]] = list(fork_stack or [])
                    inits[c[1]] = list(reversed(stacks[c[1]]))
                if stacks[c[1]]:
                    stacks[c[1]].pop()
        terms.append("([%s], [%s])" % ("; ".join("(%d%%nat, [%s])" % (t, "; ".join("(%d, %d)" % p for p in st))
                                                 for t, st in inits.items()),
                                       "; ".join(coq_cb(c) for c in cbs2)))
        metas.append((meta, ok_shape, same, got, want))
        ctx.case(key=("record", k, repr(meta)), tags=["record-time", "threads=%d" % nthr] + (["record-defines=" + sub[1:]] if sub else []) + [ "ropts:" + (" ".join(o for o in ropts if o.startswith("-")) or "none"), "record-lang=" + lang] + (["fork"] if with_fork else [])
                 + (["UFTRACE_FUNCS"] if funcs else []), size=len(inner))
    if not terms:
        return
    defs = "Definition runs : list (list (nat * list (N * N)) * list callback) := [%s]." % ";\n".join(terms)
    res = coq.run_cases(ctx, "record_time", PRE, defs, [("bad", "bad_indices (fun x => ok_record_time (fst x) (snd x)) runs 0")])
    if res is None:
        return
    bad = coq.parse_nat_list(res["bad"])
    for i in bad[:3]:
        ctx.violation("C18 violated at record time: a thread's uftrace_entry/uftrace_exit callbacks are not properly paired",
                      {"record_time": metas[i][0]}, True)
    for i, (meta, ok_shape, same, got, want) in enumerate(metas):
        if not ok_shape:
            ctx.violation("C18 violated at record time: uftrace_begin/uftrace_end not first/last", {"record_time": meta}, True)
        elif not same and i not in bad:
            ctx.violation("C18 violated at record time: the entries a script saw differ from the calls replay shows for the "
                          "recording", {"record_time": meta, "script": {str(k): v for k, v in got.items()},
                                        "replay": {str(k): v for k, v in want.items()}}, True)


# ------------------------------------------------------------------ end to end: a real program with longjmp and exec
JMP_PROG = r'''
#include <setjmp.h>
#include <stdio.h>
#include <stdlib.h>
#include <string.h>
#include <unistd.h>
static jmp_buf env;
static volatile int sink;
__attribute__((noinline)) void leaf(int n) { sink += n; }
__attribute__((noinline)) void thrower(int n) { leaf(n); if (n > 0) longjmp(env, n); }
__attribute__((noinline)) void middle(int n) { leaf(n); thrower(n); leaf(-n); }
__attribute__((noinline)) void outer(int n) { middle(n); leaf(-n); }
__attribute__((noinline)) void after_exec(void) { leaf(7); }
__attribute__((noinline)) void do_exec(char *self) { leaf(3); execl(self, self, "child", NULL); abort(); }
int main(int argc, char *argv[])
{
	if (argc > 1 && !strcmp(argv[1], "child")) { after_exec(); return 0; }
	if (setjmp(env) == 0)
		outer(2);
	leaf(1);
	if (argc > 1 && !strcmp(argv[1], "exec"))
		do_exec(argv[0]);
	return 0;
}
'''


def e2e_jump(ctx, objdir):
    """a really recorded program: longjmp() from three frames below its setjmp(), then execl() of itself.  The callbacks of
    `uftrace script -S log.py` on the recording are judged by ok_script against `uftrace replay --no-merge` of the same data
    (kind, tid, depth, timestamp, duration, name of every callback, begin/end once)"""
    root = os.path.join(ctx.scratch, "jmp")
    os.makedirs(root, exist_ok=True)
    src = os.path.join(root, "jmp.c")
    open(src, "w").write(JMP_PROG)
    exe = os.path.join(root, "jmp")
    sh(["gcc", "-pg", "-O0", "-o", exe, src], check=True)
    uft = os.path.join(objdir, "uftrace")
    script = os.path.join(root, "log.py")
    write_script(script, "py", None)
    terms, metas = [], []
    for mode, funcs in (("child", None), ("", None), ("exec", None), ("exec", Funcs(["leaf", "longjmp", "execl", "setjmp"]))):
        d = os.path.join(root, "rec-%s.data" % (mode or "jump"))
        shutil.rmtree(d, ignore_errors=True)
        rc, out, err = sh(["timeout", "60", uft, "record", "--no-pager", "--no-event", "--libmcount-path=" + objdir, "-d", d, exe]
                          + ([mode] if mode else []), timeout=90)
        if rc != 0:
            ctx.broken("e2e: recording the longjmp/exec program failed (rc=%d): %s" % (rc, (out + err)[-300:]))
            continue
        write_script(script, "py", funcs)
        rc1, sout, serr = datadir.uftrace(objdir, "script", d, ["-S", script], timeout=60)
        rc2, rout, rerr = datadir.uftrace(objdir, "replay", d, ["--no-merge", "-f", "duration,tid,time"], timeout=60)
        if rc1 != 0 or rc2 != 0:
            ctx.violation("e2e: uftrace script / replay failed on a recording with longjmp/exec (rc=%d/%d)" % (rc1, rc2),
                          {"e2e_jump": mode, "err": (serr + rerr)[-300:]}, True)
            continue
        names, tids = {}, {}
        nid = lambda n: names.setdefault(n, len(names) + 1)
        tix = lambda t: tids.setdefault(t, len(tids))
        lines = []
        for ln in rout.split("\n"):
            m = re.fullmatch(r" (.{10}) \[ *(\d+)\] +(\d+)\.(\d{9}) \| ( *)(.*)", ln)
            if not m:
                continue
            dur = c06.parse_time_unit(m.group(1)) or 0
            tm = int(m.group(3)) * 10**9 + int(m.group(4))
            sp, rest = len(m.group(5)), m.group(6)
            mo = re.fullmatch(r"(\S+)\(\) \{", rest)
            mc = re.fullmatch(r"\} /\* (\S+) \*/", rest)
            if mo:
                lines.append(("O", tix(int(m.group(2))), sp // 2, nid(mo.group(1)), 0, 0, tm, 0, 0))
            elif mc:
                lines.append(("C", tix(int(m.group(2))), sp // 2, nid(mc.group(1)), dur, 0, tm, 0, 0))
            elif rest.strip():
                lines.append(c06.BAD)
        cbs = parse_callbacks(sout, tix, nid, lambda a: 0)
        # the address is not compared here (a PLT address has no line of its own in replay): use the name's id
        cbs = [c if c[0] not in ("E", "X") else (c[:4] + (c[5],) + c[5:] if c[0] == "E" else c[:5] + (c[6],) + c[6:]) for c in cbs]
        fl = [] if funcs is None else [names[f] for f in funcs if f in names] or [77777]
        terms.append("([%s], [%s], [%s])" % ("; ".join(map(str, fl)), "; ".join(coq_cb(c) for c in cbs),
                                             "; ".join(c06.coq_line(l) for l in lines)))
        metas.append({"e2e_jump": mode or "longjmp", "funcs": funcs, "callbacks": len(cbs), "replay_lines": len(lines)})
        has = {n for n in names}
        ctx.case(key=("e2e-jump", mode, repr(funcs)), tags=["e2e:real-program", "e2e:" + (mode or "longjmp")]
                 + (["e2e:longjmp-seen"] if "longjmp" in has else []) + (["e2e:exec-seen"] if "execl" in has else []),
                 size=len(cbs))
    if not terms:
        return
    defs = "Definition runs : list (list N * list callback * list line) := [%s]." % ";\n".join(terms)
    res = coq.run_cases(ctx, "e2e_jump", PRE, defs,
                        [("bad", "bad_indices (fun x => ok_script (fst (fst x)) (snd (fst x)) (snd x)) runs 0")])
    if res is None:
        return
    for i in coq.parse_nat_list(res["bad"])[:3]:
        ctx.violation("C18 violated on a recorded program with longjmp/exec: the callbacks of `uftrace script` differ from what "
                      "`uftrace replay` shows for the same recording (kind, tid, depth, timestamp, duration, name)", metas[i], True)


# ------------------------------------------------------------------ arguments and return values
# "script = replay" for ctx["args"] / ctx["retval"]: the text replay prints for a record is the reference (what a payload
# decodes to is C09's subject).  The logging scripts print what they received in replay's notation; the two texts of
# every callback / line become opaque tokens and are compared inside Coq (ok_script_args).
ARG_FMTS = ["i8", "i16", "i32", "i64", "s", "s", "s", "f32", "f64", "c"]
STR_ALPHA = "abcdefghijklmnopqrstuvwxyzABCXYZ0123456789 _-,.;:(){}=/"


def fmt_size(f):
    return {"i8": 1, "i16": 2, "i32": 4, "i64": 8, "f32": 4, "f64": 8, "c": 1}[f]


def gen_value(rng, f, slen=None):
    import struct
    if f == "s":
        n = rng.randrange(0, 13) if slen is None else slen
        return "".join(rng.choice(STR_ALPHA) for _ in range(n))
    if f == "c":
        return rng.choice("abcxyzAZ09_")
    if f in ("f32", "f64"):
        v = rng.choice([0.5, -1.25, 3.75, rng.uniform(-1000, 1000), rng.uniform(-1, 1), float(rng.randrange(-50, 50))])
        return struct.unpack("<f", struct.pack("<f", v))[0] if f == "f32" else v
    bits = int(f[1:])
    lim = min(bits - 1, 52)             # Lua numbers are doubles
    return rng.choice([0, 1, -1, (1 << lim) - 1, -(1 << lim), rng.randrange(-(1 << lim), 1 << lim), rng.randrange(-100, 100)])


def enc_value(f, v):
    """on-disk form (libmcount's save_argument layout): every item is padded to 4 bytes; a string is a 2-byte length + bytes"""
    import struct
    if f == "s":
        b = struct.pack("<H", len(v)) + v.encode()
    elif f == "c":
        b = v.encode()
    elif f == "f32":
        b = struct.pack("<f", v)
    elif f == "f64":
        b = struct.pack("<d", v)
    else:
        b = (v & ((1 << int(f[1:])) - 1)).to_bytes(int(f[1:]) // 8, "little")
    return b + b"\0" * (-len(b) % 4)


def gen_args_case(rng, k):
    """a LOST-free, jump-free task set of C06 whose functions carry -A / -R specs and whose records carry payloads"""
    while True:
        case = c06.gen_case1(rng, "small" if k % 3 else "medium")
        if case["illformed"] or case.get("sess2") or not any(t["recs"] for t in case["tasks"]):
            continue
        if any(r[1] == c06.LOSTREC for t in case["tasks"] for r in t["recs"]):
            continue
        break
    names = case["names"]
    aspec, rspec = {}, {}
    for i, n in enumerate(names):
        r = rng.random()
        if r < 0.2:
            fm = []
        elif r < 0.55:
            # a string followed by further arguments
            fm = [rng.choice(ARG_FMTS) for _ in range(rng.randrange(0, 2))] + ["s"] + [rng.choice(ARG_FMTS) for _ in range(rng.randrange(1, 4))]
        else:
            fm = [rng.choice(ARG_FMTS) for _ in range(rng.randrange(1, 5))]
        if fm:
            aspec[i] = fm
        if rng.random() < 0.7:
            rspec[i] = rng.choice(ARG_FMTS)
    if not aspec:
        aspec[0] = ["s", "i32", "i32"]
    sl = [None]

    def values(fm):
        out = []
        for f in fm:
            # string lengths 0..12 in rotation, so that every residue of len mod 4 is followed by further arguments
            if f == "s":
                sl[0] = rng.randrange(0, 13) if sl[0] is None else (sl[0] + 1) % 13
                out.append(gen_value(rng, f, sl[0]))
            else:
                out.append(gen_value(rng, f))
        return out
    for t in case["tasks"]:
        t.pop("forest", None)
        for r in t["recs"]:
            fm = aspec.get(r[3]) if r[1] == c06.E else ([rspec[r[3]]] if r[3] in rspec else None)
            if fm:
                r.append(b"".join(enc_value(f, v) for f, v in zip(fm, values(fm))).hex())
    spec = lambda f: "s" if f == "s" else "c" if f == "c" else f
    case["argspec"] = {
        "argspec": ";".join("%s@%s" % (names[i], ",".join("arg%d/%s" % (j + 1, spec(f)) for j, f in enumerate(fm)))
                            for i, fm in sorted(aspec.items())),
        "retspec": ";".join("%s@retval/%s" % (names[i], spec(f)) for i, f in sorted(rspec.items()))}
    case["akinds"] = {names[i]: "".join(f[0] for f in fm) for i, fm in aspec.items()}
    case["rkinds"] = {names[i]: f[0] for i, f in rspec.items()}
    return case


PY_ARGS = r"""
import os
AK = %s
RK = %s
def fa(v, k):
    if isinstance(v, float):
        return "%%f" %% v
    if isinstance(v, str):
        return ("'%%s'" if k == "c" else '"%%s"') %% v
    if isinstance(v, int):
        return "%%d" %% (v - (1 << 64) if v >= (1 << 63) else v)      # 8-byte integers arrive unsigned
    return "?" + repr(v)
def uftrace_begin(ctx):
    os.write(1, b"B\n")
def uftrace_entry(ctx):
    a = ctx.get("args")
    ks = AK.get(ctx["name"], "")
    txt = "-" if a is None else "(" + ", ".join(fa(v, ks[i] if i < len(ks) else "?") for i, v in enumerate(a)) + ")"
    os.write(1, ("E %%d %%d %%d %%s %%s\n" %% (ctx["tid"], ctx["depth"], ctx["timestamp"], ctx["name"], txt)).encode())
def uftrace_exit(ctx):
    txt = "-" if "retval" not in ctx else "=" + fa(ctx["retval"], RK.get(ctx["name"], "?"))
    os.write(1, ("X %%d %%d %%d %%d %%s %%s\n" %% (ctx["tid"], ctx["depth"], ctx["timestamp"], ctx["duration"], ctx["name"], txt)).encode())
def uftrace_end():
    os.write(1, b"Z\n")
"""
LUA_ARGS = r"""
AK = %s
RK = %s
function fa(v, k)
  if type(v) == "string" then
    if k == "c" then return "'" .. v .. "'" else return '"' .. v .. '"' end
  elseif type(v) == "number" then
    if k == "f" then return string.format("%%f", v) else return string.format("%%d", v) end
  end
  return "?"
end
function uftrace_begin(ctx) print("B") end
function uftrace_entry(ctx)
  local a = ctx["args"]
  local txt = "-"
  if a ~= nil then
    local ks = AK[ctx["name"]] or ""
    local parts = {}
    for i, v in ipairs(a) do parts[#parts + 1] = fa(v, string.sub(ks, i, i)) end
    txt = "(" .. table.concat(parts, ", ") .. ")"
  end
  print(string.format("E %%d %%d %%d %%s %%s", ctx["tid"], ctx["depth"], ctx["timestamp"], ctx["name"], txt))
end
function uftrace_exit(ctx)
  local txt = "-"
  if ctx["retval"] ~= nil then txt = "=" .. fa(ctx["retval"], RK[ctx["name"]] or "?") end
  print(string.format("X %%d %%d %%d %%d %%s %%s", ctx["tid"], ctx["depth"], ctx["timestamp"], ctx["duration"], ctx["name"], txt))
end
function uftrace_end() print("Z") end
"""


def write_args_script(path, lang, case):
    ak, rk = case["akinds"], case["rkinds"]
    if lang == "py":
        open(path, "w").write(PY_ARGS % (repr(ak), repr(rk)))
    else:
        tab = lambda d: "{" + ", ".join('["%s"] = "%s"' % kv for kv in sorted(d.items())) + "}"
        open(path, "w").write(LUA_ARGS % (tab(ak), tab(rk)))


def run_args_case(ctx, objdir, case, langs=("py", "lua")):
    """-> list of (lang, script callbacks, replay callbacks); the address field of a callback holds the token of the
    argument-list / return-value text"""
    d = os.path.join(ctx.scratch, "adata")
    c06.write_dir(case, d)
    name_map = c06.name_ids(case)
    tid_map = {t["tid"]: i for i, t in enumerate(case["tasks"])}
    tokens = {}
    tok = lambda s: tokens.setdefault(s, len(tokens) + 1)
    rc, rout, rerr = datadir.uftrace(objdir, "replay", d, ["--no-merge", "-f", "duration,tid,time"], timeout=60)
    if rc != 0:
        ctx.violation("uftrace replay failed on a directory with argument payloads (rc=%d): %s" % (rc, (rout + rerr)[-300:]),
                      {"args_case": case}, True)
        return []
    rcbs = []
    # calls still open at the end are listed after this marker (C06's subject)
    rout = rout.split("\nuftrace stopped tracing with remaining functions\n")[0]
    for ln in rout.split("\n"):
        m = re.fullmatch(r" (.{10}) \[ *(\d+)\] +(\d+)\.(\d{9}) \| ( *)(.*)", ln)
        if not m:
            if ln.strip() and not ln.startswith("#"):
                rcbs.append(("?",))
            continue
        dur = c06.parse_time_unit(m.group(1)) or 0
        tm = int(m.group(3)) * 10**9 + int(m.group(4))
        ti, dep, rest = tid_map.get(int(m.group(2)), 999), len(m.group(5)) // 2, m.group(6)
        mo = re.fullmatch(r"([A-Za-z_0-9]+)(\(.*\)) \{", rest)
        mc = re.fullmatch(r"\}(?: = (.*);)? /\* (\S+) \*/", rest)
        if mo:
            txt = "-" if mo.group(2) == "()" else mo.group(2)
            rcbs.append(("E", ti, dep, tm, tok(txt), name_map.get(mo.group(1), 88888)))
        elif mc:
            txt = "-" if mc.group(1) is None else "=" + mc.group(1)
            rcbs.append(("X", ti, dep, tm, dur, tok(txt), name_map.get(mc.group(2), 88888)))
        elif rest.strip():
            rcbs.append(("?",))
    res = []
    for lang in langs:
        script = os.path.join(ctx.scratch, "alog.%s" % ("py" if lang == "py" else "lua"))
        write_args_script(script, lang, case)
        rc, out, err = datadir.uftrace(objdir, "script", d, ["-S", script], timeout=60)
        if rc != 0:
            ctx.violation("uftrace script failed on a directory with argument payloads (rc=%d): %s" % (rc, (out + err)[-300:]),
                          {"args_case": case, "lang": lang}, True)
            continue
        cbs, texts = [], []
        for ln in out.split("\n"):
            if ln == "":
                continue
            if ln in ("B", "Z"):
                cbs.append((ln,))
                continue
            m = re.fullmatch(r"E (\d+) (\d+) (\d+) (\S+) (.*)", ln)
            if m:
                cbs.append(("E", tid_map.get(int(m.group(1)), 999), int(m.group(2)), int(m.group(3)), tok(m.group(5)),
                            name_map.get(m.group(4), 88888)))
                continue
            m = re.fullmatch(r"X (\d+) (\d+) (\d+) (\d+) (\S+) (.*)", ln)
            if m:
                cbs.append(("X", tid_map.get(int(m.group(1)), 999), int(m.group(2)), int(m.group(3)), int(m.group(4)),
                            tok(m.group(6)), name_map.get(m.group(5), 88888)))
                continue
            cbs.append(("?",))
        res.append((lang, cbs, rcbs))
    case["_texts"] = {v: k for k, v in tokens.items()}
    return res


def first_diff(cbs, rcbs, texts):
    inner = [c for c in cbs if c[0] in ("E", "X")]
    for i, (a, b) in enumerate(zip(inner, rcbs)):
        ta, tb = (a[4], b[4]) if a[0] == "E" else (a[5], b[5]) if len(a) > 5 and len(b) > 5 else (None, None)
        if a[0] != b[0] or ta != tb:
            return {"index": i, "script": [a[0], texts.get(ta)], "replay": [b[0], texts.get(tb)]}
    return {"script_callbacks": len(inner), "replay_lines": len(rcbs)}


def args_tie(ctx, objdir, cases, name="acases"):
    items = []
    for case in cases:
        obs = run_args_case(ctx, objdir, case)
        texts = case.pop("_texts", {})
        nstr2 = sum(1 for t in case["tasks"] for r in t["recs"] if len(r) > 4)
        for lang, cbs, rcbs in obs:
            items.append((case, lang, cbs, rcbs, texts))
            kinds = set("".join(case["akinds"].values()))
            ctx.case(key=("args", repr([t["recs"] for t in case["tasks"]]), repr(case["argspec"]), lang),
                     nontrivial=nstr2 > 0,
                     tags=["args/retval", "lang=" + lang] + ["arg:" + k for k in sorted(kinds)]
                     + ["ret:" + k for k in sorted(set(case["rkinds"].values()))]
                     + (["forked-child"] if any(t["parent"] is not None for t in case["tasks"]) else []),
                     size=len(cbs))
    if not items:
        return
    chunk = 60
    for s in range(0, len(items), chunk):
        part = items[s:s + chunk]
        defs = "Definition runs : list (list callback * list callback) := [%s]." % ";\n".join(
            "([%s], [%s])" % ("; ".join(coq_cb(c) for c in cbs), "; ".join(coq_cb(c) for c in rcbs))
            for _, _, cbs, rcbs, _ in part)
        res = coq.run_cases(ctx, "%s%d" % (name, s // chunk), PRE, defs,
                            [("bad", "bad_indices (fun x => ok_script_args (fst x) (snd x)) runs 0")])
        if res is None:
            continue
        for i in coq.parse_nat_list(res["bad"])[:3]:
            case, lang, cbs, rcbs, texts = part[i]
            pub = {k: v for k, v in case.items() if not k.startswith("_")}
            ctx.violation("C18 violated (arguments / return value): a %s script's ctx[\"args\"] / ctx[\"retval\"] (or another "
                          "compared field) differs from what `uftrace replay` prints for the same record: %s"
                          % ("Python" if lang == "py" else "Lua", first_diff(cbs, rcbs, texts)),
                          {"args_case": pub, "lang": lang}, True)


def hand_args_cases():
    """the shape of the seeded change: a 2-byte string (2 + 2 = one aligned word) followed by two integers; then every length 0..12"""
    out = []
    recs = []
    t = 1000
    specs = {0: [], 1: ["s", "i32", "i32"], 2: ["i32", "s", "i32"], 3: ["s", "s", "c", "f64"]}
    rsp = {1: "i32", 2: "s", 3: "f32"}
    names = ["main", "tag", "pick", "mix"]
    recs.append([t, c06.E, 0, 0])
    for n in range(0, 13):
        s = "abcdefghijkl"[:n]
        for k, vals, rv in ((1, [s, 30 + n, 31 + n], -n), (2, [7 - n, s, 9], s), (3, [s, s[::-1], "q", n + 0.5], 1.25 * n)):
            t += 3
            recs.append([t, c06.E, 1, k, b"".join(enc_value(f, v) for f, v in zip(specs[k], vals)).hex()])
            t += 2
            recs.append([t, c06.X, 1, k, enc_value(rsp[k], rv).hex()])
    recs.append([t + 5, c06.X, 0, 0])
    case = {"names": names, "forks": [], "tasks": [{"parent": None, "tid": 4100, "recs": recs}], "max_stack": 1024,
            "illformed": False, "sess2": None}
    spec = lambda f: f
    case["argspec"] = {"argspec": ";".join("%s@%s" % (names[i], ",".join("arg%d/%s" % (j + 1, f) for j, f in enumerate(fm)))
                                           for i, fm in specs.items() if fm),
                       "retspec": ";".join("%s@retval/%s" % (names[i], f) for i, f in rsp.items())}
    case["akinds"] = {names[i]: "".join(f[0] for f in fm) for i, fm in specs.items() if fm}
    case["rkinds"] = {names[i]: f[0] for i, f in rsp.items()}
    out.append(case)
    return out


# ------------------------------------------------------------------ environment: PYTHONPATH
PP_SCRIPT = '''
import os
import pphelper                      # a module in the script's own directory
def uftrace_begin(ctx):
    pphelper.log("B %d" % os.getpid())
def uftrace_entry(ctx):
    pphelper.log("E %d %d %d %d %s" % (ctx["tid"], ctx["depth"], ctx["timestamp"], ctx["address"], ctx["name"]))
def uftrace_exit(ctx):
    pphelper.log("X %d %d %d %d %d %s" % (ctx["tid"], ctx["depth"], ctx["timestamp"], ctx["duration"], ctx["address"], ctx["name"]))
def uftrace_end():
    pphelper.log("Z %d" % os.getpid())
'''


def pythonpath_tie(ctx, objdir):
    """the script's own directory must be importable whatever PYTHONPATH holds (set-up of the interpreter: environment, not model):
    the callbacks of a Python script that imports a helper from its directory are judged by ok_script against replay under
    several PYTHONPATH settings, among them entries the script's directory is a proper substring of"""
    root = os.path.realpath(os.path.join(ctx.scratch, "pp"))
    sd = os.path.join(root, "scr")
    for x in (sd, sd + "/lib", sd + "-old", os.path.join(root, "other")):
        os.makedirs(x, exist_ok=True)
    open(os.path.join(sd, "pphelper.py"), "w").write("import os\ndef log(s):\n    os.write(1, (s + '\\n').encode())\n")
    script = os.path.join(sd, "pplog.py")
    open(script, "w").write(PP_SCRIPT)
    case = c06.hand_cases()[0]
    d = os.path.join(ctx.scratch, "ppdata")
    c06.write_dir(case, d)
    name_map = c06.name_ids(case)
    tid_map = {t["tid"]: i for i, t in enumerate(case["tasks"])}
    syms = c06.sym_table(case)
    addr_map = {c06.BASE + x[0]: c06.fid(case, i) for i, x in enumerate(syms)}
    v = {"fold": False, "sel": None, "fields": ["duration", "tid", "addr", "time"], "column": None, "newline": False}
    o, raw = c06.run_variant(objdir, d, case, v)
    lines = o[0] if o else [c06.BAD]
    settings = [("empty", ""), ("unrelated", os.path.join(root, "other")), ("script-dir", sd), ("script-dir/lib", sd + "/lib"),
                ("script-dir-old", sd + "-old"), ("several", os.path.join(root, "other") + ":" + sd + "/lib:" + sd + "-old"),
                ("parent-dir", root), ("default", os.path.join(objdir, "python"))]
    obs = []
    for tag, pp in settings:
        rc, out, err = datadir.uftrace(objdir, "script", d, ["-S", script], timeout=60, env={"PYTHONPATH": pp})
        cbs = parse_callbacks(out, lambda t: tid_map.get(t, 999), lambda n: name_map.get(n, 88888), lambda a: addr_map.get(a, 99999))
        if rc != 0 and not cbs:
            cbs = [("?",)]
        obs.append((("py", None, None), cbs, lines))
        ctx.case(key=("pythonpath", tag), tags=["env:PYTHONPATH=" + tag], size=len(cbs))
    res = evaluate(ctx, [(case, obs)], "ppcases")
    if res is None:
        return
    for k in res["violations"][:3] or res["mismatch"][:3]:
        tag, pp = settings[k]
        ctx.violation("C18 violated: with PYTHONPATH=%s (%s) a Python script that imports a helper from its own directory does not "
                      "receive the calls `uftrace replay` shows (%d callbacks)" % (pp, tag, len(obs[k][1])),
                      {"pythonpath": tag, "value": pp, "callbacks": [list(c) for c in obs[k][1]][:20]}, True)


# ------------------------------------------------------------------ entry points
def common_meta(ctx):
    ctx.rule = ("replay time: a case = one generated task set of C06 x (script language, UFTRACE_FUNCS list or none, --tid "
                "selection or none); record time: one run of `uftrace record -S log.py` on a generated threaded program; "
                "distinct = distinct (records, variant); non-trivial = more than one task")
    ctx.trusted = [
        "Coq 8.16.1 kernel incl. vm_compute; Print Assumptions: closed under the global context",
        "hand-written models coq/theories/C18/Model.v (cmds/script.c run_script_for_rstack, script_match_filter) and "
        "coq/theories/C06/Model.v (reader)",
        "the logging scripts (Python/Lua) of props/c18.py, their line parser, vf/datadir.py, the replay parser of props/c06.py",
    ]
    ctx.assume = [
        "as C06: ENTRY/EXIT user records only, depth < max_stack <= 1024, fork/vfork/daemon fix-ups only; replay-time options: "
        "--tid, -D, -F, -N are modelled (plain names, no symbol in both -F and -N), -t is compared with replay only",
        "UFTRACE_FUNCS entries are plain names (no regex/glob characters): exact match",
        "arguments / return values: script vs replay text only (signed integers, strings of 0..12 plain characters, f32/f64, char); what a "
        "payload decodes to is C09's theorem; unsigned/hex/pointer/enum/struct formats and NULL strings are not compared",
        "record time: no model of libmcount's hooks - pairing per thread and agreement with replay are checked on real runs only",
        "Lua numbers are doubles: timestamps below 2^53",
    ]


def setup(ctx):
    coq.prove(ctx, "C18")
    return build.get_build("plain", ctx.log)


def run(ctx):
    common_meta(ctx)
    objdir = setup(ctx)
    rng = ctx.rng
    cases = [c for c in c06.hand_cases() if not c.get("variants_only")]
    n = ctx.n(40, 400)
    for k in range(n):
        cases.append(c06.gen_case(rng, "small" if k % 3 else "medium"))
    items = []
    for case in cases:
        variants = [("py", None, None), ("lua", None, None), ("py", gen_funcs(rng, case), None),
                    ("lua", gen_funcs(rng, case), closed_sel(rng, case))]
        if ctx.thorough():
            variants += [("py", None, closed_sel(rng, case)), ("py", gen_funcs(rng, case), closed_sel(rng, case)),
                         ("lua", gen_funcs(rng, case), None)]
        # callbacks that raise (KeyError in Python, error() in Lua) after logging: the following callbacks must still get
        # their own record's fields (an exception left pending poisoned the next ctx["name"]: fixed in /repo, see manifest)
        nrec = sum(len(t["recs"]) for t in case["tasks"])
        pts = lambda: ",".join(map(str, sorted(set(rng.sample(range(0, nrec + 1), min(nrec + 1, rng.choice([1, 2, 3]))))
                                                   | ({0} if rng.random() < 0.2 else set()))))
        kk = len(items)
        # scripts that define only some of the callbacks (legal and documented): each defined one gets its projection
        sub = SUBSETS[kk % len(SUBSETS)]
        variants.append((sub, gen_funcs(rng, case) if kk % 5 == 2 else None, closed_sel(rng, case) if kk % 7 == 3 else None))
        if ctx.thorough():
            variants.append((SUBSETS[(kk + 5) % len(SUBSETS)], None, None))
        variants.append(("py!%s:%s" % ("v" if kk % 3 == 1 else "", pts()), gen_funcs(rng, case) if kk % 4 == 3 else None, None))
        if kk % 3 == 2 or ctx.thorough():
            variants.append(("lua!:%s" % pts(), None, None))
        if case["illformed"]:
            # an inverted timestamp gives a duration of 2^64-x: Lua numbers cannot hold it (and the
            # stream is outside the property's domain): model correspondence through Python only
            variants = [v for v in variants if v[0].startswith("py")]
        obs = run_script_case(ctx, objdir, case, variants)
        items.append((case, obs))
        tags = c06.case_tags(case)
        for (lang, funcs, sel), cbs, lines in obs:
            ctx.case(key=(repr([(t["parent"], t["recs"]) for t in case["tasks"]]), lang, repr(funcs), repr(sel)),
                     nontrivial=len(case["tasks"]) > 1,
                     tags=tags + ["lang=" + lang_parts(lang)[0]] + (["defines=" + lang_parts(lang)[3]] if "#" in lang else []) + (["raising-callback" + ("-v" if lang_parts(lang)[1] else "")] if "!" in lang else [])
                     + (["UFTRACE_FUNCS"] if funcs else []) + (["--tid"] if sel else []),
                     sample={"tasks": case["tasks"], "lang": lang, "funcs": funcs, "sel": sel, "callbacks": len(cbs)}
                     if len(ctx.samples) < 3 and len(case["tasks"]) > 1 else None,
                     size=sum(len(t["recs"]) for t in case["tasks"]))
    chunk = 50
    for s in range(0, len(items), chunk):
        part = items[s:s + chunk]
        verdict(ctx, part, evaluate(ctx, part, "scases%d" % (s // chunk)))
    # UFTRACE_FUNCS combined with replay-time filter options
    oitems = []
    lk = leak_shape_case()
    fixed = [("py", {"depth": 2, "F": [], "N": [], "t": None}, ["target", "sub"], None),
             ("py", {"depth": None, "F": ["helper"], "N": [], "t": None}, ["leaf"], None),
             ("lua", {"depth": 1, "F": ["helper"], "N": [], "t": None}, ["leaf", "sub"], None),
             ("py", {"depth": None, "F": [], "N": ["helper"], "t": None}, ["leaf", "target"], None),
             ("py", {"depth": 2, "F": [], "N": [], "t": None}, None, None)]
    oitems.append((lk, run_opts_case(ctx, objdir, lk, fixed)))
    for case in cases[:ctx.n(45, 400)]:
        if not any(t["recs"] for t in case["tasks"]):
            continue
        variants = []
        for j in range(ctx.n(3, 5)):
            o = gen_opts(rng, case)
            lang = "lua" if (j == 2 and not case["illformed"]) else "py"
            sel = closed_sel(rng, case) if rng.random() < 0.2 else None
            variants.append((lang, o, gen_funcs_for_opts(rng, case, o), sel))
        oitems.append((case, run_opts_case(ctx, objdir, case, variants)))
    for case, obs in oitems:
        for (lang, o, funcs, sel), cbs, lines in obs:
            ctx.case(key=(repr([(t["parent"], t["recs"]) for t in case["tasks"]]), lang, repr(o), repr(funcs), repr(sel)),
                     nontrivial=True,
                     tags=["opts:" + ("".join(a for a in opts_args(o) if a.startswith("-")) or "none"), "UFTRACE_FUNCS+options", "lang=" + lang],
                     size=sum(len(t["recs"]) for t in case["tasks"]))
    for s in range(0, len(oitems), chunk):
        part = oitems[s:s + chunk]
        verdict_opts(ctx, part, evaluate_opts(ctx, part, "ocases%d" % (s // chunk)))
    args_tie(ctx, objdir, hand_args_cases() + [gen_args_case(rng, k) for k in range(ctx.n(25, 250))])
    pythonpath_tie(ctx, objdir)
    record_time(ctx, objdir)
    e2e_jump(ctx, objdir)


def replay(ctx, obj):
    common_meta(ctx)
    objdir = setup(ctx)
    if obj.get("args_case"):
        args_tie(ctx, objdir, [obj["args_case"]], "replay_args")
        return
    case = obj.get("case")
    if not case:
        if obj.get("pythonpath"):
            pythonpath_tie(ctx, objdir)
        elif obj.get("record_time"):
            record_time(ctx, objdir)
        elif obj.get("e2e_jump") is not None:
            e2e_jump(ctx, objdir)
        else:
            ctx.log("replay file has no case; nothing to re-execute")
        return
    fn = obj.get("funcs")
    if fn is not None:
        fn = Funcs(fn)
        fn.ptype = obj.get("ptype", "regex")
    if obj.get("opts"):
        obs = run_opts_case(ctx, objdir, case, [(obj.get("lang", "py"), obj["opts"], fn, obj.get("sel"))])
        for (lang, o, funcs, sel), cbs, lines in obs:
            ctx.log("replayed %s script with %s: %d callbacks, %d replay lines" % (lang, " ".join(opts_args(o)), len(cbs), len(lines)))
            ctx.case(key=("replay", lang, repr(o), repr(funcs)), sample={"callbacks": [list(c) for c in cbs][:40]})
        verdict_opts(ctx, [(case, obs)], evaluate_opts(ctx, [(case, obs)], "replay"))
        return
    variants = [(obj.get("lang", "py"), fn, obj.get("sel"))]
    obs = run_script_case(ctx, objdir, case, variants)
    for (lang, funcs, sel), cbs, lines in obs:
        ctx.log("replayed %s script: %d callbacks, %d replay lines" % (lang, len(cbs), len(lines)))
        ctx.case(key=("replay", lang, repr(funcs), repr(sel)), sample={"callbacks": [list(c) for c in cbs][:40]})
    verdict(ctx, [(case, obs)], evaluate(ctx, [(case, obs)], "replay"))
