"""C01 end-to-end differential: generator of C programs over ABI signature classes.

Every generated program is deterministic, free of undefined behaviour (unsigned arithmetic only,
no uninitialised padding is hashed) and folds every argument it receives, every value returned to
it, errno after calls and floating-point results (bit patterns) into an FNV digest per thread; it
prints `DIGEST <hex>` lines and exits with a status derived from the digest.  A tracer that
damages an argument/return register, errno, the x87/SSE state or a return address changes the
output (or crashes the program)."""

HEADER = r"""
#define _GNU_SOURCE
#include <stdio.h>
#include <stdlib.h>
#include <string.h>
#include <errno.h>
#include <stdarg.h>
#include <stdint.h>
#include <math.h>
#include <complex.h>
#include <pthread.h>
#include <emmintrin.h>
#ifdef __AVX__
#include <immintrin.h>
#endif
#define NOINL __attribute__((noinline))
static __thread uint64_t dg = 1469598103934665603ULL;
static inline __attribute__((always_inline, no_instrument_function)) void mixb(const void *p, size_t n)
{ const unsigned char *b = p; size_t i; for (i = 0; i < n; i++) dg = (dg ^ b[i]) * 1099511628211ULL; }
#define MIXV(v) mixb(&(v), sizeof(v))
typedef struct { double a, b; } sdd;
typedef struct { long a; double b; } sld;
typedef struct { float a, b, c, d; } sffff;
typedef struct { long a, b; } sll;
typedef struct { long a[5]; } sbig;
typedef struct { double a; long b; float c; } smix;   /* memory class: 24 bytes */
typedef long double ldbl;
typedef double _Complex cdbl;
typedef float _Complex cflt;
"""

# type name -> (C type, constructor from a uint64 expression `s`, statements mixing lvalue `v`)
TYPES = {
    "i8": ("signed char", "(signed char)({s} * 7u + 1u)", "MIXV({v});"),
    "i16": ("short", "(short)({s} * 31u + 3u)", "MIXV({v});"),
    "i32": ("int", "(int)(unsigned)({s} * 2654435761u + 5u)", "MIXV({v});"),
    "i64": ("long", "(long)({s} * 6364136223846793005ULL + 1442695040888963407ULL)", "MIXV({v});"),
    "u64": ("unsigned long long", "(unsigned long long)({s} * 0x9E3779B97F4A7C15ULL)", "MIXV({v});"),
    "ptr": ("const char *", "(strtab[({s}) % 4])", "{{ size_t _n = strlen({v}); MIXV(_n); mixb({v}, _n); }}"),
    "f32": ("float", "((float)(({s}) % 1000u) * 0.37f + 0.5f)", "MIXV({v});"),
    "f64": ("double", "((double)(({s}) % 100000u) * 1.000001 + 0.25)", "MIXV({v});"),
    "f80": ("ldbl", "((ldbl)(({s}) % 100000u) * 1.0000001L + 0.125L)", "mixb(&({v}), 10);"),
    "sdd": ("sdd", "((sdd){{ (double)(({s}) % 977u) * 1.5, (double)(({s}) % 331u) + 0.75 }})", "MIXV({v}.a); MIXV({v}.b);"),
    "sld": ("sld", "((sld){{ (long)(({s}) * 3u + 9u), (double)(({s}) % 613u) * 0.5 }})", "MIXV({v}.a); MIXV({v}.b);"),
    "sffff": ("sffff", "((sffff){{ (float)(({s}) % 7u), (float)(({s}) % 11u) + 0.5f, (float)(({s}) % 13u), (float)(({s}) % 17u) * 2.0f }})",
              "MIXV({v}.a); MIXV({v}.b); MIXV({v}.c); MIXV({v}.d);"),
    "sll": ("sll", "((sll){{ (long)(({s}) * 5u), (long)(({s}) ^ 0x5555u) }})", "MIXV({v}.a); MIXV({v}.b);"),
    "sbig": ("sbig", "((sbig){{ {{ (long)({s}), (long)(({s}) + 1u), (long)(({s}) * 3u), (long)(({s}) ^ 9u), 77 }} }})",
             "MIXV({v}.a[0]); MIXV({v}.a[1]); MIXV({v}.a[2]); MIXV({v}.a[3]); MIXV({v}.a[4]);"),
    "smix": ("smix", "((smix){{ (double)(({s}) % 89u) * 0.1, (long)({s}), (float)(({s}) % 5u) }})", "MIXV({v}.a); MIXV({v}.b); MIXV({v}.c);"),
    "cdbl": ("cdbl", "((double)(({s}) % 101u) + (double)(({s}) % 53u) * 0.5 * I)", "{{ double _r = creal({v}), _i = cimag({v}); MIXV(_r); MIXV(_i); }}"),
    "cflt": ("cflt", "((float)(({s}) % 37u) + (float)(({s}) % 19u) * 0.25f * I)", "{{ float _r = crealf({v}), _i = cimagf({v}); MIXV(_r); MIXV(_i); }}"),
    "m128d": ("__m128d", "_mm_set_pd((double)(({s}) % 1009u) + 0.5, (double)(({s}) % 499u) * 3.0)",
              "{{ double _d[2]; _mm_storeu_pd(_d, {v}); MIXV(_d[0]); MIXV(_d[1]); }}"),
    "m256d": ("__m256d", "_mm256_set_pd((double)(({s}) % 1013u) + 0.25, (double)(({s}) % 509u) * 5.0, (double)(({s}) % 251u) - 7.0, (double)(({s}) % 127u) * 0.125)",
              "{{ double _d[4]; _mm256_storeu_pd(_d, {v}); MIXV(_d[0]); MIXV(_d[1]); MIXV(_d[2]); MIXV(_d[3]); }}"),
    "f128": ("__float128", "((__float128)(({s}) % 100003u) / 3 + 1)", "mixb(&({v}), 16);"),
    "void": ("void", None, None),
}
ARG_TYPES = [t for t in TYPES if t != "void"]
CLASSES = {
    "int": ["i8", "i16", "i32", "i64", "u64", "ptr"],
    "float": ["f32", "f64"],
    "longdouble": ["f80"],
    "struct-regs": ["sdd", "sld", "sffff", "sll"],
    "struct-mem": ["sbig", "smix"],
    "complex": ["cdbl", "cflt"],
    "vector": ["m128d", "f128"],
    "vector256": ["m256d"],          # only in programs built with -mavx2 (gen_program(avx=True))
}


class Fn:
    def __init__(self, idx):
        self.idx = idx
        self.ret = "i32"
        self.args = []
        self.variadic = None      # list of 'i'/'d' codes passed through ...
        self.calls = []           # indices of callees (all > idx)
        self.tail = None          # index of a callee called as `return f(...)`
        self.errno_set = None
        self.libcalls = []
        self.static = False
        self.recurse = 0          # bounded self recursion depth
        self.nested = False       # has a GNU C nested function (static chain in %r10)


def gen_program(rng, nfn=10, threads=1, classes=None, libcalls=True, stress_regs=False, avx=False):
    """-> (source text, description dict)"""
    fns = [Fn(i) for i in range(nfn)]
    pool = []
    for c in (classes or CLASSES):
        if c == "vector256" and not avx:
            continue
        pool += CLASSES[c]
    if avx and "m256d" not in pool:
        pool += ["m256d", "m256d"]
    for f in fns:
        f.ret = rng.choice(pool + ["void", "i32", "f64"])
        na = rng.choice([0, 1, 2, 3, 3, 5, 7, 9, 12])
        f.args = [rng.choice(pool) for _ in range(na)]
        if rng.random() < 0.15:
            f.variadic = [rng.choice("id") for _ in range(rng.randrange(1, 10))]
            f.ret = "f64"
            f.args = ["i32"]
        later = list(range(f.idx + 1, nfn))
        if later:
            f.calls = sorted(rng.sample(later, min(len(later), rng.choice([0, 1, 1, 2, 3]))))
            if rng.random() < 0.3:
                cands = [j for j in later if fns[j].ret == f.ret and not fns[j].variadic]
                # fns[j] for j > idx are not generated yet; decide tail after the loop
                f.tail = -1
        if rng.random() < 0.4:
            f.errno_set = rng.randrange(1, 120)
        if libcalls and rng.random() < 0.5:
            f.libcalls = rng.sample(["strlen", "qsort", "snprintf", "strtol", "sqrt", "malloc", "fopen"], rng.randrange(1, 3))
        f.static = rng.random() < 0.4
        if rng.random() < 0.1:
            f.recurse = rng.randrange(1, 4)
        f.nested = rng.random() < 0.3
    for f in fns:
        if f.tail == -1:
            cands = [j for j in range(f.idx + 1, nfn) if fns[j].ret == f.ret and not fns[j].variadic and f.ret != "void"]
            f.tail = rng.choice(cands) if cands else None
    # keep the number of activations small: drop call edges until the estimate fits
    while True:
        cnt = [0] * nfn
        called = set()
        for f in fns:
            called.update(f.calls)
            if f.tail is not None:
                called.add(f.tail)
        for f in fns:
            if f.idx not in called or f.idx == 0:
                cnt[f.idx] += 1
            cnt[f.idx] *= (f.recurse + 1)
            for j in f.calls + ([f.tail] if f.tail is not None else []):
                cnt[j] += cnt[f.idx]
        if sum(cnt) <= 3000:
            break
        big = max(fns, key=lambda f: cnt[f.idx] * (len(f.calls) + f.recurse))
        if big.recurse:
            big.recurse = 0
        elif big.calls:
            big.calls.pop()
        else:
            break
    out = [HEADER]
    out.append('static const char *const strtab[4] = { "alpha", "", "a-longer-string-for-argument-capture", "z" };')
    out.append("static int cmp_long(const void *a, const void *b) { long x = *(const long *)a, y = *(const long *)b; "
               "MIXV(x); return (x > y) - (x < y); }")
    for f in fns:
        out.append(proto(f) + ";")
    for f in reversed(fns):
        out.append(define(f, fns, rng, stress_regs))
    # root: calls every function nobody calls, plus f0
    called = set()
    for f in fns:
        called.update(f.calls)
        if f.tail is not None:
            called.add(f.tail)
    roots = [f.idx for f in fns if f.idx not in called] or [0]
    body = ["static void *root(void *arg)", "{", "  uint64_t seed = (uint64_t)(uintptr_t)arg * 1000003u + 17u;", "  dg ^= seed;"]
    for r in roots:
        body.append("  " + call_stmt(fns[r], "seed + %du" % (r * 13 + 1), "r%d" % r))
    body += ["  return (void *)(uintptr_t)dg;", "}"]
    out.append("\n".join(body))
    main = ["int main(void)", "{", "  uint64_t total = 0; int i; char rep[1024]; size_t rn = 0; FILE *of;"]
    if threads > 1:
        main += ["  pthread_t th[%d];" % threads,
                 "  for (i = 0; i < %d; i++) pthread_create(&th[i], NULL, root, (void *)(uintptr_t)(i + 1));" % threads,
                 "  for (i = 0; i < %d; i++) { void *r; pthread_join(th[i], &r); total = total * 31u + (uint64_t)(uintptr_t)r; "
                 "rn += (size_t)snprintf(rep + rn, sizeof rep - rn, \"DIGEST t%%d %%016llx\\n\", i, (unsigned long long)(uintptr_t)r); }" % threads]
    main += ["  total = total * 31u + (uint64_t)(uintptr_t)root((void *)(uintptr_t)99);",
             "  rn += (size_t)snprintf(rep + rn, sizeof rep - rn, \"DIGEST main %016llx\\n\", (unsigned long long)total);",
             "  fputs(rep, stdout);",
             "  fflush(stdout);",
             "  /* the same report into a private file: stdout is shared with the tracer's own messages */",
             "  if (getenv(\"VERIF_OUT\") && (of = fopen(getenv(\"VERIF_OUT\"), \"w\")) != NULL) { fputs(rep, of); fclose(of); }",
             "  return (int)(total % 120u);", "}"]
    out.append("\n".join(main))
    desc = {"nfn": nfn, "threads": threads, "nested": sum(1 for f in fns if f.nested),
            "sigs": ["%s(%s%s)" % (f.ret, ",".join(f.args), ",..." if f.variadic else "") for f in fns]}
    return "\n".join(out) + "\n", desc


def proto(f):
    rt = TYPES[f.ret][0]
    if f.variadic is not None:
        return "%sNOINL %s f%d(int n, ...)" % ("static " if f.static else "", rt, f.idx)
    args = ", ".join("%s p%d" % (TYPES[t][0], i) for i, t in enumerate(f.args)) or "void"
    return "%sNOINL %s f%d(%s)" % ("static " if f.static else "", rt, f.idx, args)


def call_stmt(g, seed, var):
    """statement calling g with arguments derived from the uint64 expression `seed`, mixing the result"""
    if g.variadic is not None:
        args = ["%d" % len(g.variadic)]
        for i, c in enumerate(g.variadic):
            s = "((%s) + %du)" % (seed, i * 7 + 3)
            args.append(TYPES["f64"][1].format(s=s) if c == "d" else TYPES["i32"][1].format(s=s))
        code = "".join(g.variadic)
        # the callee knows the codes statically
        call = "f%d(%s)" % (g.idx, ", ".join(args))
    else:
        args = [TYPES[t][1].format(s="((%s) + %du)" % (seed, i * 11 + 5)) for i, t in enumerate(g.args)]
        call = "f%d(%s)" % (g.idx, ", ".join(args))
    if g.ret == "void":
        return "%s;" % call
    return "{ %s %s = %s; %s }" % (TYPES[g.ret][0], var, call, TYPES[g.ret][2].format(v=var))


def define(f, fns, rng, stress_regs):
    L = [proto(f), "{"]
    L.append("  uint64_t s = %du;" % (f.idx * 977 + 41))
    if stress_regs:
        # many live integer and FP values across the calls below: with -fipa-ra the caller may
        # keep them in caller-saved registers over calls to static functions
        L.append("  uint64_t k0 = dg * 3u + 1u, k1 = dg ^ 0x1111u, k2 = dg + 77u, k3 = dg * 5u, k4 = dg ^ 0xabcdefu, k5 = dg >> 3;")
        L.append("  double e0 = (double)(dg % 1000u) * 0.5, e1 = (double)(dg % 777u) + 0.25, e2 = (double)(dg % 31u) * 1.75;")
    if f.variadic is not None:
        L.append("  va_list ap; double acc = 0; int i; (void)i;")
        L.append("  MIXV(n);")
        L.append("  va_start(ap, n);")
        for c in f.variadic:
            if c == "d":
                L.append("  { double d = va_arg(ap, double); MIXV(d); acc += d; }")
            else:
                L.append("  { int d = va_arg(ap, int); MIXV(d); acc += d; }")
        L.append("  va_end(ap);")
    else:
        for i, t in enumerate(f.args):
            L.append("  " + TYPES[t][2].format(v="p%d" % i))
            if t in ("i8", "i16", "i32", "i64", "u64"):
                L.append("  s += (uint64_t)p%d;" % i)
    if f.errno_set is not None:
        L.append("  errno = %d;" % f.errno_set)
    if f.nested:
        # a nested function reads and writes the enclosing frame through the static chain (%r10 at its entry);
        # builds whose entry stub cannot cope with it (-mfentry: known finding) define NO_NESTED
        L.append("#ifndef NO_NESTED")
        L.append("  { uint64_t nacc = s ^ 0x51u; double nfp = 0.5;")
        L.append("    NOINL uint64_t nst%d(uint64_t d, double e) { nacc += d * (s | 1u); nfp += e; MIXV(nacc); MIXV(nfp); return nacc ^ d; }" % f.idx)
        L.append("    uint64_t n1 = nst%d(3u, 1.25); uint64_t n2 = nst%d(dg %% 7u, 2.5); MIXV(n1); MIXV(n2); MIXV(nacc); MIXV(nfp); }" % (f.idx, f.idx))
        L.append("#endif")
    for lc in f.libcalls:
        if lc == "strlen":
            L.append("  { size_t n_ = strlen(strtab[s % 4]); MIXV(n_); }")
        elif lc == "qsort":
            L.append("  { long a_[6] = { (long)(s % 17u), 3, (long)(s % 5u), 99, -4, (long)(s % 11u) }; qsort(a_, 6, sizeof(long), cmp_long); mixb(a_, sizeof a_); }")
        elif lc == "snprintf":
            L.append("  { char b_[96]; int n_ = snprintf(b_, sizeof b_, \"%d %.3f %s %Lg\", (int)(s % 1000u), (double)(s % 77u) / 7.0, strtab[s % 4], (long double)(s % 9u) / 3); MIXV(n_); mixb(b_, (size_t)n_); }")
        elif lc == "strtol":
            L.append("  { errno = 0; long v_ = strtol((s & 1) ? \"99999999999999999999999\" : \"1234\", NULL, 10); int e_ = errno; MIXV(v_); MIXV(e_); }")
        elif lc == "sqrt":
            L.append("  { volatile double x_ = (double)(s % 1000u) + 2.0; double r_ = sqrt(x_) + pow(x_, 0.5) + floor(x_ / 3.0); MIXV(r_); }")
        elif lc == "malloc":
            L.append("  { char *m_ = malloc(32 + s % 64u); memset(m_, (int)(s % 251u), 32); mixb(m_, 32); free(m_); }")
        elif lc == "fopen":
            L.append("  { errno = 0; FILE *fp_ = fopen(\"/nonexistent/verif-c01\", \"r\"); int e_ = errno; MIXV(e_); if (fp_) fclose(fp_); }")
    if f.recurse and not f.variadic:
        # bounded self recursion through a static counter per thread
        L.append("  { static __thread int depth_; if (depth_ < %d) { depth_++; %s depth_--; } }" %
                 (f.recurse, call_stmt(f, "s + 1000u", "rr")))
    for j in f.calls:
        L.append("  " + call_stmt(fns[j], "s + dg %% 1000u + %du" % (j * 3), "c%d" % j))
        if rng.random() < 0.5:
            L.append("  { int e_ = errno; MIXV(e_); }")
    if stress_regs:
        L.append("  MIXV(k0); MIXV(k1); MIXV(k2); MIXV(k3); MIXV(k4); MIXV(k5); MIXV(e0); MIXV(e1); MIXV(e2);")
    if f.variadic is not None:
        L.append("  return acc;")
    elif f.tail is not None:
        g = fns[f.tail]
        args = [TYPES[t][1].format(s="((s) + %du)" % (i * 11 + 5)) for i, t in enumerate(g.args)]
        L.append("  return f%d(%s);" % (g.idx, ", ".join(args)))
    elif f.ret != "void":
        L.append("  return %s;" % TYPES[f.ret][1].format(s="(s + dg % 4096u)"))
    L.append("}")
    return "\n".join(L)


# build modes: name -> (compiler flags, extra uftrace record options)
MODES = {
    "pg": (["-pg"], []),
    "fentry": (["-pg", "-mfentry", "-DNO_NESTED"], []),     # nested functions + -mfentry: known finding, see props/c01.py
    "cyg": (["-finstrument-functions"], []),
    "patchable": (["-fpatchable-function-entry=5"], ["-P", "."]),
    # fentry NOPs enabled at run time by -P (needs non-PIC code)
    "fentry-nop": (["-pg", "-mfentry", "-mnop-mcount", "-fno-pie", "-no-pie", "-DNO_NESTED"], ["-P", "."]),
    # only some functions patched
    "patch-some": (["-fpatchable-function-entry=5"], ["-P", "^f[0-4]$", "-P", "root", "-P", "main"]),
    "fentry-nested": (["-pg", "-mfentry"], []),             # only for the dedicated known-finding witness
}


# ---------------------------------------------------------------- finish-trigger scenarios
FIN_REPORT = r"""
static void report(const char *line)
{
  FILE *of;
  fputs(line, stdout); fflush(stdout);
  if (getenv("VERIF_OUT") && (of = fopen(getenv("VERIF_OUT"), "w")) != NULL) { fputs(line, of); fclose(of); }
}
"""


def gen_finish_program(rng):
    """Workers sit inside the last function of a chain of sibling (tail) calls - or of plain calls - while
    another thread fires the function carrying the `finish` trigger (-T finish_now@finish): the first hook
    each worker runs afterwards is an exit hook on a torn-down shadow stack.  -> (source, description)"""
    nworkers = rng.choice([1, 2, 3])
    chain = rng.choice([1, 1, 2, 3])          # number of tail calls before the parked function
    tail = rng.random() < 0.8
    by_worker = nworkers > 1 and rng.random() < 0.4   # the trigger is fired by the last worker instead of main
    L = ["#include <pthread.h>", "#include <stdatomic.h>", "#include <stdio.h>", "#include <stdlib.h>", "#include <stdint.h>",
         "#define NOINL __attribute__((noinline))", FIN_REPORT,
         "static atomic_int parked; static atomic_int go; static volatile unsigned long sink;",
         "NOINL long parkfn(long x) { atomic_fetch_add(&parked, 1); while (!atomic_load(&go)) sink++; return x * 7 + 3; }"]
    prev = "parkfn"
    for i in range(chain):
        name = "hop%d" % i
        if tail:
            L.append("NOINL long %s(long x) { sink += x; return %s(x + %d); }" % (name, prev, i + 1))
        else:
            L.append("NOINL long %s(long x) { long r; sink += x; r = %s(x + %d); sink += r; return r ^ %d; }" % (name, prev, i + 1, i + 5))
        prev = name
    L += ["NOINL long after(long x) { return x ^ 0x5a5a; }",
          "NOINL void finish_now(void) { sink++; }",
          "static void *worker(void *arg) { long r = %s((long)(intptr_t)arg); r += after(r); return (void *)(intptr_t)r; }" % prev,
          "static void *firer(void *arg) { while (atomic_load(&parked) < (int)(intptr_t)arg) sink++; finish_now(); atomic_store(&go, 1); return (void *)(intptr_t)after(99); }",
          "int main(void)", "{", "  pthread_t th[4], ft; void *res; unsigned long long dg = 1469598103934665603ULL; char line[96]; int i;",
          "  for (i = 0; i < %d; i++) if (pthread_create(&th[i], NULL, worker, (void *)(intptr_t)(41 + i)) != 0) return 2;" % nworkers]
    if by_worker:
        L.append("  if (pthread_create(&ft, NULL, firer, (void *)(intptr_t)%d) != 0) return 2;" % nworkers)
    else:
        L += ["  while (atomic_load(&parked) < %d) sink++;" % nworkers, "  finish_now();", "  atomic_store(&go, 1);"]
    L += ["  for (i = 0; i < %d; i++) { pthread_join(th[i], &res); dg = (dg ^ (unsigned long long)(intptr_t)res) * 1099511628211ULL; }" % nworkers]
    if by_worker:
        L.append("  pthread_join(ft, &res); dg = (dg ^ (unsigned long long)(intptr_t)res) * 1099511628211ULL;")
    L += ["  dg = (dg ^ (unsigned long long)after((long)dg & 0xffff)) * 1099511628211ULL;",
          "  snprintf(line, sizeof line, \"DIGEST main %016llx\\n\", dg);", "  report(line);", "  return (int)(dg % 100u);", "}"]
    return "\n".join(L) + "\n", {"nworkers": nworkers, "chain": chain, "tail": tail, "by_worker": by_worker}


def gen_finish_lib_program(rng, modeflags, opt):
    """Like gen_finish_program, but the parked function's return slot is shared by a PLT-hook entry and an mcount entry:
    variant `lib`: the parked function lives in an instrumented shared library and is called through the PLT of the
    executable (directly, or tail-called through the PLT by a chain of instrumented hops: kinds M..M,P,M on one slot);
    variant `cb`: an uninstrumented library function tail-calls (jmp) an instrumented callback of the executable (P,M).
    The other thread fires the `finish` trigger; the first hook the worker meets afterwards is the parked function's exit
    hook, which must hand back the program's own return address whatever trampoline the entry saved.
    -> (files, build commands, description)"""
    variant = rng.choice(["lib", "lib", "cb"])
    nworkers = rng.choice([1, 2, 3])
    chain = rng.choice([0, 0, 1, 2])
    tail = rng.random() < 0.7
    by_worker = nworkers > 1 and rng.random() < 0.4
    park = "long parkfn(long x) { atomic_fetch_add(&parked, 1); while (!atomic_load(&go)) sink++; return x * 7 + 3; }"
    lib = ["#include <stdatomic.h>", "atomic_int parked; atomic_int go; volatile unsigned long sink;"]
    main = ["#include <pthread.h>", "#include <stdatomic.h>", "#include <stdio.h>", "#include <stdlib.h>", "#include <stdint.h>",
            "#define NOINL __attribute__((noinline))", FIN_REPORT,
            "extern atomic_int parked; extern atomic_int go; extern volatile unsigned long sink;"]
    if variant == "lib":
        lib.append("__attribute__((noinline)) " + park)
        main.append("extern long parkfn(long x);")
        prev = "parkfn"
    else:
        lib.append("long apply(long (*cb)(long), long x) { sink += 1; return cb(x + 2); }")       # -O2: jmp *%rdi
        main += ["extern long apply(long (*cb)(long), long x);", "NOINL " + park,
                 "NOINL long viaapply(long x) { %s }" % ("return apply(parkfn, x);" if tail else "long r = apply(parkfn, x); sink += r; return r ^ 9;")]
        prev = "viaapply"
    for i in range(chain):
        name = "hop%d" % i
        if tail:
            main.append("NOINL long %s(long x) { sink += x; return %s(x + %d); }" % (name, prev, i + 1))
        else:
            main.append("NOINL long %s(long x) { long r; sink += x; r = %s(x + %d); sink += r; return r ^ %d; }" % (name, prev, i + 1, i + 5))
        prev = name
    main += ["NOINL long after(long x) { return x ^ 0x5a5a; }",
             "NOINL void finish_now(void) { sink++; }",
             "static void *worker(void *arg) { long r = %s((long)(intptr_t)arg); r += after(r); return (void *)(intptr_t)r; }" % prev,
             "static void *firer(void *arg) { while (atomic_load(&parked) < (int)(intptr_t)arg) sink++; finish_now(); atomic_store(&go, 1); return (void *)(intptr_t)after(99); }",
             "int main(void)", "{", "  pthread_t th[4], ft; void *res; unsigned long long dg = 1469598103934665603ULL; char line[96]; int i;",
             "  for (i = 0; i < %d; i++) if (pthread_create(&th[i], NULL, worker, (void *)(intptr_t)(41 + i)) != 0) return 2;" % nworkers]
    if by_worker:
        main.append("  if (pthread_create(&ft, NULL, firer, (void *)(intptr_t)%d) != 0) return 2;" % nworkers)
    else:
        main += ["  while (atomic_load(&parked) < %d) sink++;" % nworkers, "  finish_now();", "  atomic_store(&go, 1);"]
    main += ["  for (i = 0; i < %d; i++) { pthread_join(th[i], &res); dg = (dg ^ (unsigned long long)(intptr_t)res) * 1099511628211ULL; }" % nworkers]
    if by_worker:
        main.append("  pthread_join(ft, &res); dg = (dg ^ (unsigned long long)(intptr_t)res) * 1099511628211ULL;")
    main += ["  dg = (dg ^ (unsigned long long)after((long)dg & 0xffff)) * 1099511628211ULL;",
             "  snprintf(line, sizeof line, \"DIGEST main %016llx\\n\", dg);", "  report(line);", "  return (int)(dg % 100u);", "}"]
    flags = " ".join(modeflags)
    build = ["gcc -O2 -w -fPIC -shared %s -o libwork.so libwork.c" % (flags if variant == "lib" else ""),
             "gcc %s -g -w %s -o prog main.c -L. -lwork -Wl,-rpath,$PWD -pthread" % (opt, flags)]
    return ({"libwork.c": "\n".join(lib) + "\n", "main.c": "\n".join(main) + "\n"}, build,
            {"nworkers": nworkers, "chain": chain, "tail": tail, "by_worker": by_worker, "lib": variant})
