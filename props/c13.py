"""C13 - Symbol demangling is total, safe and correct for compiler-produced names.

Theorems: coq/theories/Properties_C13.v over coq/theories/C13/Model.v, a function-by-function
model of utils/demangle.c (demangle_simple and all dd_* parsers, faults and non-termination
included).
Tie: harness/c/c13_harness.c links utils/demangle.o of the ASan+UBSan scratch build of /repo's
current tree; every generated name goes through the real demangle() and through the model
(inside Coq, vm_compute); Coq lists the names where they differ and the names where the
executable property checker rejects the implementation's result.
Streams: (a) names the installed g++/clang++ produce for a generated declaration corpus (the
generator knows the qualified name; c++filt -p is a second oracle) and hand-made Rust-legacy
names, (b) grammar-directed random manglings, (c) mutations / truncations / random bytes, plus
every plain string the implementation returned (idempotence).
"""
import os
import re
import subprocess

from vf import build, coq
from vf.core import REPO, sh

HERE = os.path.dirname(os.path.abspath(__file__))
HARNESS = os.path.join(HERE, "../harness/c/c13_harness.c")

ENV = {"ASAN_OPTIONS": "detect_leaks=0:abort_on_error=0:allocator_may_return_null=0",
       "UBSAN_OPTIONS": "halt_on_error=1:print_stacktrace=0"}


# ---------------------------------------------------------------- implementation side
def build_harness(ctx):
    objdir = build.get_build("asan", ctx.log)
    exe = os.path.join(ctx.scratch, "c13_harness")
    objs = [os.path.join(objdir, "utils", o) for o in ("demangle.o", "debug.o", "utils.o")]
    build.cc([HARNESS] + objs, exe, objdir,
             extra=["-fsanitize=address,undefined", "-ldl", "-pthread", "-lstdc++"])
    return objdir, exe


def run_impl(exe, names):
    """names: list of bytes.  Returns list of ('S', bytes) | ('N',) | ('C', diagnostic) | ('T',)
    (+ flag 'W' appended when the input buffer was modified)."""
    res = []
    i = 0
    env = dict(os.environ)
    env.update(ENV)
    while i < len(names):
        chunk = names[i:]
        inp = "".join(n.hex() + "\n" for n in chunk)
        try:
            p = subprocess.run([exe], input=inp.encode(), stdout=subprocess.PIPE, stderr=subprocess.PIPE,
                               env=env, timeout=60 + len(chunk) // 50)
            out, err, rc = p.stdout.decode(), p.stderr.decode(errors="replace"), p.returncode
        except subprocess.TimeoutExpired as ex:
            out = (ex.stdout or b"").decode()
            err, rc = "wall-clock timeout of the harness process", 124
        lines = out.splitlines()
        done = 0
        timed_out = False
        for ln in lines:
            w = ln.startswith("W ")
            if w:
                ln = ln[2:]
            if ln == "T":
                res.append(("T",))
                done += 1
                timed_out = True
                break
            if ln == "N":
                res.append(("N", w) if w else ("N",))
            elif ln.startswith("R"):
                res.append(("S", bytes.fromhex(ln[2:].strip()), w) if w else ("S", bytes.fromhex(ln[2:].strip())))
            else:
                raise RuntimeError("c13 harness printed %r" % ln)
            done += 1
        if done < len(chunk) and not timed_out:
            # the process died inside case `done`
            diag = [l for l in err.splitlines() if "runtime error" in l or "ERROR: AddressSanitizer" in l
                    or "SUMMARY" in l or "xrealloc" in l or "xmalloc" in l]
            res.append(("C", "rc=%s %s" % (rc, " | ".join(diag[:3]) or err[-300:])))
            done += 1
        if done == 0:
            raise RuntimeError("c13 harness made no progress: rc=%s %s" % (rc, err[-500:]))
        i += done
    return res


# ---------------------------------------------------------------- Coq side
PRE = """From Coq Require Import ZArith List Bool.
Import ListNotations.
Require Import UV.C13.Model.
Local Open Scope Z_scope.
"""


def zl(b):
    return "[" + ";".join("%d" % x for x in b) + "]"


def impl_term(r):
    if r[0] == "S":
        return "IStr " + zl(r[1])
    return {"N": "INull", "C": "ICrash", "T": "IHang"}[r[0]]


def evaluate(ctx, cases, name="cases"):
    """cases: list of dict(name=bytes, impl=tuple, want=bytes|None).
    Returns dict: mismatch, violations, wrong (indices), cls (model class per case)."""
    defs = "Definition cases : list (list Z * impl) := [\n%s\n].\n" % ";\n".join(
        "(%s, %s)" % (zl(c["name"]), impl_term(c["impl"])) for c in cases)
    wants = [(i, c) for i, c in enumerate(cases) if c.get("want") is not None]
    defs += "Definition wants : list (nat * list Z * impl) := [\n%s\n].\n" % ";\n".join(
        "(%d%%nat, %s, %s)" % (i, zl(c["want"]), impl_term(c["impl"])) for i, c in wants)
    res = coq.run_cases(ctx, name, PRE, defs, [
        ("mismatch", "bad_indices (fun c => agrees (fst c) (snd c)) cases 0"),
        ("violations", "bad_indices (fun c => ok_total (fst c) (snd c)) cases 0"),
        ("wrong", "map (fun w => fst (fst w)) (filter (fun w => negb (ok_expected (snd (fst w)) (snd w))) wants)"),
        ("cls", "map (fun c => model_class (fst c)) cases"),
    ])
    if res is None:
        return None
    return {k: coq.parse_nat_list(v) for k, v in res.items()}


def model_of(ctx, names, name="model"):
    """the model's own answer for a list of names (used by replay / diagnostics)"""
    defs = "Definition names : list (list Z) := [\n%s\n].\n" % ";\n".join(zl(n) for n in names)
    res = coq.run_cases(ctx, name, PRE, defs, [("out", "map demangle names")])
    return None if res is None else res["out"]


# ---------------------------------------------------------------- witnesses of the repaired defects
# Names on which the code as found crashed / hung / returned NULL (theorems *_legacy_refuted of
# Properties_C13.v).  They are ordinary corpus cases now: a regression makes the checker reject the
# implementation's result -> VIOLATION.
LEGACY_WITNESSES = [
    b"_ZC1v", b"_ZD0v", b"_ZNC1Ev",                       # ctor/dtor code without a name: NULL output buffer
    b"_Z2147483647x", b"_ZN2147483646aE",                 # int overflow in the source-name length test
    b"_Z3a$C", b"_Z1$u20$xx", b"_ZN3a$C3fooE",            # rust `$` escape running over the name
    b"_ZT", b"_ZTh", b"_ZTC",                             # strchr matched the terminator
    b"_Z1aD", b"_Z1aT", b"_Z1aPD",                        # dd_type made no progress: endless loop
    b"_ZUt_", b"_GLOBAL__sub_I__ZUt_", b"_GLOBAL__sub_I__Z17h0123456789abcdef",   # NULL result
    b"_ZUlvE2147483647_", b"_ZN1aUlvE2147483647_E",       # lambda numbered INT_MAX: n + 1 overflowed
]


# ---------------------------------------------------------------- stream (a): compiler-produced names
KEYWORDS = set("""alignas alignof and and_eq asm auto bitand bitor bool break case catch char class compl const
constexpr const_cast continue decltype default delete do double dynamic_cast else enum explicit export extern false
float for friend goto if inline int long mutable namespace new noexcept not not_eq nullptr operator or or_eq private
protected public register reinterpret_cast return short signed sizeof static static_assert static_cast struct switch
template this thread_local throw true try typedef typeid typename union unsigned using virtual void volatile wchar_t
while xor xor_eq fn mod pub use let impl self crate super as in loop match move ref type where unsafe dyn trait""".split())

# operator token -> (declaration inside `struct C`, definition text maker)
MEMBER_OPS = [
    ("==", "bool operator==(const {C}&) const", "return true;"),
    ("!=", "bool operator!=(const {C}&) const", "return false;"),
    ("<", "bool operator<(const {C}&) const", "return false;"),
    (">", "bool operator>(const {C}&) const", "return false;"),
    ("<=", "bool operator<=(const {C}&) const", "return false;"),
    (">=", "bool operator>=(const {C}&) const", "return false;"),
    ("+=", "{C}& operator+=(int)", "return *this;"),
    ("-=", "{C}& operator-=(int)", "return *this;"),
    ("*=", "{C}& operator*=(int)", "return *this;"),
    ("/=", "{C}& operator/=(int)", "return *this;"),
    ("%=", "{C}& operator%=(int)", "return *this;"),
    ("&=", "{C}& operator&=(int)", "return *this;"),
    ("|=", "{C}& operator|=(int)", "return *this;"),
    ("^=", "{C}& operator^=(int)", "return *this;"),
    ("<<=", "{C}& operator<<=(int)", "return *this;"),
    (">>=", "{C}& operator>>=(int)", "return *this;"),
    ("=", "{C}& operator=(int)", "return *this;"),
    ("+", "int operator+(int) const", "return 0;"),
    ("-", "int operator-(int) const", "return 0;"),
    ("*", "int operator*(int) const", "return 0;"),
    ("/", "int operator/(int) const", "return 0;"),
    ("%", "int operator%(int) const", "return 0;"),
    ("&", "int operator&(int) const", "return 0;"),
    ("|", "int operator|(int) const", "return 0;"),
    ("^", "int operator^(int) const", "return 0;"),
    ("<<", "int operator<<(int) const", "return 0;"),
    (">>", "int operator>>(int) const", "return 0;"),
    ("~", "int operator~() const", "return 0;"),
    ("!", "bool operator!() const", "return true;"),
    ("&&", "bool operator&&(int) const", "return true;"),
    ("||", "bool operator||(int) const", "return true;"),
    ("++", "{C}& operator++()", "return *this;"),
    ("--", "{C}& operator--()", "return *this;"),
    (",", "int operator,(int) const", "return 0;"),
    ("->*", "int operator->*(int) const", "return 0;"),
    ("->", "{C}* operator->()", "return this;"),
    ("()", "int operator()(int, char)", "return 0;"),
    ("[]", "int operator[](int)", "return 0;"),
    (" new", "void* operator new(unsigned long) noexcept", "return 0;"),
    (" new[]", "void* operator new[](unsigned long) noexcept", "return 0;"),
    (" delete", "void operator delete(void*) noexcept", ""),
    (" delete[]", "void operator delete[](void*) noexcept", ""),
]
OP_TOKENS = sorted([o for o, _, _ in MEMBER_OPS], key=len, reverse=True)
PARAM_TYPES = ["int", "char", "bool", "long", "unsigned", "double", "float", "short", "unsigned char", "long long",
               "unsigned long", "wchar_t", "char*", "const char*", "int&", "const int&", "void*", "int**", "int&&",
               "long double", "signed char", "unsigned short", "__int128", "int(*)(char)", "int[3]", "..."]


class Ident:
    def __init__(self, rng):
        self.rng, self.n = rng, 0

    def new(self, lo=1, hi=12):
        rng = self.rng
        self.n += 1
        ln = rng.choice([lo, lo, 2, 3, 5, 8, 9, 10, 11, hi, rng.randrange(lo, hi + 1)])
        if rng.random() < 0.03:
            ln = rng.choice([99, 100, 101, 130])
        body = "".join(rng.choice("abcdefghijklmnopqrstuvwxyzABCDEFGHIJKLMNOPQRSTUVWXYZ_0123456789") for _ in range(ln))
        s = rng.choice("abcdefghijklmnopqrstuvwxyzABCDEFGHIJKLMNOPQRSTUVWXYZ") + body + "%d" % self.n
        s = s[:max(ln, len("%d" % self.n) + 1)] if len(s) > ln + 6 else s
        if s in KEYWORDS or not s[-len("%d" % self.n):] == "%d" % self.n:
            s = "q" + s + "%d" % self.n
        return s


def gen_cxx(rng, nclasses, nfuncs, nsubst=1):
    """returns (source text, set of expected simplified qualified names)"""
    ids = Ident(rng)
    out, want = [], set()

    def params():
        ps = [rng.choice(PARAM_TYPES) for _ in range(rng.randrange(0, 4))]
        if "..." in ps:
            ps = [p for p in ps if p != "..."] + ["..."]
            if len(ps) == 1:
                ps = ["int", "..."]
        return ", ".join(ps)

    def emit_scope(depth, path):
        nonlocal nclasses, nfuncs
        for _ in range(rng.randrange(1, 4)):
            kind = rng.random()
            if kind < 0.25 and depth < 4:
                n = ids.new()
                out.append("namespace %s {" % n)
                emit_scope(depth + 1, path + [n])
                out.append("}")
            elif kind < 0.65 and nclasses > 0:
                nclasses -= 1
                emit_class(path)
            elif nfuncs > 0:
                nfuncs -= 1
                f = ids.new()
                if rng.random() < 0.3:
                    out.append("template<class T, int N> T %s(T t) { return t; }" % f)
                    out.append("template int %s<int, %d>(int);" % (f, rng.randrange(0, 99)))
                    out.append("template char* %s<char*, %d>(char*);" % (f, rng.randrange(0, 9)))
                else:
                    out.append("void %s(%s) {}" % (f, params()))
                want.add("::".join(path + [f]))

    def emit_class(path):
        c = ids.new()
        tmpl = rng.random() < 0.35
        head = "template<class T> " if tmpl else ""
        q = "%s<T>" % c if tmpl else c
        decls, defs = [], []
        full = path + [c]

        def member(decl_in, def_out, name, body):
            decls.append(decl_in + ";")
            defs.append("%s%s { %s }" % (head, def_out, body))
            want.add("::".join(full + [name]))
        for _ in range(rng.randrange(1, 3)):
            ps = params().replace("...", "int")
            if ps in [d[len(c) + 1:-2] for d in decls if d.startswith(c + "(")]:
                continue
            member("%s(%s)" % (c, ps), "%s::%s(%s)" % (q, c, ps), c, "")
        if rng.random() < 0.8:
            member("~%s()" % c, "%s::~%s()" % (q, c), "~" + c, "")
        for _ in range(rng.randrange(0, 4)):
            m = ids.new()
            cv = rng.choice(["", "", " const", " volatile"])
            ps = params()
            member("void %s(%s)%s" % (m, ps, cv), "void %s::%s(%s)%s" % (q, m, ps, cv), m, "")
        # ref-qualified member functions: N [r V K] [R | O] <prefix> ... E   (the R/O of <nested-name>)
        refq = []
        for _ in range(rng.choice([0, 1, 1, 2, 3])):
            m = ids.new()
            cv = rng.choice([" &", " &&", " const &", " const &&", " volatile &", " volatile &&", " const volatile &&"])
            ps = params()
            member("int %s(%s)%s" % (m, ps, cv), "int %s::%s(%s)%s" % (q, m, ps, cv), m, "return 0;")
            refq.append((m, ps, cv))
        used_ops = set()
        if rng.random() < 0.5:
            op, cv = rng.choice(["+", "-", "*", "==", "[]", "()", "<<", "+=", "->"]), rng.choice([" &", " &&", " const &", " const &&"])
            arg = "" if op == "->" else "int"
            used_ops.add(op)
            member("int operator%s(%s)%s" % (op, arg, cv), "int %s::operator%s(%s)%s" % (q, op, arg, cv), "operator" + op, "return 0;")
        if rng.random() < 0.5:
            m = ids.new()
            ps = params()
            decls.append("static int %s(%s);" % (m, ps))
            defs.append("%sint %s::%s(%s) { return 0; }" % (head, q, m, ps))
            want.add("::".join(full + [m]))
        for op, decl, body in rng.sample(MEMBER_OPS, rng.randrange(0, 6)):
            if op in used_ops:
                continue
            d = decl.replace("{C}", q if tmpl else c)
            decls.append(d + ";")
            ret, rest = d.split(" operator", 1)
            defs.append("%s%s %s::operator%s { %s }" % (head, ret, q, rest, body))
            want.add("::".join(full + ["operator" + op]))
        if not tmpl and rng.random() < 0.4:
            m = ids.new()
            decls.append("template<class U> void %s(U);" % m)
            defs.append("template<class U> void %s::%s(U) {}" % (c, m))
            defs.append("template void %s::%s<int>(int);" % (c, m))
            defs.append("template void %s::%s<%s*>(%s*);" % (c, m, c, c))
            want.add("::".join(full + [m]))
        # conversion operators: uftrace's simplified form is operator(cast)
        if rng.random() < 0.4:
            for ct, cv in rng.sample([("int", ""), ("const char*", " const"), ("bool", " const"), ("long long", ""), ("double", " const &")], 2):
                decls.append("operator %s()%s;" % (ct, cv))
                defs.append("%s%s::operator %s()%s { return 0; }" % (head, q, ct, cv))
            want.add("::".join(full + ["operator(cast)"]))
        # a nested class
        nested = []
        if rng.random() < 0.3:
            n = ids.new()
            m = ids.new()
            decls.append("struct %s { %s(); void %s(int); };" % (n, n, m))
            defs.append("%s%s::%s::%s() {}" % (head, q, n, n))
            defs.append("%svoid %s::%s::%s(int) {}" % (head, q, n, m))
            want.add("::".join(full + [n, n]))
            want.add("::".join(full + [n, m]))
        out.append("%sstruct %s { %s };" % (head, c, " ".join(decls)))
        out.extend(defs)
        if refq and not tmpl:
            m, ps, cv = rng.choice(refq)
            f = ids.new()
            out.append("void %s(int (%s::*)(%s)%s, %s) {}" % (f, c, ps, cv, rng.choice(PARAM_TYPES[:12])))
            want.add("::".join(path + [f]))
        if tmpl:
            out.append("template struct %s<int>;" % c)
            out.append("template struct %s<%s<char*> >;" % (c, c))

    def subst_stress(path):
        """functions whose parameter lists create many substitution candidates and then reuse them:
        <seq-id> is base 36 (S_, S0_ .. S9_, SA_ .. SZ_, S10_ ..)"""
        k = rng.choice([10, 19, 24, 40])
        qs = [ids.new(2, 6) for _ in range(k)]
        out.append(" ".join("struct %s {};" % q for q in qs))
        for _ in range(2):
            f = ids.new()
            first = ["%s*" % q for q in qs[:rng.randrange(k // 2, k + 1)]]
            reuse = [rng.choice(["%s*", "%s&", "const %s*", "%s**", "%s"]) % rng.choice(qs) for _ in range(rng.randrange(3, 9))]
            out.append("void %s(%s) {}" % (f, ", ".join(first + reuse)))
            want.add("::".join(path + [f]))
        c = ids.new()
        m = ids.new()
        args = ", ".join(["%s&" % q for q in qs] + ["%s&" % rng.choice(qs[k // 2:]) for _ in range(4)])
        out.append("struct %s { void %s(%s) const; %s(%s); };" % (c, m, args, c, args))
        out.append("void %s::%s(%s) const {}" % (c, m, args))
        out.append("%s::%s(%s) {}" % (c, c, args))
        want.add("::".join(path + [c, m]))
        want.add("::".join(path + [c, c]))

    top = ids.new()
    out.append("namespace %s {" % top)
    while nclasses > 0 or nfuncs > 0:
        emit_scope(1, [top])
    # literal operators (simplified form operator""), an anonymous namespace (_GLOBAL__N_1) and static functions
    for suf, ty in (("_" + ids.new(1, 5), "long double"), ("_" + ids.new(1, 5), "unsigned long long"), ("_" + ids.new(1, 5), "const char*")):
        out.append("%s operator\"\" %s(%s x) { return x; }" % (ty, suf, ty))
    want.add("::".join([top, 'operator""']))
    an_c, an_m, an_f, st_f, user = ids.new(), ids.new(), ids.new(), ids.new(), ids.new()
    out.append("namespace { struct %s { void %s(int); }; void %s::%s(int) {} void %s(char*) {} }" % (an_c, an_m, an_c, an_m, an_f))
    out.append("static void %s(long) {}" % st_f)
    out.append("void %s() { %s h; h.%s(1); %s(0); %s(1); }" % (user, an_c, an_m, an_f, st_f))
    want.update(["::".join([top, "_GLOBAL__N_1", an_c, an_m]), "::".join([top, "_GLOBAL__N_1", an_f]),
                 "::".join([top, st_f]), "::".join([top, user])])
    for _ in range(nsubst):
        sub = ids.new()
        out.append("namespace %s {" % sub)
        subst_stress([top, sub])
        out.append("}")
    out.append("}")
    return "\n".join(out) + "\n", want


def strip_targs(s):
    """remove template-argument lists from a c++filt name, keeping operator tokens"""
    out, i, n = [], 0, len(s)
    while i < n:
        if s.startswith("operator", i) and (i == 0 or not (s[i - 1].isalnum() or s[i - 1] == "_")):
            j = i + 8
            for t in OP_TOKENS:
                if s.startswith(t, j):
                    out.append("operator" + t)
                    i = j + len(t)
                    break
            else:
                out.append("operator")
                i = j
            if s.startswith(" <", i):          # "operator< <char, ...>"
                i += 1
            continue
        if s[i] == "<":
            d = 0
            while i < n:
                if s.startswith("operator", i):      # not expected inside our argument lists
                    pass
                if s[i] == "<":
                    d += 1
                elif s[i] == ">":
                    d -= 1
                    if d == 0:
                        i += 1
                        break
                i += 1
            continue
        out.append(s[i])
        i += 1
    return "".join(out)


def uftrace_form(name):
    """the simplifications utils/demangle.c makes by design: conversion operators print as operator(cast), literal
    operators as operator"", the anonymous namespace as _GLOBAL__N_1"""
    name = name.replace("(anonymous namespace)", "_GLOBAL__N_1")
    name = re.sub(r'operator"" \w+', 'operator""', name)
    m = re.search(r"(^|::)operator (?!new|delete)", name)
    if m:
        name = name[:m.end() - 1] + "(cast)"
    return name


def cxx_corpus(ctx, nclasses, nfuncs, nsubst=1):
    """compile a generated translation unit with g++ and clang++; returns list of (mangled, want|None)"""
    rng = ctx.rng
    src, want = gen_cxx(rng, nclasses, nfuncs, nsubst)
    d = os.path.join(ctx.scratch, "cxx")
    os.makedirs(d, exist_ok=True)
    cc_file = os.path.join(d, "corpus.cc")
    open(cc_file, "w").write(src)
    names = {}
    for comp in ("g++", "clang++"):
        obj = os.path.join(d, comp + ".o")
        rc, o, e = sh([comp, "-std=c++17", "-w", "-O0", "-c", cc_file, "-o", obj], timeout=120)
        if rc != 0:
            ctx.broken("corpus generator produced C++ that %s rejects" % comp, e[-1500:])
            continue
        rc, o, e = sh(["nm", "--defined-only", obj], timeout=60)
        for ln in o.splitlines():
            f = ln.split()
            if f and f[-1].startswith("_Z"):
                names.setdefault(f[-1], set()).add(comp)
    ms = sorted(names)
    rc, o, e = sh(["c++filt", "-p"], input="\n".join(ms) + "\n", timeout=60)
    filt = o.splitlines()
    res = []
    unmatched = 0
    for m, f in zip(ms, filt):
        red = uftrace_form(strip_targs(f))
        if red in want:
            res.append((m.encode(), red.encode(), sorted(names[m])))
        else:
            unmatched += 1
            res.append((m.encode(), None, sorted(names[m])))
    ctx.extra["corpus_cxx"] = {"symbols": len(ms), "with_oracle": len(ms) - unmatched, "declared_names": len(want)}
    return res


STD_SNIPPETS = [
    ("void {m}(const {R}& r)", "{v}.push_back(r); {mp}[r.name] = std::make_shared<{R}>(r);"),
    ("std::optional<{R}> {m}(const std::string& n) const",
     "auto it = {mp}.find(n); if (it == {mp}.end()) return std::nullopt; return *it->second;"),
    ("void {m}()", "std::sort({v}.begin(), {v}.end()); std::reverse({v}.begin(), {v}.end());"),
    ("int {m}(int x) const", "int n = x; for (const auto& r : {v}) n += r.k; return n;"),
    ("std::vector<std::string> {m}() const", "std::vector<std::string> o; for (auto& kv : {mp}) o.push_back(kv.first); return o;"),
    ("void {m}(std::set<int>& s, std::list<{R}>& l)", "for (auto& r : l) s.insert(r.k); l.clear();"),
    ("std::tuple<int, std::string, {R}*> {m}(std::deque<{R}>& d)", "return std::make_tuple(d.front().k, d.front().name, &d.front());"),
    ("std::unique_ptr<{R}> {m}(int k)", "auto p = std::make_unique<{R}>(); p->k = k; return p;"),
    ("bool {m}(const std::pair<int, {R}>& a, const std::pair<int, {R}>& b) const", "return a.first < b.first || a.second < b.second;"),
    ("void {m}(std::function<void({R}&)> f)", "for (auto& r : {v}) f(r);"),
    ("std::map<int, std::vector<{R}>> {m}() const", "std::map<int, std::vector<{R}>> o; for (auto& r : {v}) o[r.k].push_back(r); return o;"),
    ("std::string {m}(const std::string& a, const char* b) const", "return a + b + std::to_string({v}.size());"),
]


def gen_std(rng):
    """a translation unit that instantiates libstdc++ containers with generated user types"""
    ids = Ident(rng)
    ns, R, S = ids.new(2, 8), ids.new(2, 8), ids.new(2, 8)
    v, mp = ids.new(1, 4), ids.new(1, 4)
    lines = ["#include <vector>", "#include <string>", "#include <map>", "#include <set>", "#include <list>", "#include <deque>",
             "#include <tuple>", "#include <memory>", "#include <algorithm>", "#include <functional>", "#include <optional>",
             "namespace %s {" % ns,
             "struct %s { int k; std::string name; bool operator<(const %s& o) const { return k < o.k; } };" % (R, R)]
    decls, defs = [], []
    for sig, body in rng.sample(STD_SNIPPETS, rng.randrange(5, len(STD_SNIPPETS) + 1)):
        m = ids.new()
        fmt = dict(m=m, R=R, v=v, mp=mp)
        d = sig.format(**fmt)
        decls.append(d + ";")
        ret, rest = d.split(" " + m + "(", 1)
        defs.append("%s %s::%s(%s { %s }" % (ret, S, m, rest, body.format(**fmt)))
    lines.append("struct %s { std::vector<%s> %s; std::map<std::string, std::shared_ptr<%s>> %s; %s };"
                 % (S, R, v, R, mp, " ".join(decls)))
    lines += defs
    lines.append("}")
    return "\n".join(lines) + "\n"


PLAIN_NAME = re.compile(r"[A-Za-z_]\w*(::(~?[A-Za-z_]\w*|operator(%s)))*" % "|".join(re.escape(t) for t in OP_TOKENS))


def std_corpus(ctx):
    """symbols of a libstdc++-heavy translation unit; oracle = c++filt -p minus template arguments, only for
    ordinary functions (no special names, local names, lambdas, unnamed types, inheriting constructors, abi tags)"""
    d = os.path.join(ctx.scratch, "std")
    os.makedirs(d, exist_ok=True)
    cc_file = os.path.join(d, "std.cc")
    open(cc_file, "w").write(gen_std(ctx.rng))
    names = {}
    for comp in (("g++", "clang++") if ctx.thorough() else ("g++",)):
        obj = os.path.join(d, comp + ".o")
        rc, o, e = sh([comp, "-std=c++17", "-w", "-O0", "-c", cc_file, "-o", obj], timeout=180)
        if rc != 0:
            ctx.broken("std corpus generator produced C++ that %s rejects" % comp, e[-1500:])
            continue
        rc, o, e = sh(["nm", obj], timeout=60)
        for ln in o.splitlines():
            f = ln.split()
            if f and f[-1].startswith("_Z"):
                names.setdefault(f[-1], set()).add(comp)
    ms = sorted(names)
    rc, o, e = sh(["c++filt", "-p"], input="\n".join(ms) + "\n", timeout=60)
    res, n_or = [], 0
    for m, f in zip(ms, o.splitlines()):
        want = None
        if not re.match(r"_Z(T|G|Z|L?N?K?Z)", m) and not re.search(r"CI\d|U[lt]|B\d", m) and "{" not in f and "[abi:" not in f:
            red = strip_targs(f)
            if PLAIN_NAME.fullmatch(red):
                want = red.encode()
                n_or += 1
        res.append((m.encode(), want, sorted(names[m])))
    ctx.extra["corpus_std"] = {"symbols": len(ms), "with_oracle": n_or}
    return res


RUST_ESC = {"SP": "@", "BP": "*", "RF": "&", "LT": "<", "GT": ">", "LP": "(", "RP": ")", "C": ",", "u20": " ", "u22": '"',
            "u27": "'", "u2b": "+", "u3b": ";", "u3d": "=", "u5b": "[", "u5d": "]", "u7b": "{", "u7d": "}", "u7e": "~"}


def rust_legacy_expected(m):
    """expected simplified form of a rustc legacy symbol, following utils/demangle.c's documented conventions:
    the 17h<hash> component is dropped, `$XX$` escapes and `..` are translated, a leading `_` of a component is kept
    and ` as Trait` inside `<T as Trait>` is dropped.  None when the name is outside this (no oracle then)."""
    if not m.startswith("_ZN") or not m.endswith("E"):
        return None
    comps, i, body = [], 3, m[:-1]
    while i < len(body):
        j = i
        while j < len(body) and body[j].isdigit():
            j += 1
        if j == i:
            return None
        k = int(body[i:j])
        if j + k > len(body):
            return None
        comps.append(body[j:j + k])
        i = j + k
    if len(comps) < 2 or not re.fullmatch(r"h[0-9a-f]{16}", comps[-1]):
        return None
    outs = []
    for c in comps[:-1]:
        o, pos = "", 0
        while True:
            d = c.find("$", pos)
            if d < 0:
                if ".." in c[pos:] and pos > 0:
                    return None                   # text after the last escape is copied raw
                if ".." in c and pos == 0:
                    return None
                o += c[pos:]
                break
            o += c[pos:d].replace("..", "::")
            if c.startswith("$u20$as$u20$", d):
                o += ">"
                break
            e = c.find("$", d + 1)
            if e < 0 or c[d + 1:e] not in RUST_ESC:
                return None
            o += RUST_ESC[c[d + 1:e]]
            pos = e + 1
        outs.append(o)
    return "::".join(outs)


def rust_corpus(ctx, nfn):
    rng = ctx.rng
    ids = Ident(rng)
    crate = "c13" + ids.new(2, 6).lower()
    want = {}
    lines = []

    def emit_mod(depth, path):
        for _ in range(rng.randrange(1, 4)):
            k = rng.random()
            if k < 0.3 and depth < 4:
                m = ids.new().lower()
                lines.append("pub mod %s {" % m)
                emit_mod(depth + 1, path + [m])
                lines.append("}")
            elif k < 0.6:
                s = "S" + ids.new()
                lines.append("pub struct %s(pub u32);" % s)
                lines.append("impl %s {" % s)
                for _ in range(rng.randrange(1, 3)):
                    f = ids.new().lower()
                    lines.append(" #[inline(never)] pub fn %s(&self, x: u32) -> u32 { self.0 ^ x }" % f)
                    want["::".join(path + [s, f])] = 1
                lines.append("}")
            else:
                f = ids.new().lower()
                lines.append("#[inline(never)] pub fn %s(x: u32) -> u32 { x.wrapping_mul(%d) }" % (f, rng.randrange(3, 99)))
                want["::".join(path + [f])] = 1
    while len(want) < nfn:
        emit_mod(1, [crate])
    # traits, generic impls, closures: names with $LT$ .. $GT$, $u20$as$u20$, `..`, {{closure}}
    tr, st, pr, ar, gf, cf, dr = ("T" + ids.new(), "Q" + ids.new(), "P" + ids.new(), ids.new().lower(), ids.new().lower(),
                                  ids.new().lower(), ids.new().lower())
    lines += [
        "pub trait %s { fn %s(&self) -> u32; fn dflt(&self) -> u32 { 7 } }" % (tr, ar),
        "pub struct %s(pub u32); pub struct %s<T>(pub T, pub T);" % (st, pr),
        "impl %s for %s { #[inline(never)] fn %s(&self) -> u32 { self.0 * self.0 } }" % (tr, st, ar),
        "impl<T: Copy + Into<u64>> %s for %s<T> { #[inline(never)] fn %s(&self) -> u32 { (self.0.into() + self.1.into()) as u32 } }" % (tr, pr, ar),
        "impl<'a> %s for &'a [u8] { #[inline(never)] fn %s(&self) -> u32 { self.len() as u32 } }" % (tr, ar),
        "impl %s for (u8, i16) { #[inline(never)] fn %s(&self) -> u32 { 3 } }" % (tr, ar),
        "impl %s for *const u8 { #[inline(never)] fn %s(&self) -> u32 { 4 } }" % (tr, ar),
        "impl %s for [u32; 4] { #[inline(never)] fn %s(&self) -> u32 { 5 } }" % (tr, ar),
        "#[inline(never)] pub fn %s<T: core::fmt::Debug>(t: T) -> usize { core::mem::size_of_val(&t) }" % gf,
        "#[inline(never)] pub fn %s(v: &[u32]) -> u32 { v.iter().map(|x| x + 1).filter(|x| *x > 2).sum() }" % cf,
        "#[inline(never)] pub fn %s() -> u32 { let p = %s(1u32, 2u32); let s: &[u8] = b\"ab\"; let a = [1u32; 4]; let q = 0 as *const u8;"
        " %s(3).%s() + p.%s() + s.%s() + (1u8, 2i16).%s() + q.%s() + a.%s() + %s(1u8) as u32 + %s(\"x\") as u32 + %s(&[1, 2, 3]) + %s(1).dflt() }"
        % (dr, pr, st, ar, ar, ar, ar, ar, ar, gf, gf, cf, st),
    ]
    d = os.path.join(ctx.scratch, "rust")
    os.makedirs(d, exist_ok=True)
    rs = os.path.join(d, "lib.rs")
    open(rs, "w").write("#![allow(non_snake_case, non_camel_case_types, dead_code)]\n" + "\n".join(lines) + "\n")
    obj = os.path.join(d, "lib.o")
    rc, o, e = sh(["rustc", "--crate-type=lib", "--crate-name", crate, "--emit=obj", "-C", "opt-level=0", "-o", obj, rs], timeout=120)
    if rc != 0:
        ctx.log("rustc not usable here (%s); Rust names come from the hand-made list only" % e[-300:].strip())
        return []
    rc, o, e = sh(["nm", "--defined-only", obj], timeout=60)
    res = []
    plain = escaped = 0
    for ln in o.splitlines():
        f = ln.split()
        if not f or not f[-1].startswith("_ZN"):
            continue
        m = f[-1]
        q = rust_legacy_expected(m)
        if q is not None and "$" not in m and ".." not in m and q.startswith(crate + "::") and q not in want \
                and not any(q.startswith(w + "::") for w in want) and q.split("::")[-1] not in (gf, cf, dr, "dflt"):
            q = None                                  # a plain path the generator did not declare
        if q is not None:
            if "$" in m:
                escaped += 1
            else:
                plain += 1
        res.append((m.encode(), q.encode() if q is not None else None, ["rustc"]))
    ctx.extra["corpus_rust"] = {"symbols": len(res), "with_oracle": plain + escaped, "with_escapes": escaped}
    return res


# names of utils/demangle.c's own unit tests (with their expected results) - a fixed part of the corpus
def unit_test_names():
    try:
        src = open(os.path.join(REPO, "utils/demangle.c")).read()
        src = src[src.index("#ifdef UNIT_TEST"):]
    except (OSError, ValueError):
        return []
    out = []
    for m in re.finditer(r'DEMANGLE_TEST\(\s*((?:"[^"]*"\s*)+),\s*((?:"(?:[^"\\]|\\.)*"\s*)+)\)', src):
        a = "".join(re.findall(r'"((?:[^"\\]|\\.)*)"', m.group(1)))
        out.append(a.encode())
    return out


# ---------------------------------------------------------------- stream (b): grammar-directed manglings
BUILTIN = "vwbcahstijlmxynofdegz"
OPS2 = ["nw", "na", "dl", "da", "ps", "ng", "ad", "de", "co", "pl", "mi", "ml", "dv", "rm", "an", "or", "eo", "aS", "pL",
        "mI", "mL", "dV", "rM", "aN", "oR", "eO", "ls", "rs", "lS", "rS", "eq", "ne", "lt", "gt", "le", "ge", "nt", "aa",
        "oo", "pp", "mm", "cm", "pm", "pt", "cl", "ix", "qu"]


class Gram:
    def __init__(self, rng, maxd=5):
        self.r, self.maxd = rng, maxd

    def ident(self):
        r = self.r
        k = r.random()
        if k < 0.04:
            return r.choice(["$_0", "a$LT$b$GT$", "x..y", "_$LT$T$u20$as$u20$a..B$GT$", "$u5b$u8$u5d$", "$RF$str",
                             "a$C$b", "$BP$mut$u20$T", "h0123456789abcdef", "a$u7b$$u7b$closure$u7d$$u7d$"])
        n = r.choice([1, 1, 2, 3, 4, 7, 9, 10, 11, 12, 17, 25])
        return r.choice("abcxyzABC_") + "".join(r.choice("abcdefghijklmnopqrstuvwxyz_0123456789ABCXYZ") for _ in range(n - 1))

    def src(self):
        s = self.ident()
        t = "%d%s" % (len(s), s)
        if self.r.random() < 0.06:
            t += "B" + self.src_plain()
        return t

    def src_plain(self):
        s = self.ident()
        return "%d%s" % (len(s), s)

    def number(self):
        r = self.r
        return r.choice(["0", "1", "7", "12", "n1", "n12", "255", "4096"])

    def seq(self):
        return self.r.choice(["", "0", "1", "9", "A", "Z", "10", "1B"])

    def subst(self):
        r = self.r
        return r.choice(["S_", "S%s_" % self.seq(), "St", "Sa", "Sb", "Ss", "Si", "So", "Sd"])

    def type(self, d=0):
        r = self.r
        if d > self.maxd:
            return r.choice(BUILTIN)
        k = r.random()
        if k < 0.30:
            return r.choice(BUILTIN)
        if k < 0.42:
            return r.choice(["P", "R", "O", "K", "V", "r", "C", "G", "PK", "RK"]) + self.type(d + 1)
        if k < 0.50:
            return self.name(d + 1)
        if k < 0.58:
            s = self.subst()
            if s == "St":
                s += self.src_plain()
            if r.random() < 0.3:
                s += self.targs(d + 1)
            return s
        if k < 0.64:
            return r.choice(["T_", "T0_", "T1_", "T12_"]) + (self.targs(d + 1) if r.random() < 0.1 else "")
        if k < 0.69:
            return "F" + r.choice(["", "Y"]) + "".join(self.type(d + 1) for _ in range(r.randrange(1, 4))) + r.choice(["", "", "R", "O"]) + "E"
        if k < 0.73:
            return "A" + r.choice(["", self.number().replace("n", ""), self.expr(d + 1)]) + "_" + self.type(d + 1)
        if k < 0.76:
            return "M" + self.type(d + 1) + self.type(d + 1)
        if k < 0.80:
            return "D" + r.choice("defhisacnu")
        if k < 0.83:
            return "Dp" + self.type(d + 1)
        if k < 0.86:
            return "D" + r.choice("tT") + self.expr(d + 1) + "E"
        if k < 0.88:
            return "Dv" + r.choice([self.number().replace("n", ""), "_" + self.expr(d + 1)]) + "_" + self.type(d + 1)
        if k < 0.91:
            return "T" + r.choice("sue") + self.name(d + 1)
        if k < 0.94:
            return "u" + self.src_plain()
        if k < 0.97:
            return "U" + self.src_plain() + (self.targs(d + 1) if r.random() < 0.3 else "") + self.type(d + 1)
        return self.targs(d + 1)

    def targ(self, d):
        r = self.r
        k = r.random()
        if d > self.maxd or k < 0.6:
            return self.type(d + 1)
        if k < 0.72:
            return "L" + r.choice(BUILTIN[1:]) + self.number() + "E"
        if k < 0.78:
            return "L_Z" + self.encoding(d + 1) + "E"
        if k < 0.88:
            return "X" + self.expr(d + 1) + "E"
        if k < 0.94:
            return "J" + "".join(self.targ(d + 1) for _ in range(r.randrange(0, 3))) + "E"
        return "L" + self.name(d + 1) + self.number() + "E"

    def targs(self, d=0):
        return "I" + "".join(self.targ(d + 1) for _ in range(self.r.randrange(1, 4))) + "E"

    def expr(self, d=0):
        r = self.r
        if d > self.maxd:
            return r.choice(["T_", "fp_", "Li1E", "L_Z1aE"])
        k = r.random()
        if k < 0.15:
            return r.choice(["T_", "T0_", "fp_", "fp0_", "fL0p_", "fL1p0_", "fpK_"])
        if k < 0.30:
            return "L" + r.choice(BUILTIN[1:]) + self.number() + "E"
        if k < 0.40:
            return r.choice(["ps", "ng", "ad", "de", "pp_", "mm_", "pp", "mm", "dl", "da", "te", "sz", "az", "nx", "sp", "tw", "nt"]) + self.expr(d + 1)
        if k < 0.52:
            op = r.choice(OPS2[9:-1])
            return op + self.expr(d + 1) + self.expr(d + 1)
        if k < 0.56:
            return "qu" + self.expr(d + 1) + self.expr(d + 1) + self.expr(d + 1)
        if k < 0.62:
            return "cl" + "".join(self.expr(d + 1) for _ in range(r.randrange(1, 3))) + "E"
        if k < 0.66:
            return "cv" + self.type(d + 1) + r.choice([self.expr(d + 1), "_" + self.expr(d + 1) + "E"])
        if k < 0.69:
            return r.choice(["tl", "il"]).replace("tl", "tl" + self.type(d + 1)) + self.expr(d + 1) + "E"
        if k < 0.72:
            return r.choice(["dc", "sc", "cc", "rc"]) + self.type(d + 1) + self.expr(d + 1)
        if k < 0.76:
            return r.choice(["ti", "st", "at"]) + self.type(d + 1)
        if k < 0.80:
            return r.choice(["dt", "pt"]) + self.expr(d + 1) + self.unresolved(d + 1)
        if k < 0.83:
            return "ds" + self.expr(d + 1) + self.expr(d + 1)
        if k < 0.86:
            return "sZ" + r.choice(["T_", "fp_"])
        if k < 0.89:
            return "sP" + "".join(self.targ(d + 1) for _ in range(r.randrange(0, 3))) + "E"
        if k < 0.91:
            return "tr"
        if k < 0.93:
            return "gs" + self.expr(d + 1)
        if k < 0.95:
            return r.choice(["nw", "na"]) + "_" + self.type(d + 1) + "E"
        return self.unresolved(d + 1)

    def unresolved(self, d):
        r = self.r
        k = r.random()
        sid = lambda: self.src_plain() + (self.targs(d + 1) if r.random() < 0.3 else "")
        if k < 0.3:
            return sid()
        if k < 0.45:
            return "sr" + r.choice(["T_", self.subst(), "DT" + self.expr(d + 1) + "E"]) + sid()
        if k < 0.6:
            return "srN" + self.type(d + 1) + "".join(sid() for _ in range(r.randrange(0, 3))) + "E" + sid()
        if k < 0.7:
            return "sr" + "".join(sid() for _ in range(r.randrange(1, 3))) + "E" + sid()
        if k < 0.8:
            return "on" + r.choice(OPS2) + (self.targs(d + 1) if r.random() < 0.3 else "")
        if k < 0.9:
            return "dn" + r.choice([self.src_plain(), "T_", self.subst()])
        return "gs" + sid()

    def unqualified(self, d, after_name=False):
        r = self.r
        k = r.random()
        if after_name and k < 0.18:
            return r.choice(["C1", "C2", "C3", "D0", "D1", "D2", "C5", "D5", "CI1" + self.type(d + 1), "CI2" + self.type(d + 1)])
        if k < 0.30:
            op = r.choice(OPS2 + ["cv" + self.type(d + 1), "li" + self.src_plain(), "v1" + self.src_plain()])
            return op
        if k < 0.34:
            return "Ut" + r.choice(["", "0", "12"]) + "_"
        if k < 0.40:
            return "Ul" + "".join(self.type(d + 1) for _ in range(r.randrange(1, 3))) + "E" + r.choice(["", "0", "3", "12"]) + "_"
        if k < 0.44:
            return "L" + self.src()
        return self.src()

    def nested(self, d):
        r = self.r
        s = "N" + r.choice(["", "", "", "K", "V", "r", "R", "O", "KR"])
        n = r.randrange(1, 5)
        k = r.random()
        if k < 0.15:
            s += self.subst()
        elif k < 0.2:
            s += r.choice(["T_", "T0_"])
        elif k < 0.23:
            s += "D" + r.choice("tT") + self.expr(d + 1) + "E"
        have = k < 0.23
        for i in range(n):
            s += self.unqualified(d, after_name=have or i > 0)
            have = True
            if r.random() < 0.25:
                s += self.targs(d + 1)
            if r.random() < 0.03:
                s += "M"
        return s + "E"

    def name(self, d=0):
        r = self.r
        k = r.random()
        if d > self.maxd:
            return self.src_plain()
        if k < 0.45:
            return self.nested(d)
        if k < 0.70:
            return self.unqualified(d) + (self.targs(d + 1) if r.random() < 0.3 else "")
        if k < 0.80:
            return "St" + self.unqualified(d) + (self.targs(d + 1) if r.random() < 0.3 else "")
        if k < 0.86:
            return self.subst() + (self.targs(d + 1) if r.random() < 0.6 else "")
        # local name
        enc = self.encoding(d + 1)
        t = r.random()
        if t < 0.6:
            return "Z" + enc + "E" + self.name(d + 1) + r.choice(["", "", "_0", "_3", "__12_"])
        if t < 0.8:
            return "Z" + enc + "Es" + r.choice(["", "_1"])
        return "Z" + enc + "Ed" + r.choice(["", "0", "2"]) + "_" + self.name(d + 1)

    def call_offset(self):
        r = self.r
        return r.choice(["h%s_" % self.number(), "v%s_%s_" % (self.number(), self.number())])

    def special(self, d):
        r = self.r
        k = r.random()
        if k < 0.35:
            return "T" + r.choice("VTIS") + self.type(d + 1)
        if k < 0.50:
            return "T" + self.call_offset() + self.encoding(d + 1)
        if k < 0.55:
            return "Tc" + self.call_offset() + self.call_offset() + self.encoding(d + 1)
        if k < 0.65:
            return "TC" + self.type(d + 1) + self.number().replace("n", "") + "_" + self.type(d + 1)
        if k < 0.75:
            return "T" + r.choice("HW") + self.name(d + 1)
        if k < 0.83:
            return "GV" + self.name(d + 1)
        if k < 0.90:
            return "GR" + self.name(d + 1) + self.seq() + "_"
        if k < 0.94:
            return "GA" + self.encoding(d + 1)
        return "GT" + r.choice("tn") + self.encoding(d + 1)

    def encoding(self, d=0):
        r = self.r
        if d <= self.maxd and r.random() < 0.12:
            return self.special(d)
        s = self.name(d)
        k = r.random()
        if k < 0.75:
            s += "".join(self.type(d + 1) for _ in range(r.randrange(1, 4)))
        return s

    def symbol(self):
        r = self.r
        s = "_Z" + self.encoding(0)
        k = r.random()
        if k < 0.05:
            s += r.choice([".part.0", ".constprop.17", ".isra.3", ".cold", ".lto_priv.0"])
        elif k < 0.09:
            s += r.choice(["@GLIBC_2.2.5", "@@GLIBCXX_3.4", "@plt"])
        if r.random() < 0.04:
            s = "_GLOBAL__sub_I_" + s
        return s.encode()


# ---------------------------------------------------------------- stream (a'): the formal mangler of the theorems
# mirrors ymangle / simple_name of coq/theories/C13/Roundtrip.v (theorem C13_roundtrip_typed_partial):
# the generator knows the qualified name, so a wrong or unchanged result is a failing input
B36 = "0123456789ABCDEFGHIJKLMNOPQRSTUVWXYZ"
OPNAMES = {"nw": " new", "na": " new[]", "dl": " delete", "da": " delete[]", "ps": "+", "ng": "-", "ad": "&", "de": "*", "co": "~",
           "pl": "+", "mi": "-", "ml": "*", "dv": "/", "rm": "%", "an": "&", "or": "|", "eo": "^", "aS": "=", "pL": "+=", "mI": "-=",
           "mL": "*=", "dV": "/=", "rM": "%=", "aN": "&=", "oR": "|=", "eO": "^=", "ls": "<<", "rs": ">>", "lS": "<<=", "rS": ">>=",
           "eq": "==", "ne": "!=", "lt": "<", "gt": ">", "le": "<=", "ge": ">=", "nt": "!", "aa": "&&", "oo": "||", "pp": "++",
           "mm": "--", "cm": ",", "pm": "->*", "pt": "->", "cl": "()", "ix": "[]", "qu": "?"}


def formal_name(rng):
    """returns (mangled bytes, expected simplified name bytes)"""
    def ident():
        n = rng.choice([1, 2, 3, 5, 8, 9, 10, 11, 16, 17, 18, 30])
        while True:
            s = rng.choice("abcxyzABCXYZ_") + "".join(rng.choice("abcdefghijklmnopqrstuvwxyzABCXYZ_0123456789") for _ in range(n - 1))
            if not re.fullmatch(r"h[0-9a-fA-F]{16}", s):
                return s

    def src(i):
        return "%d%s" % (len(i), i)

    def seq():
        k = rng.random()
        if k < 0.15:
            return ""
        if k < 0.55:
            return rng.choice(B36)
        if k < 0.8:
            return rng.choice("GHIJKLMNOPQRSTUVWXYZ")           # the 18th .. 37th candidate
        return rng.choice(B36[1:]) + "".join(rng.choice(B36) for _ in range(rng.randrange(1, 3)))

    def targs(d):
        """optional <targs> of the general grammar (theorem C13_roundtrip_general_partial)"""
        if d > 3 or rng.random() < 0.65:
            return ""
        out = "I"
        for _ in range(rng.randrange(0, 4)):
            if rng.random() < 0.25:
                out += "L" + rng.choice(BUILTIN) + str(rng.choice([1, 2, 3, 7, 10, 16, 255, 4096])) + "E"
            else:
                out += ty(d + 1)
        return out + "E"

    def nested_items(d):
        out = ""
        k = rng.random()
        if k < 0.35:
            out += "S" + seq() + "_" + targs(d)
        elif k < 0.6:
            out += "S" + rng.choice("tabsiod") + targs(d)
        for _ in range(rng.randrange(0 if out else 1, 4)):
            out += (src(ident()) if rng.random() < 0.85 else "S" + seq() + "_") + targs(d)
        return out

    def ty(d=0):
        q = "".join(rng.choice("rVKPROCG") for _ in range(rng.choice([0, 0, 0, 1, 1, 2, 3])))
        k = rng.random()
        if k < 0.3:
            return q + rng.choice(BUILTIN)
        if k < 0.5:
            return q + "S" + seq() + "_" + targs(d)
        if k < 0.6:
            return q + "S" + rng.choice("absiod") + targs(d)
        if k < 0.7:
            return q + "St" + src(ident()) + targs(d)
        if k < 0.82:
            return q + src(ident()) + targs(d)
        return q + "N" + nested_items(d) + "E"
    if rng.random() < 0.12:                              # _Z St <source-name> [<targs>] <type>*
        i = ident()
        return ("_ZSt" + src(i) + targs(0) + "".join(ty() for _ in range(rng.choice([0, 1, 2, 3])))).encode(), ("std::" + i).encode()
    quals = rng.choice(["", "", "", "K", "V", "R", "O", "KR", "KO", "VK", "VKO"])
    scopes = [ident() for _ in range(rng.randrange(1, 5))]
    enc = ""
    ABBR = {"t": "std", "a": "std::allocator", "b": "std::basic_string", "s": "std::basic_string<>", "i": "std::basic_istream",
            "o": "std::basic_ostream", "d": "std::basic_iostream"}
    names = []
    if rng.random() < 0.3:
        c = rng.choice("ttttabsiod")
        enc += "S" + c + targs(0)
        names.append(ABBR[c])
    for sc in scopes:
        enc += src(sc) + targs(0)
        names.append(sc)
    k = rng.random()
    name = "::".join(names)
    if k < 0.15:
        enc += "C" + rng.choice("123")
        name += "::" + scopes[-1]
    elif k < 0.3:
        enc += "D" + rng.choice("012")
        name += "::~" + scopes[-1]
    elif k < 0.5:
        op = rng.choice(sorted(OPNAMES))
        enc += op
        name += "::operator" + OPNAMES[op]
    tys = "".join(ty() for _ in range(rng.choice([0, 1, 1, 2, 3, 5, 8])))
    return ("_ZN" + quals + enc + "E" + tys).encode(), name.encode()


def formal_rust(rng):
    """a name of the grammar of theorem C13_roundtrip_rust_escapes_partial; expected value from rust_legacy_expected"""
    def txt(lo=0):
        return "".join(rng.choice("abcdefgxyzABCXYZ_0123456789") for _ in range(rng.randrange(lo, 7)))

    def block():
        return "".join(txt() + ".." for _ in range(rng.choice([0, 0, 1, 2, 3]))) + txt()
    comps = []
    for _ in range(rng.randrange(1, 4)):
        k = rng.random()
        if k < 0.4:
            c = rng.choice("abcxyz_") + txt()
        else:
            c = ""
            for _ in range(rng.randrange(1 if k < 0.8 else 0, 4)):
                c += block() + "$" + rng.choice(sorted(RUST_ESC)) + "$"
            if k < 0.8:
                c += rng.choice(["", txt(), txt() + "." + txt()])
            else:
                c += block() + "$u20$as$u20$" + rng.choice(["", "core..fmt..Debug$GT$", "x$LT$y", "a..b$"])
            if not c or c[0].isdigit() or "$u20$as$u20$" in c.split("$u20$as$u20$", 1)[0]:
                c = "_" + c
        comps.append(c)
    h = "h" + "".join(rng.choice("0123456789abcdef") for _ in range(16))
    m = "_ZN" + "".join("%d%s" % (len(c), c) for c in comps) + "17" + h + "E"
    return m, rust_legacy_expected(m)


def deep_names(depth):
    """nesting depth `depth` in each of the recursive productions"""
    d = depth
    return [
        ("_ZN" + "1a" * d + "E").encode(),
        ("_Z1f" + "I" * d + "i" + "E" * d + "v").encode(),
        ("_Z1f" + "P" * d + "i").encode(),
        ("_Z1fI" + "X" + "ng" * d + "Li1E" + "E" + "Ev").encode(),
        ("_Z" + "Z" * d + "1a" + "E1b" * d).encode(),
        ("_Z1f" + "F" * d + "v" + "E" * d).encode(),
        ("_ZN" + "1aI" * d + "i" + "E" * d + "1bEv").encode(),
        ("_Z1fI" + "J" * d + "E" * d + "Ev").encode(),
        ("_Z1f" + "A_" * d + "i").encode(),
        ("_Z1fIX" + "cl" * d + "E" * d + "EEv").encode(),
        ("_Z1f" + "M1a" * d + "i").encode(),
        ("_Z1fIX" + "qu" * d + "T_" * (2 * d + 1) + "EEv").encode(),
    ]


# ---------------------------------------------------------------- stream (c): mutation / truncation / noise
ALPHA = b"0123456789_ENZSTICDULJXFPRKVMABOGYWHstabdiovwxyzhjlmnfecgurpq$.@"
NUMBERS = [b"2147483647", b"2147483646", b"2147483648", b"4294967295", b"4294967296", b"4294967297",
           b"18446744073709551615", b"18446744073709551616", b"99999999999999999999999", b"0", b"00", b"01", b"08", b"010",
           b"0x", b"0x1", b"0x1f", b"0X1F", b"0xg", b"0b1", b"17", b"1", b"n1", b"n", b"9", b"2147483639", b"0x7fffffff",
           b"017777777777", b"0x100000003"]


def mutate(rng, s):
    k = rng.random()
    if not s:
        return bytes([rng.randrange(1, 256)])
    if k < 0.30:                      # truncation (the boundary class of Appendix B)
        return s[:rng.randrange(0, len(s) + 1)]
    if k < 0.45:                      # replace one byte by a grammar letter
        i = rng.randrange(len(s))
        return s[:i] + bytes([rng.choice(ALPHA)]) + s[i + 1:]
    if k < 0.55:                      # insert
        i = rng.randrange(len(s) + 1)
        return s[:i] + bytes([rng.choice(ALPHA)]) + s[i:]
    if k < 0.63:                      # delete
        i = rng.randrange(len(s))
        return s[:i] + s[i + 1:]
    if k < 0.75:                      # replace a number
        ms = list(re.finditer(rb"[0-9]+", s))
        if ms:
            m = rng.choice(ms)
            return s[:m.start()] + rng.choice(NUMBERS) + s[m.end():]
        return s + rng.choice(NUMBERS)
    if k < 0.82:                      # cut right after C / D / S / a digit
        idx = [i + 1 for i, c in enumerate(s) if c in b"CDSTUILN0123456789"]
        if idx:
            return s[:rng.choice(idx)]
        return s[:1]
    if k < 0.88:                      # splice two halves / duplicate a slice
        i, j = sorted((rng.randrange(len(s) + 1), rng.randrange(len(s) + 1)))
        return s[:j] + s[i:]
    if k < 0.92:                      # arbitrary byte (1..255)
        i = rng.randrange(len(s))
        return s[:i] + bytes([rng.randrange(1, 256)]) + s[i + 1:]
    if k < 0.95:
        return b"_GLOBAL__sub_I_" + s
    if k < 0.98:
        return s + rng.choice([b".part.0", b"@GLIBC_2.2.5", b".", b"@", b"E", b"_", b"$"])
    return s[2:] if s.startswith(b"_Z") else b"_Z" + s


def noise(rng):
    k = rng.random()
    n = rng.choice([0, 1, 2, 3, 5, 8, 16, 40])
    if k < 0.3:
        return bytes(rng.randrange(1, 256) for _ in range(n))
    if k < 0.6:
        return b"_Z" + bytes(rng.choice(ALPHA) for _ in range(n))
    if k < 0.7:
        return b"_GLOBAL__sub_I_" + bytes(rng.choice(ALPHA) for _ in range(n))
    if k < 0.8:
        return rng.choice([b"main", b"printf", b"_start", b"__libc_start_main", b"_R", b"_RNvC1a1b", b"_", b"_Z", b"_GLOBAL__sub_I_",
                           b"_GLOBAL__sub_I_x.cc", b"_ZZ", b"_ZN", b"_ZNE", b"_ZNEE", b"_ZS", b"_ZSt", b"_ZS_", b"_ZL", b"_ZU", b"_ZUl",
                           b"_ZI", b"_ZIE", b"_ZT_", b"_ZGV", b"_ZGR", b"_ZTh", b"_ZTc", b"_ZTC", b"_ZTCi", b"_ZTCi0", b"_ZTCi0_",
                           b"_Z0", b"_Z00", b"_Z1", b"_Z2a", b"_Z1a.", b"_Z1a@", b"_Z1aE", b"_Z.", b"_Z@", b"_ZE"])
    return b"_Z" + bytes(rng.choice(b"0123456789") for _ in range(rng.randrange(1, 24))) + bytes(rng.choice(ALPHA) for _ in range(n))


RUST_HANDMADE = [
    (b"_ZN8$BP$test3fooE", None), (b"_ZN3foo3bar17h05af221e174051e9E", b"foo::bar"),
    (b"_ZN4core3fmt5write17h0123456789abcdefE", b"core::fmt::write"),
    (b"_ZN3foo3bar17h05af221e174051eE", None), (b"_ZN3foo3bar17h05af221e174051e9gE", None),
    (b"_ZN3foo3bar17g05af221e174051e9E", None), (b"_ZN3foo17h05af221e174051e93barE", None),
    (b"_ZN5alloc3vec12Vec$LT$T$GT$4push17hdeadbeefdeadbeefE", None),
    (b"_ZN61_$LT$$RF$std..io..stdio..Stdout$u20$as$u20$std..io..Write$GT$9write_fmt17h75c561f414a62159E", None),
]


# ---------------------------------------------------------------- tags (boundaries of DESIGN Appendix B)
def tags_of(name, impl):
    t = []
    if not name:
        t.append("empty")
    body = name[15:] if name.startswith(b"_GLOBAL__sub_I_") else name
    if name.startswith(b"_GLOBAL__sub_I_"):
        t.append("prefix:_GLOBAL__sub_I_")
    if not body.startswith(b"_Z"):
        t.append("not-mangled-form")
        if body.startswith(b"_R"):
            t.append("rust-v0-form")
    else:
        t.append("mangled-form")
        if re.search(rb"[CD][0-5]?$", body):
            t.append("ends-after-C/D")
        if body.endswith(b"S"):
            t.append("ends-after-S")
        if body[-1:].isdigit():
            t.append("ends-inside-number")
        if re.search(rb"[0-9]{10,}", body):
            t.append("number>=10digits")
        if re.search(rb"0[xX]", body):
            t.append("number-hex-prefix")
        if re.search(rb"(^|[^0-9])0[0-9]", body):
            t.append("number-leading-zero")
        if b"$" in body:
            t.append("dollar")
        if re.search(rb"17h[0-9a-f]{16}", body):
            t.append("rust-hash")
        if b"." in body:
            t.append("dot")
        if b"@" in body:
            t.append("at")
        depth = cur = 0
        for c in body:
            if c in b"NIZXFJ":
                cur += 1
                depth = max(depth, cur)
            elif c == 69:
                cur = max(0, cur - 1)
        t.append("nest-depth:" + ("0" if depth == 0 else "1" if depth == 1 else "2" if depth == 2 else "3-9" if depth < 10
                                  else "10-29" if depth < 30 else ">=30"))
        for pat, tg in ((rb"C[1235]", "ctor"), (rb"D[0125]", "dtor"), (rb"CI[12]", "inheriting-ctor"), (rb"S[0-9A-Z]*_", "subst-seq"),
                        (rb"S[tabsiod]", "subst-std"), (rb"I.*E", "template-args"), (rb"^_ZT[VTIS]", "special:vtable/typeinfo"),
                        (rb"^_ZT[hvc]", "special:thunk"), (rb"^_ZG[VRAT]", "special:guard/ref/alias"), (rb"^_ZT[HW]", "special:tls"),
                        (rb"^_ZTC", "special:construction-vtable"), (rb"^_ZZ", "local-name"), (rb"Ul", "lambda"), (rb"Ut", "unnamed-type"),
                        (rb"B[0-9]", "abi-tag"), (rb"[DT]t|DT", "decltype"), (rb"X.*E", "expression-arg")):
            if re.search(pat, body):
                t.append(tg)
    if any(c >= 0x80 for c in name):
        t.append("byte>=0x80")
    t.append("impl:" + {"S": "string", "N": "NULL", "C": "crash", "T": "timeout"}[impl[0]])
    if impl[0] == "S":
        t.append("unchanged" if impl[1] == name else "demangled")
    return t


# ---------------------------------------------------------------- entry points
def common_meta(ctx):
    ctx.rule = ("a case is one symbol string; streams: (a) every _Z symbol of a generated C++ translation unit compiled by g++ and "
                "clang++ (expected result = the generator's qualified name, cross-checked with c++filt -p minus template "
                "arguments), rustc legacy names of a generated crate, the names of utils/demangle.c's unit tests, and names of the "
                "formal grammar of theorem C13_roundtrip_general_partial (qualifiers, recursive template arguments, class/nested/substitution parameter "
                "types with base-36 seq-ids of 0-3 digits; expected = the mangler's qualified name); (b) "
                "grammar-directed random manglings over all productions the parser knows, nesting depth 1..40; (c) truncations at "
                "every kind of boundary, byte/number mutations, random bytes 1..255, prefix/suffix variants; (d) every distinct "
                "string the implementation returned, fed back (idempotence).  distinct = distinct strings; non-trivial = of "
                "mangled form (reaches the parser)")
    ctx.trusted = [
        "Coq 8.16.1 kernel incl. vm_compute (no native_compute); axioms: none (Print Assumptions: closed under the global context)",
        "hand-written model coq/theories/C13/Model.v of utils/demangle.c (demangle_simple and all dd_* functions, variant "
        "fixed=true = the code as it is now; ctype in the C locale; strtoul base 0 of glibc 2.36)",
        "harness/c/c13_harness.c + props/c13.py (exact-size heap copies of the names, ASan+UBSan object code of utils/demangle.c "
        "from the scratch build, halt on the first report, 1 s CPU cap per name)",
        "corpus oracles: g++ 12 / clang++ 14 / rustc name mangling, c++filt -p, the generator's own qualified names",
    ]
    ctx.assume = [
        "symbol strings are NUL-terminated C strings (no embedded NUL), as read from ELF string tables and .sym files",
        "demangler == DEMANGLE_SIMPLE (the default); --demangle=full/no are thin wrappers not covered",
        "memory safety is judged by AddressSanitizer/UBSan on the explored inputs and by the model's Fault outcomes "
        "(theorem C13_total_no_fault_partial leaves only reads before the string start open); allocation failure is not modelled",
        "bounded time = the implementation returns within 1 s of CPU time per name / the model returns within fuel 8*len+64",
    ]


def setup(ctx):
    coq.prove(ctx, "C13")
    return build_harness(ctx)


def gen_cases(ctx):
    """list of dicts: name, want (bytes|None), origin"""
    rng = ctx.rng
    cases = []
    seen = set()

    def add(name, want=None, origin=""):
        if name in seen or len(name) > 1500 or b"\0" in name:
            return
        seen.add(name)
        cases.append({"name": name, "want": want, "origin": origin})
    # (a) corpus
    for w in LEGACY_WITNESSES:
        add(w, None, "legacy-witness")
    for n in unit_test_names():
        add(n, None, "unit-test")
    for m, want, comps in cxx_corpus(ctx, ctx.n(10, 40), ctx.n(8, 30), ctx.n(1, 4)):
        add(m, want, "corpus:" + "+".join(comps))
    stdn = std_corpus(ctx)
    if not ctx.thorough() and len(stdn) > 260:          # quick tier: a sample (evaluation time is per name)
        stdn = rng.sample(stdn, 260)
    for m, want, comps in stdn:
        add(m, want, "corpus-std:" + "+".join(comps))
    for m, want, comps in rust_corpus(ctx, ctx.n(8, 25)):
        add(m, want, "corpus:rustc")
    for m, want in RUST_HANDMADE:
        add(m, want, "rust-handmade")
    for _ in range(ctx.n(150, 1800)):
        m, want = formal_name(rng)
        add(m, want, "formal-mangler")
    for _ in range(ctx.n(80, 1000)):
        m, want = formal_rust(rng)
        add(m.encode(), want.encode() if want is not None else None, "formal-rust")
    base = [c["name"] for c in cases]
    # (b) grammar
    g = Gram(rng, 4)
    for _ in range(ctx.n(450, 4000)):
        g.maxd = rng.choice([1, 2, 3, 4, 6])
        add(g.symbol(), None, "grammar")
    for d in (1, 2, 30, 40):
        for n in deep_names(d):
            add(n, None, "deep")
    gram = [c["name"] for c in cases if c["origin"] in ("grammar", "deep")]
    # (c) mutation
    for _ in range(ctx.n(650, 10000)):
        s = rng.choice(base) if rng.random() < 0.55 else rng.choice(gram)
        for _ in range(rng.choice([1, 1, 1, 2, 3])):
            s = mutate(rng, s)
        add(s, None, "mutation")
    for _ in range(ctx.n(150, 2000)):
        add(noise(rng), None, "noise")
    # every truncation of a few corpus names (exhaustive boundary sweep)
    for s in rng.sample(base, min(len(base), ctx.n(4, 40))):
        for i in range(len(s)):
            add(s[:i], None, "truncation-sweep")
    return cases


def js(b):
    return b.decode("latin1")


def judge(ctx, cases, res, what=""):
    """turn the Coq verdict lists into ctx calls"""
    if res is None:
        return
    viol = set(res["violations"])
    nviol = 0
    for i in sorted(viol):
        c = cases[i]
        cls = res["cls"][i]
        kind = c["impl"][0]
        nviol += 1
        if nviol <= 3:
            ctx.violation("C13 violated%s: demangle() %s for the name %r (the model predicts: %s)"
                          % (what, {"N": "returned NULL", "C": "crashed (" + (c["impl"][1] if kind == "C" else "") + ")",
                                    "T": "did not return within the CPU cap", "S": "changed a name that is not of mangled form into %r"
                                    % (c["impl"][1] if kind == "S" else b"")}[kind], c["name"],
                             "a proper string" if cls == 0 else "outcome class %d" % cls),
                          {"name": js(c["name"]), "name_hex": c["name"].hex(), "impl": list(map(str, c["impl"])), "origin": c["origin"]},
                          True)
    for i in res["wrong"][:3]:
        c = cases[i]
        ctx.violation("C13 violated%s: compiler-produced name %r demangles to %r, the declared function is %r"
                      % (what, c["name"], c["impl"][1] if c["impl"][0] == "S" else c["impl"][0], c["want"]),
                      {"name": js(c["name"]), "name_hex": c["name"].hex(), "want": js(c["want"]), "impl": list(map(str, c["impl"])),
                       "origin": c["origin"]}, True)
    for c in cases:
        if len(c["impl"]) > 2 and c["impl"][-1] is True:
            ctx.violation("C13 violated%s: demangle() wrote into its input string %r" % (what, c["name"]),
                          {"name": js(c["name"]), "name_hex": c["name"].hex()}, True)
    mism = [i for i in res["mismatch"] if i not in viol and i not in set(res["wrong"])]
    if mism and not nviol and not res["wrong"]:
        c = cases[mism[0]]
        ctx.violation("model and implementation of demangle() disagree on %d name(s); the property checker accepts the "
                      "implementation's result on every explored case" % len(mism),
                      {"correspondence": "C13.Model.demangle vs utils/demangle.c demangle_simple",
                       "first_disagreement": {"name": js(c["name"]), "name_hex": c["name"].hex(), "impl": list(map(str, c["impl"])),
                                              "origin": c["origin"]}}, False)
    ctx.extra["disagreements_checked"] = ctx.extra.get("disagreements_checked", 0) + len(res["mismatch"])
    ctx.extra["model_non_string_outcomes"] = ctx.extra.get("model_non_string_outcomes", 0) + sum(1 for x in res["cls"] if x != 0)


def run_and_eval(ctx, exe, cases, name):
    impl = run_impl(exe, [c["name"] for c in cases])
    for c, r in zip(cases, impl):
        c["impl"] = r
    res = None
    CH = 1200
    agg = {"mismatch": [], "violations": [], "wrong": [], "cls": []}
    def ev(lo, hi, tag, depth=0):
        """evaluate cases[lo:hi]; a coqc run that dies without a Coq error (killed under memory / time pressure)
        is retried on the two halves"""
        nb = len(ctx.brokens)
        r = evaluate(ctx, cases[lo:hi], tag)
        if r is None and depth < 3 and hi - lo > 1 and len(ctx.brokens) == nb + 1 and "Error" not in ctx.brokens[-1]["detail"]:
            ctx.log("model evaluation %s died without a Coq error (%r); retrying in two halves"
                    % (tag, ctx.brokens[-1]["detail"][-200:]))
            ctx.brokens.pop()
            mid = (lo + hi) // 2
            a = ev(lo, mid, tag + "a", depth + 1)
            b = ev(mid, hi, tag + "b", depth + 1)
            if a is None or b is None:
                return None
            r = {key: a[key] + [(mid - lo) + i for i in b[key]] for key in ("mismatch", "violations", "wrong")}
            r["cls"] = a["cls"] + b["cls"]
        return r
    for k in range(0, len(cases), CH):
        r = ev(k, min(k + CH, len(cases)), "%s_%d" % (name, k // CH))
        if r is None:
            return None
        for key in ("mismatch", "violations", "wrong"):
            agg[key] += [k + i for i in r[key]]
        agg["cls"] += r["cls"]
    return agg


def run(ctx):
    common_meta(ctx)
    objdir, exe = setup(ctx)
    cases = gen_cases(ctx)
    ctx.log("generated %d cases" % len(cases))
    res = run_and_eval(ctx, exe, cases, "cases")
    ctx.log("evaluated")
    # (d) idempotence: every distinct plain result is a case of its own
    seen = set(c["name"] for c in cases)
    fed = []
    for c in cases:
        if c["impl"][0] == "S" and c["impl"][1] not in seen and len(c["impl"][1]) < 1500:
            seen.add(c["impl"][1])
            fed.append({"name": c["impl"][1], "want": None, "origin": "fed-back result of " + js(c["name"])})
    res2 = run_and_eval(ctx, exe, fed, "fedback") if fed else {"mismatch": [], "violations": [], "wrong": [], "cls": []}
    for cs in (cases, fed):
        for c in cs:
            if "impl" not in c:
                continue
            nm = c["name"]
            body = nm[15:] if nm.startswith(b"_GLOBAL__sub_I_") else nm
            nontriv = body.startswith(b"_Z")
            smp = None
            if c["want"] is not None and len(ctx.samples) < 4 and len(nm) < 120:
                smp = {"name": js(nm), "expected": js(c["want"]), "implementation": js(c["impl"][1]) if c["impl"][0] == "S" else c["impl"][0],
                       "origin": c["origin"]}
            ctx.case(key=nm, nontrivial=nontriv, tags=tags_of(nm, c["impl"]) + ["origin:" + c["origin"].split(":")[0].split(" ")[0]],
                     sample=smp, size=len(nm))
    ctx.extra["cases_with_expected_name"] = sum(1 for c in cases if c["want"] is not None)
    ctx.log("fed-back %d evaluated" % len(fed))
    judge(ctx, cases, res)
    judge(ctx, fed, res2, " (idempotence)")
    cli_tie(ctx, objdir, cases)
    ctx.log("command-line tie done")
    e2e(ctx, objdir)


# ---------------------------------------------------------------- the command-line tool and the symbol loader
SAN_ENV = {"ASAN_OPTIONS": "detect_leaks=1:abort_on_error=0", "UBSAN_OPTIONS": "halt_on_error=1:print_stacktrace=0",
           "LSAN_OPTIONS": "exitcode=23"}


def _run_tool(tool, args, data):
    env = dict(os.environ)
    env.update(SAN_ENV)
    try:
        p = subprocess.run([tool] + args, input=data, stdout=subprocess.PIPE, stderr=subprocess.PIPE, env=env, timeout=120)
        return p.returncode, p.stdout, p.stderr.decode(errors="replace")
    except subprocess.TimeoutExpired:
        return 124, b"", "timeout"


def cli_tie(ctx, objdir, cases):
    """misc/demangler (ASan + LeakSanitizer build) on the same names: --simple must print exactly what demangle()
    returned in the harness, --no must echo, --full must print what c++filt prints for compiler-produced names and
    echo names that are not of mangled form; none of them may crash, leak or hang"""
    tool = os.path.join(objdir, "misc", "demangler")
    if not os.path.exists(tool):
        ctx.broken("misc/demangler was not built in %s" % objdir)
        return
    rng = ctx.rng
    ok = [c for c in cases if c["impl"][0] == "S" and b"\n" not in c["name"] and b"\r" not in c["name"] and len(c["name"]) < 4000]
    corpus = [c for c in ok if c["want"] is not None and c["origin"].startswith("corpus")]
    other = [c for c in ok if c["want"] is None]
    pick = corpus[:ctx.n(250, 3000)] + rng.sample(other, min(len(other), ctx.n(400, 6000)))
    data = b"".join(c["name"] + b"\n" for c in pick)

    def lines(out):
        ls = out.split(b"\n")
        return ls[:-1] if ls and ls[-1] == b"" else ls
    for mode in ("--simple", "--no", "--full"):
        rc, out, err = _run_tool(tool, [mode], data)
        got = lines(out)
        bad = None
        if rc != 0 or len(got) != len(pick):
            bad = {"mode": mode, "rc": rc, "stderr": err[-1500:], "lines_out": len(got), "lines_in": len(pick)}
            what = "misc/demangler %s failed on %d names (rc=%s: %s)" % (mode, len(pick), rc, (err.strip().splitlines() or ["?"])[0][:200])
            if "LeakSanitizer" in err:
                what = "misc/demangler %s leaks memory: %s" % (mode, " ".join(err.split()[:40])[:300])
        else:
            for c, g in zip(pick, got):
                want = c["impl"][1] if mode == "--simple" else c["name"] if mode == "--no" else None
                if mode == "--full":
                    body = c["name"]
                    if not body.startswith(b"_Z"):
                        want = c["name"]
                if want is not None and g != want:
                    bad = {"mode": mode, "name": js(c["name"]), "name_hex": c["name"].hex(), "printed": js(g), "expected": js(want)}
                    what = "misc/demangler %s prints %r for %r, expected %r" % (mode, g, c["name"], want)
                    break
            if bad is None and mode == "--full" and corpus:
                cc = [c for c in pick if c["want"] is not None and c["origin"].startswith("corpus:") and "rustc" not in c["origin"]]   # C++ only: c++filt demangles rustc names as Rust
                rc2, o2, e2 = sh(["c++filt"], input="".join(js(c["name"]) + "\n" for c in cc), timeout=60)
                idx = {id(c): g for c, g in zip(pick, got)}
                for c, f in zip(cc, o2.splitlines()):
                    if js(idx[id(c)]) != f:
                        bad = {"mode": mode, "name": js(c["name"]), "name_hex": c["name"].hex(), "printed": js(idx[id(c)]), "expected": f}
                        what = "misc/demangler --full prints %r for %r, c++filt prints %r" % (idx[id(c)], c["name"], f)
                        break
        ctx.case(key=("cli", mode, len(pick)), tags=["cli:" + mode], nontrivial=True)
        if bad is not None:
            ctx.violation("C13 violated (command-line tool): " + what, bad, True)
    # argv mode
    av = [c for c in corpus[:40] if not c["name"].startswith(b"-")]
    if av:
        rc, out, err = _run_tool(tool, [js(c["name"]) for c in av], b"")
        got = lines(out)
        if rc != 0 or got != [c["impl"][1] for c in av]:
            ctx.violation("C13 violated (command-line tool): misc/demangler NAME... differs from demangle() (rc=%s)" % rc,
                          {"mode": "argv", "rc": rc, "stderr": err[-800:]}, True)
        ctx.case(key=("cli", "argv", len(av)), tags=["cli:argv"], nontrivial=True)
    ctx.extra["cli_names"] = len(pick)


E2E_SRC = """namespace {ns} {{ struct {C} {{ int n; {C}(); ~{C}(); int {m1}(int) &; int {m2}(long) const; int operator+(int) const; int operator[](int);
 template<class T> T {tm}(T t) {{ return t + n; }} operator int() const; static int {sm}(char); }};
{C}::{C}() : n(1) {{}} {C}::~{C}() {{}} int {C}::{m1}(int x) & {{ n += x; return n; }} int {C}::{m2}(long x) const {{ return n + (int)x; }}
int {C}::operator+(int x) const {{ return n + x; }} int {C}::operator[](int x) {{ return n * x; }} {C}::operator int() const {{ return n; }}
int {C}::{sm}(char c) {{ return c; }}
namespace {{ int {hid}(int x) {{ return x * 2; }} }}
namespace {ns2} {{ template<class T, class U> T {gen}(T a, U b) {{ return a + (T)b; }} struct {D} {{ void {dm}({ns}::{C}&, {ns}::{C}*, const {ns}::{C}&); }};
void {D}::{dm}({ns}::{C}&, {ns}::{C}*, const {ns}::{C}&) {{}} }}
int {run}() {{ {C} c; c.{m1}(2); int r = c.{m2}(3); r += c + 3; r += c[2]; r += c.{tm}<long>(4); r += {hid}(r); r += {ns2}::{gen}<int, long>(1, 2);
 r += (int)c; r += {C}::{sm}('a'); {ns2}::{D} d; d.{dm}(c, &c, c); return r; }} }}
int main() {{ return {ns}::{run}() == 0; }}
"""


def e2e(ctx, objdir):
    """names printed by `uftrace replay` for a compiled test object: the symbol loader of utils/symbol.c (ELF symbol table
    -> .sym file -> demangle at load) end to end, in the three --demangle modes"""
    rng = ctx.rng
    ids = Ident(rng)
    f = {k: ids.new(2, 9) for k in ("ns", "ns2", "C", "D", "m1", "m2", "tm", "sm", "hid", "gen", "dm", "run")}
    d = os.path.join(ctx.scratch, "e2e")
    os.makedirs(d, exist_ok=True)
    src = os.path.join(d, "p.cc")
    open(src, "w").write(E2E_SRC.format(**f))
    exe = os.path.join(d, "p")
    rc, o, e = sh(["g++", "-std=c++17", "-pg", "-O0", "-o", exe, src], timeout=120)
    if rc != 0:
        ctx.broken("e2e generator produced C++ that g++ rejects", e[-1500:])
        return
    uft = os.path.join(objdir, "uftrace")
    data = os.path.join(d, "data")
    env = {"ASAN_OPTIONS": "detect_leaks=0"}
    rc, o, e = sh(["timeout", "60", uft, "record", "--no-pager", "--no-event", "--libmcount-path=" + objdir, "-d", data, exe],
                  timeout=90, env=env, cwd=d)
    if rc != 0:
        ctx.broken("e2e: uftrace record failed (rc=%d)" % rc, (o + e)[-1500:])
        return
    n, n2, C, D = f["ns"], f["ns2"], f["C"], f["D"]
    q = n + "::" + C + "::"
    want = ["main", n + "::" + f["run"], q + C, q + f["m1"], q + f["m2"], q + "operator+", q + "operator[]", q + f["tm"],
            n + "::_GLOBAL__N_1::" + f["hid"], n + "::" + n2 + "::" + f["gen"], q + "operator(cast)", q + f["sm"],
            n + "::" + n2 + "::" + D + "::" + f["dm"], q + "~" + C]

    def names_of(mode):
        rc, o, e = sh(["timeout", "60", uft, "replay", "--no-pager", "-d", data, "-f", "none", "--demangle=" + mode],
                      timeout=90, env=env, cwd=d)
        if rc != 0:
            return None, (o + e)[-800:]
        out = []
        for ln in o.splitlines():
            t = ln.strip()
            if not t or t.startswith("}"):
                continue
            t = re.sub(r"\s*(\{|;)$", "", t)
            out.append(t)
        return out, ""
    disp = lambda w: w if w.endswith(")") else w + "()"      # replay prints NAME() unless NAME already ends in ")"
    want = [disp(w) for w in want]
    got, err = names_of("simple")
    ctx.case(key=("e2e", "simple"), tags=["e2e:replay-simple"], nontrivial=True,
             sample={"replayed_names": got[:6] if got else None, "expected": want[:6]})
    if got != want:
        ctx.violation("C13 violated (end to end): `uftrace replay` of a compiled C++ program prints %r, the declared functions are %r"
                      % (got, want), {"mode": "e2e-simple", "printed": got, "expected": want, "source": E2E_SRC.format(**f), "stderr": err}, True)
    raw, err = names_of("no")
    ctx.case(key=("e2e", "no"), tags=["e2e:replay-no"], nontrivial=True)
    raw = None if raw is None else [x[:-2] if x.endswith("()") else x for x in raw]
    if raw is None or len(raw) != len(want) or not all(x == "main" or x.startswith("_Z") for x in raw):
        ctx.violation("C13 violated (end to end): `uftrace replay --demangle=no` does not print the mangled names: %r" % (raw,),
                      {"mode": "e2e-no", "printed": raw, "stderr": err}, True)
        return
    rc, o, e = sh(["c++filt"], input="\n".join(raw) + "\n", timeout=60)
    full_want = [x.rstrip() for x in o.splitlines()]
    full, err = names_of("full")
    ctx.case(key=("e2e", "full"), tags=["e2e:replay-full"], nontrivial=True)
    full_want = [disp(x) for x in full_want]
    if full != full_want:
        ctx.violation("C13 violated (end to end): `uftrace replay --demangle=full` prints %r, c++filt gives %r" % (full, full_want),
                      {"mode": "e2e-full", "printed": full, "expected": full_want, "stderr": err}, True)


def replay(ctx, obj):
    common_meta(ctx)
    objdir, exe = setup(ctx)
    o = obj.get("first_disagreement") or obj
    if "name_hex" not in o:
        ctx.log("replay file has no name; nothing to re-execute")
        return
    name = bytes.fromhex(o["name_hex"])
    want = o.get("want")
    cases = [{"name": name, "want": want.encode("latin1") if want else None, "origin": "replay"}]
    res = run_and_eval(ctx, exe, cases, "replay")
    mo = model_of(ctx, [name])
    ctx.log("replayed %r: implementation -> %r ; model -> %s" % (name, cases[0]["impl"], mo))
    ctx.case(key=name, tags=tags_of(name, cases[0]["impl"]),
             sample={"name": js(name), "implementation": list(map(str, cases[0]["impl"])), "model": mo})
    judge(ctx, cases, res, " (replay)")
