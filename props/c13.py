"""C13 - Symbol demangling is total, safe and correct for compiler-produced names.

Theorems: coq/theories/Properties_C13.v over coq/theories/C13/Model.v, a function-by-function
model of utils/demangle.c (demangle_simple and all dd_* parsers, faults and non-termination
included).
Tie: harness/c/c13_harness.c links utils/demangle.o of the ASan+UBSan scratch build of /repo's
current tree; every generated name goes through the real demangle() and through the model
(inside Coq, vm_compute); Coq lists the names where they differ and the names where the
executable property checker rejects the implementation's result.
Streams: (a) names the installed g++/clang++ produce for a generated declaration corpus (the
generator knows the qualified name; c++filt -p is a second oracle) and hand-made Rust-legacy
names, (b) grammar-directed random manglings, (c) mutations / truncations / random bytes, plus
every plain string the implementation returned (idempotence).
"""
import os
import re
import subprocess

from vf import build, coq
from vf.core import REPO, sh

HERE = os.path.dirname(os.path.abspath(__file__))
HARNESS = os.path.join(HERE, "../harness/c/c13_harness.c")

ENV = {"ASAN_OPTIONS": "detect_leaks=0:abort_on_error=0:allocator_may_return_null=0",
       "UBSAN_OPTIONS": "halt_on_error=1:print_stacktrace=0"}


# ---------------------------------------------------------------- implementation side
def build_harness(ctx):
    objdir = build.get_build("asan", ctx.log)
    exe = os.path.join(ctx.scratch, "c13_harness")
    objs = [os.path.join(objdir, "utils", o) for o in ("demangle.o", "debug.o", "utils.o")]
    build.cc([HARNESS] + objs, exe, objdir,
             extra=["-fsanitize=address,undefined", "-ldl", "-pthread", "-lstdc++"])
    return objdir, exe


def run_impl(exe, names):
    """names: list of bytes.  Returns list of ('S', bytes) | ('N',) | ('C', diagnostic) | ('T',)
    (+ flag 'W' appended when the input buffer was modified)."""
    res = []
    i = 0
    env = dict(os.environ)
    env.update(ENV)
    while i < len(names):
        chunk = names[i:]
        inp = "".join(n.hex() + "\n" for n in chunk)
        try:
            p = subprocess.run([exe], input=inp.encode(), stdout=subprocess.PIPE, stderr=subprocess.PIPE,
                               env=env, timeout=60 + len(chunk) // 50)
            out, err, rc = p.stdout.decode(), p.stderr.decode(errors="replace"), p.returncode
        except subprocess.TimeoutExpired as ex:
            out = (ex.stdout or b"").decode()
            err, rc = "wall-clock timeout of the harness process", 124
        lines = out.splitlines()
        done = 0
        for ln in lines:
            w = ln.startswith("W ")
            if w:
                ln = ln[2:]
            if ln == "T":
                res.append(("T",))
                done += 1
                break
            if ln == "N":
                res.append(("N", w) if w else ("N",))
            elif ln.startswith("R"):
                res.append(("S", bytes.fromhex(ln[2:].strip()), w) if w else ("S", bytes.fromhex(ln[2:].strip())))
            else:
                raise RuntimeError("c13 harness printed %r" % ln)
            done += 1
        if done < len(chunk) and not (res and res[-1] == ("T",) and done == len(lines)):
            # the process died inside case `done`
            diag = [l for l in err.splitlines() if "runtime error" in l or "ERROR: AddressSanitizer" in l
                    or "SUMMARY" in l or "xrealloc" in l or "xmalloc" in l]
            res.append(("C", "rc=%s %s" % (rc, " | ".join(diag[:3]) or err[-300:])))
            done += 1
        elif done == 0:
            raise RuntimeError("c13 harness made no progress: rc=%s %s" % (rc, err[-500:]))
        i += done
    return res


# ---------------------------------------------------------------- Coq side
PRE = """From Coq Require Import ZArith List Bool.
Import ListNotations.
Require Import UV.C13.Model.
Local Open Scope Z_scope.
"""


def zl(b):
    return "[" + ";".join("%d" % x for x in b) + "]"


def impl_term(r):
    if r[0] == "S":
        return "IStr " + zl(r[1])
    return {"N": "INull", "C": "ICrash", "T": "IHang"}[r[0]]


def evaluate(ctx, cases, name="cases"):
    """cases: list of dict(name=bytes, impl=tuple, want=bytes|None).
    Returns dict: mismatch, violations, wrong (indices), cls (model class per case)."""
    defs = "Definition cases : list (list Z * impl) := [\n%s\n].\n" % ";\n".join(
        "(%s, %s)" % (zl(c["name"]), impl_term(c["impl"])) for c in cases)
    wants = [(i, c) for i, c in enumerate(cases) if c.get("want") is not None]
    defs += "Definition wants : list (nat * list Z * impl) := [\n%s\n].\n" % ";\n".join(
        "(%d%%nat, %s, %s)" % (i, zl(c["want"]), impl_term(c["impl"])) for i, c in wants)
    res = coq.run_cases(ctx, name, PRE, defs, [
        ("mismatch", "bad_indices (fun c => agrees (fst c) (snd c)) cases 0"),
        ("violations", "bad_indices (fun c => ok_total (fst c) (snd c)) cases 0"),
        ("wrong", "map (fun w => fst (fst w)) (filter (fun w => negb (ok_expected (snd (fst w)) (snd w))) wants)"),
        ("cls", "map (fun c => model_class (fst c)) cases"),
    ])
    if res is None:
        return None
    return {k: coq.parse_nat_list(v) for k, v in res.items()}


def model_of(ctx, names, name="model"):
    """the model's own answer for a list of names (used by replay / diagnostics)"""
    defs = "Definition names : list (list Z) := [\n%s\n].\n" % ";\n".join(zl(n) for n in names)
    res = coq.run_cases(ctx, name, PRE, defs, [("out", "map demangle names")])
    return None if res is None else res["out"]


# ---------------------------------------------------------------- defects of the code as found
# key -> (witness, what).  The model reaches the same fault on the witness (Properties_C13.v,
# theorems *_refuted).  A witness that still fails is reported through ctx.known_finding when
# known-findings.txt lists the key, otherwise it is logged as PENDING (proposed-fixes/C13-*.diff).
DEFECTS = [
    ("ctor-null", b"_ZC1v", 1,
     "dd_ctor_dtor_name dereferences the NULL output buffer when no name precedes C1/D0 (also _ZD0v, _ZNC1Ev)"),
    ("length-overflow", b"_Z2147483647x", 2,
     "dd_source_name: `dd->pos + num > dd->len` overflows int for a huge <number>; ~2 GB xrealloc / exit(1) follows"),
    ("rust-dollar-overread", b"_Z3a$C", 3,
     "dd_source_name: a `$` escape cut off by the end of the string moves p behind the NUL; strchr reads out of bounds"),
    ("rust-dollar-negative-size", b"_Z1$u20$xx", 5,
     "dd_source_name: a `$` escape that extends behind the <source-name> gives strncpy a negative size"),
    ("special-name-index", b"_ZT", 6,
     "dd_special_name: strchr(\"VTISFJ\", 0) matches the terminator, T_type_name[6] is read"),
    ("type-loop-hang", b"_Z1aD", 7,
     "dd_type: `D` at the end of the string returns 0 without consuming; dd_encoding loops for ever"),
    ("null-result", b"_ZUt_", 8,
     "demangle() returns NULL for a name that parses but emits nothing (unnamed type); callers use the result"),
]
CLASS_KEY = {c: k for k, _, c, _ in DEFECTS}
CLASS_KEY[4] = "cursor-underflow"


def check_witnesses(ctx, exe):
    names = [w for _, w, _, _ in DEFECTS]
    out = run_impl(exe, names)
    pending = []
    for (key, w, cls, what), r in zip(DEFECTS, out):
        fails = r[0] != "S"
        ctx.case(key=("witness", key), tags=["witness:" + key], nontrivial=True)
        if not fails:
            ctx.log("defect %s: witness %r no longer fails (returns %r)" % (key, w, r[1]))
            continue
        if ctx.kf.listed(ctx.prop, key):
            ctx.known_finding(key, what, True, {"name": w.decode("latin1"), "impl": r[0]})
        else:
            pending.append(key)
            ctx.log("PENDING-FINDING %s: %s; witness %r -> %s (not yet in known-findings.txt)"
                    % (key, what, w, r[0] + (" " + r[1] if r[0] == "C" else "")))
    ctx.extra["defect_witnesses_still_failing"] = pending
    return out


# ---------------------------------------------------------------- entry points
def common_meta(ctx):
    ctx.rule = "(set by run)"
    ctx.trusted = []
    ctx.assume = []


def setup(ctx):
    coq.prove(ctx, "C13")
    return build_harness(ctx)


def run(ctx):
    common_meta(ctx)
    objdir, exe = setup(ctx)
    check_witnesses(ctx, exe)


def replay(ctx, obj):
    common_meta(ctx)
    objdir, exe = setup(ctx)
