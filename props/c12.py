"""C12 - Analysis commands survive truncated or partially written data.

Theorems: coq/theories/Properties_C12.v (model of the per-task record stream reader of utils/fstack.c:
__read_task_ustack / read_task_args / read_task_arg / read_task_event / read_task_ustack).

Tie, two lines, both against an ASan+UBSan build of /repo's CURRENT tree:
 (1) in-process: harness/c/c12_harness.c drives the real read_task_ustack over every truncation of
     generated task files (argument payloads, strings at the ARG_STR_MAX boundary, events, LOST);
     every (cut, reported records, payload bytes, ending) is compared inside Coq (vm_compute) with the
     model and judged by the executable checker ok_cut/item_in_bounds;
 (2) end-to-end: replay, report, graph, dump and info run on every truncation of every file of a
     synthetic directory (and with each file removed) under `timeout`; exit status, sanitizer report and
     stdout are compared with the run on the copy cut at the last whole record (the model says where that is); for the
     text files a cut inside a line must give a diagnostic, or the output of the copy cut at the last complete line,
     or the output of the same bytes completed by a newline (the rest is rejected, ignored, or taken as the line it spells).
"""
import json
import os
import re
import resource
import shutil
import struct
import subprocess
from concurrent.futures import ThreadPoolExecutor

from vf import build, coq, datadir
from vf.core import sh

HERE = os.path.dirname(os.path.abspath(__file__))
BASE = 0x400000
SAN_ENV = {"ASAN_OPTIONS": "detect_leaks=0:abort_on_error=0:allocator_may_return_null=1",
           "UBSAN_OPTIONS": "print_stacktrace=0"}
EV_IDS = {100001: 24, 100003: 24, 100002: 16, 100004: 16, 100005: 16, 100006: 16, 100011: 4}
PLAIN = [("replay", ["replay"]), ("report", ["report"]), ("graph", ["graph"]), ("dump", ["dump"]), ("info", ["info"])]
# option variants of the five commands: other consumers of the same readers (per-task data, output formats, field lists)
VARIANTS = [
    ("report --task", ["report", "--task"]),
    ("graph --task", ["graph", "--task"]),
    ("dump --chrome", ["dump", "--chrome"]),
    ("replay -f +task..", ["replay", "-f", "+tid,task,time,elapsed,delta,addr,module"]),
    ("info --task", ["info", "--task"]),
    ("dump --flame-graph", ["dump", "--flame-graph"]),
    ("replay --srcline", ["replay", "--srcline"]),
    ("report --srcline", ["report", "--srcline"]),
    ("graph --srcline", ["graph", "--srcline"]),
    ("dump --graphviz", ["dump", "--graphviz"]),
    ("replay --no-merge", ["replay", "--no-merge"]),
    ("report -s self,call", ["report", "-s", "self,call"]),
    ("info --symbols", ["info", "--symbols"]),
    ("report --diff", ["report", "--diff", "d"]),
    ("dump --mermaid", ["dump", "--mermaid"]),
    ("report -f ..", ["report", "-f", "total,self,call,total-avg,self-max"]),
    ("graph -f ..", ["graph", "-f", "total,self,addr"]),
]
# filter / trigger options (module suffixes @PLT @kernel @<exe>, caller filter, time and depth filter, pattern type):
# they make the readers consult maps, symbols and specs of the damaged directory at set-up time
FILTERS = [
    ("replay -F @PLT", ["replay", "-F", "f1@PLT"]),
    ("replay -F -N -D", ["replay", "-F", "main", "-N", "f2", "-D", "3"]),
    ("report -F @prog -N @kernel", ["report", "-F", "f1@prog", "-N", "f2@kernel"]),
    ("graph -T depth -C", ["graph", "-T", "f1@depth=1", "-C", "f1"]),
    ("replay -t -T time", ["replay", "-t", "100ns", "-T", "f1@time=1us"]),
    ("dump --match glob", ["dump", "--match", "glob", "-F", "f*", "-N", "f2@PLT"]),
    ("replay -T @PLT trace_off", ["replay", "-T", "f1@PLT,trace_off", "-T", "main@trace_on"]),
    ("report --match regex -C @PLT", ["report", "--match", "regex", "-C", "f.@PLT"]),
    ("replay -A -R", ["replay", "-A", "f2@arg1", "-R", "f2@retval"]),
]
# the second directory of `report --diff` is the damaged one (the first is intact)
DIFF_DAMAGED = ("report --diff <damaged>", ["report", "--diff", "b"])
SRCLINE = ["replay --srcline", "report --srcline", "graph --srcline"]      # the consumers of the .dbg location table
CMDS = [c for c, _ in PLAIN]
ARGV = dict(PLAIN + VARIANTS + FILTERS + [DIFF_DAMAGED])

# Eight defect classes found by this check were repaired in /repo (known-findings.txt `fixed: property=C12 ...`):
# partial-args, partial-header-time, payload-cut-time, info-empty-value, task-exename-cut, sym-empty-header-value,
# sym-empty-name, sym-cut-before-type.  Their cuts are ordinary cuts now: a regression is a VIOLATION.


# ---------------------------------------------------------------------------------- generator
def pad_to(m, n):
    return (m - n % m) % m


def enc_vals(vals):
    """mirror of Model.enc_vals (checked against it inside Coq on every case)"""
    out = b""
    for kind, v in vals:
        if kind == "s":
            out += struct.pack("<H", len(v))
            out += v + b"\0" * pad_to(4, len(out) + len(v))
        else:
            out += v + b"\0" * pad_to(4, len(out) + len(v))
    return out


def payload_of(r):
    if r["pl"][0] == "args":
        return enc_vals(r["pl"][1])
    if r["pl"][0] == "event":
        return struct.pack("<H", len(r["pl"][1])) + r["pl"][1]
    return b""


STR_LENS = [0, 1, 2, 3, 4, 5, 6, 7, 8, 9, 13, 95, 96, 97, 98, 99, 100, 101]
FIX = {"i8": 1, "i16": 2, "i32": 4, "i64": 8}


def gen_specs(rng, nfun):
    """per function: (args spec list, ret spec list) with items 's' or 'i8'..'i64'"""
    specs = []
    for _ in range(nfun):
        na = rng.choice([0, 1, 1, 2, 3, 4])
        args = [rng.choice(["s", "s", "i8", "i16", "i32", "i64"]) for _ in range(na)]
        rets = [rng.choice(["s", "i32", "i64", "i8"])] if rng.random() < 0.6 else []
        if not args and not rets:
            args = ["i32"]
        specs.append((args, rets))
    return specs


def gen_vals(rng, spec, small, minstr=0):
    vals = []
    for s in spec:
        if s == "s":
            n = rng.choice([x for x in (STR_LENS[:11] if small else STR_LENS) if x >= minstr])
            vals.append(("s", bytes(rng.randrange(33, 127) for _ in range(n))))
        else:
            vals.append(("f", bytes(rng.randrange(256) for _ in range(FIX[s]))))
    return vals


def gen_case(rng, nrec, small=True, nested=False, minstr=0):
    """minstr: lower bound for string lengths (the end-to-end directories used >= 3 while `uftrace dump` over-read shorter
    strings on complete files too; repaired by 5b06e93, they use every length now)"""
    nfun = rng.randrange(1, 5)
    names = ["main"] + ["f%d" % i for i in range(1, nfun + 1)]
    syms = [(0x1000 + 0x100 * i, 0x80, "T", n) for i, n in enumerate(names)]
    specs = [([], [])] + gen_specs(rng, nfun)
    # every case has one function whose payloads contain string bodies at offsets that are not multiples of 8
    # (a cut inside them leaves args.len % 8 != 0: the realignment path of read_task_args)
    specs[1] = (["i32", "s", "s"] if rng.random() < 0.5 else ["s", "i64", "s"], ["s"])
    if nested:
        # two functions without any spec, last in the symbol file and called in every task: what is printed for them
        # depends on their symbol lines only (a wrong name or a missing symbol shows in replay and report)
        names += ["plain_a", "plain_b"]
        syms = [(0x1000 + 0x100 * i, 0x80, "T", n) for i, n in enumerate(names)]
        specs += [([], []), ([], [])]
    recs = []
    t = 1000
    stack = []

    def hdr(ty, depth, addr, more):
        nonlocal t
        t += rng.randrange(1, 500)
        return {"t": t, "type": ty, "depth": depth, "addr": addr, "more": more}

    def entry(fi, depth):
        addr = BASE + syms[fi][0] + (0 if nested else rng.choice([0, 0, 1, 0x7f]))
        a = specs[fi][0]
        if a and (nested or rng.random() < 0.85):
            recs.append(dict(hdr(0, depth, addr, 1), pl=("args", gen_vals(rng, a, small, minstr))))
        else:
            recs.append(dict(hdr(0, depth, addr, 0), pl=("none",)))
        return addr

    def exit_(fi, depth, addr):
        r = specs[fi][1]
        if r and (nested or rng.random() < 0.85):
            recs.append(dict(hdr(1, depth, addr, 1), pl=("args", gen_vals(rng, r, small, minstr))))
        else:
            recs.append(dict(hdr(1, depth, addr, 0), pl=("none",)))

    if nested:
        a0 = entry(0, 0)
        stack.append((0, a0))
        for fi in (len(names) - 2, len(names) - 1):   # the spec-free functions are called once each, first
            ad = entry(fi, 1)
            exit_(fi, 1, ad)
        stack.append((1, entry(1, 1)))          # the string function is called (and returns) in every directory
    while len(recs) < nrec:
        k = rng.random()
        if k < 0.12:
            eid = rng.choice(sorted(EV_IDS))
            recs.append(dict(hdr(3, len(stack) if nested else rng.randrange(4), eid, 1),
                             pl=("event", bytes(rng.randrange(256) for _ in range(EV_IDS[eid])))))
        elif k < 0.16 and not nested:
            recs.append(dict(hdr(2, 0, rng.randrange(1, 9), 0), pl=("none",)))
        elif nested:
            if len(stack) > 1 and rng.random() < 0.5:
                fi, ad = stack.pop()
                exit_(fi, len(stack), ad)
            else:
                fi = rng.randrange(1, nfun + 1)
                stack.append((fi, entry(fi, len(stack))))
        else:
            fi = 1 if not recs else rng.randrange(0, nfun + 1)
            d = rng.choice([0, 1, 2, 1022, 1023])
            if rng.random() < 0.5:
                entry(fi, d)
            else:
                exit_(fi, d, BASE + syms[fi][0])
    while nested and stack:
        fi, ad = stack.pop()
        exit_(fi, len(stack), ad)
    extra = []
    if nested:
        # a forked child (FORK line) and a thread (TASK line), each with a small payload-free task file of its own
        for tid, ppid in ((101, 100), (102, None)):
            er, d0 = [], []
            for j in range(rng.randrange(2, 4)):
                fi = len(names) - 1 - (j % 2) if j < 2 else rng.randrange(0, nfun + 1)
                er.append(dict(hdr(0, len(d0), BASE + syms[fi][0], 0), pl=("none",)))
                d0.append(fi)
            while d0:
                fi = d0.pop()
                er.append(dict(hdr(1, len(d0), BASE + syms[fi][0], 0), pl=("none",)))
            extra.append({"tid": tid, "pid": tid if ppid else 100, "ppid": ppid, "start": er[0]["t"] - 1, "recs": er})
    argspec = ";".join("%s@%s" % (names[i], ",".join("arg%d/%s" % (j + 1, a) for j, a in enumerate(specs[i][0])))
                       for i in range(len(names)) if specs[i][0])
    retspec = ";".join("%s@retval/%s" % (names[i], specs[i][1][0]) for i in range(len(names)) if specs[i][1])
    return {"syms": syms, "specs": specs, "recs": recs, "argspec": argspec, "retspec": retspec, "extra": extra}


def desc_of(case, tid=100):
    def conv(rs):
        return [dict(t=r["t"], type=r["type"], depth=r["depth"], addr=r["addr"], more=r["more"], payload=payload_of(r)) for r in rs]
    tasks = [{"tid": tid, "pid": tid, "recs": conv(case["recs"])}]
    for e in case.get("extra") or []:
        t = {"tid": e["tid"], "pid": e["pid"], "start": e["start"], "recs": conv(e["recs"])}
        if e.get("ppid"):
            t["ppid"] = e["ppid"]
        tasks.append(t)
    return {"syms": case["syms"], "base": BASE, "args": True, "events": True,
            "tasks": tasks, "exename": "/fake/prog", "cmdline": "uftrace record prog"}


INFO_TAIL = (b"record_date:Thu Oct  1 00:00:00 2026\nelapsed_time:0.001000000 sec\npattern_type:regex\n"
             b"uftrace_version:v0.15 ( x86_64 dwarf )\n")


def write_dir(case, d):
    datadir.write(desc_of(case), d, argspec={"argspec": case["argspec"], "retspec": case["retspec"]})
    # the lines a real recording writes after the argument specs (their consumers trust the info mask of the header):
    # RECORD_DATE (record_date + elapsed_time), PATTERN_TYPE, VERSION
    p = os.path.join(d, "info")
    b = bytearray(open(p, "rb").read())
    mask = struct.unpack_from("<Q", b, 24)[0] | datadir.INFO_RECORD_DATE | datadir.INFO_PATTERN_TYPE | datadir.INFO_VERSION
    struct.pack_into("<Q", b, 24, mask)
    if case.get("extra"):
        # the other files a recording leaves in the directory (end-to-end directories only): perf events of one cpu
        # (COMM, context switches, FORK/EXIT of the child), the user-event table, external data, the options file
        # and the debug-info file of the executable
        feat = struct.unpack_from("<Q", b, 16)[0] | datadir.FEAT_PERF_EVENT
        struct.pack_into("<Q", b, 16, feat)
        t0 = case["recs"][0]["t"]

        def sid(tid, t):
            return struct.pack("<IIQ", tid if tid != 102 else 100, tid, t)

        def ev(ty, misc, body):
            return struct.pack("<IHH", ty, misc, 8 + len(body)) + body
        perf = ev(3, 0x2000, struct.pack("<II", 100, 100) + b"prog\0\0\0\0\0\0\0\0\0\0\0\0" + sid(100, t0 + 1))
        perf += ev(14, 0x2000, sid(100, t0 + 40)) + ev(14, 0, sid(100, t0 + 90))
        perf += ev(7, 0, struct.pack("<IIIIQ", 101, 100, 101, 100, t0 + 120) + sid(100, t0 + 120))
        perf += ev(14, 0x6000, sid(102, t0 + 150)) + ev(14, 0, sid(102, t0 + 170))
        perf += ev(3, 0, struct.pack("<II", 101, 101) + b"child-name\0\0\0\0\0\0" + sid(101, t0 + 200))
        perf += ev(4, 0, struct.pack("<IIIIQ", 101, 100, 101, 100, t0 + 5000) + sid(101, t0 + 5000))
        open(os.path.join(d, "perf-cpu0.dat"), "wb").write(perf)
        open(os.path.join(d, "events.txt"), "wb").write(b"EVENT: 1000000 uftrace:event\nEVENT: 1000001 myprov:second-event\n")
        open(os.path.join(d, "extern.dat"), "wb").write(
            ("# external data\n%d.%09d first message\n\n%d.%09d second one with words\n"
             % ((t0 + 60) // 10**9, (t0 + 60) % 10**9, (t0 + 300) // 10**9, (t0 + 300) % 10**9)).encode())
        open(os.path.join(d, "default.opts"), "wb").write(b"--no-libcall -D 64\n")
        syms = case["syms"]
        dbg = b"# path name: /fake/prog\n"
        for i, (a, _, _, nm) in enumerate(syms):
            dbg += ("F: %x %s\nL: %d /src/prog.c\n" % (a, nm, 10 + 7 * i)).encode()
            if i == 2:
                dbg += b"A: @arg1/i32\nR: @retval/i64\n"
        dbg += b"E: enum color {RED=0,GREEN=1,BLUE=2,}\n"
        open(os.path.join(d, "prog.dbg"), "wb").write(dbg)
    open(p, "wb").write(bytes(b) + INFO_TAIL)
    return open(os.path.join(d, "100.dat"), "rb").read()


def record_spans(case):
    """[(offset, header_end, payload_end, record_end, [(piece_end, label)...])] - cut selection and boundary tags only"""
    spans, off = [], 0
    for r in case["recs"]:
        p = payload_of(r)
        pieces = []
        if r["pl"][0] == "args":
            o = 0
            for kind, v in r["pl"][1]:
                if kind == "s":
                    pieces.append((off + 16 + o + 2, "2-byte-length"))
                    o += 2
                o += len(v) + pad_to(4, o + len(v))
                pieces.append((off + 16 + o, "string-body" if kind == "s" else "argument"))
        elif r["pl"][0] == "event":
            pieces = [(off + 18, "event-length"), (off + 16 + len(p), "event-body")]
        end = off + 16 + len(p) + pad_to(8, len(p))
        spans.append((off, off + 16, off + 16 + len(p), end, pieces))
        off = end
    return spans, off


def pick_cuts(rng, case, size, exhaustive_below):
    if size <= exhaustive_below:
        return list(range(size + 1))
    spans, _ = record_spans(case)
    cuts = {0, 1, size - 1, size}
    for off, he, pe, end, pieces in spans:
        for b in [off, he, pe, end] + [q[0] for q in pieces]:
            for d in (-2, -1, 0, 1, 2):
                if 0 <= b + d <= size:
                    cuts.add(b + d)
    for _ in range(60):
        cuts.add(rng.randrange(size + 1))
    return sorted(cuts)


# ---------------------------------------------------------------------------------- Coq literals
def coq_spec(s):
    return "AStr" if s == "s" else "AFix %d" % FIX[s]


def coq_envl(case):
    ents = []
    for (addr, size, _, _), (args, rets) in zip(case["syms"], case["specs"]):
        if args or rets:
            ents.append("(%d%%N, %d%%N, ([%s], [%s]))" % (BASE + addr, size, "; ".join(map(coq_spec, args)),
                                                         "; ".join(map(coq_spec, rets))))
    return "[%s]" % "; ".join(ents)


def coq_bytes(b):
    return "[%s]%%N" % "; ".join("%d" % x for x in b) if b else "[]"


def coq_hdr(t, ty, more, depth, addr):
    return "(mkh %d %d %d %d %d)" % (t, ty, more, depth, addr)


def coq_rec(r):
    h = coq_hdr(r["t"], r["type"], r["more"], r["depth"], r["addr"])
    if r["pl"][0] == "args":
        vals = "; ".join(("VStr %s" if k == "s" else "VFix %s") % coq_bytes(v) for k, v in r["pl"][1])
        return "{| r_hdr := %s; r_pl := PlArgs [%s] |}" % (h, vals)
    if r["pl"][0] == "event":
        return "{| r_hdr := %s; r_pl := PlEvent %s |}" % (h, coq_bytes(r["pl"][1]))
    return "{| r_hdr := %s; r_pl := PlNone |}" % h


def coq_item(it):
    h = coq_hdr(*it[:5])
    if it[5] is None:
        return "{| it_hdr := %s; it_pl := None |}" % h
    return "{| it_hdr := %s; it_pl := Some (%d, %s) |}" % (h, it[5], coq_bytes(it[6]))


PRE = """From Coq Require Import NArith List Bool.
Import ListNotations.
Require Import UV.Gen.Consts UV.C12.Model.
Definition mkh t ty mo d a := {| h_time := t%N; h_type := ty%N; h_more := mo%N; h_magic := RECORD_MAGIC; h_depth := d%N; h_addr := a%N |}.
Definition tcase := (list (N * N * (list aspec * list aspec)) * list rec * bytes * list item)%type.
Definition tcut := (nat * (nat * nat * list item * ending))%type.
Definition dflt : tcase := ([], [], [], []).
"""
POST = """
Definition getc (ci : nat) : tcase := nth ci cases dflt.
Definition cr (p : tcut) : cutres :=
  let '(ci, (n, k, extra, e)) := p in let '(_, _, _, full) := getc ci in
  {| c_n := n; c_items := firstn k full ++ extra; c_end := e |}.
Definition on (f : list (N * N * (list aspec * list aspec)) -> list rec -> bytes -> cutres -> bool) (p : tcut) : bool :=
  let '(envl, rs, file, _) := getc (fst p) in f envl rs file (cr p).
"""


def parse_harness(out, errdir_prefix):
    """-> {n: (items, ending, flags)}; item = (t, ty, more, depth, addr, len|None, bytes|None)"""
    res, cur, items, ended = {}, None, [], False
    for line in out.splitlines():
        k = line.split()
        if not k:
            continue
        if k[0] == "CUT":
            cur, items, ended = int(k[1]), [], None
        elif k[0] == "R":
            items.append((int(k[1]), int(k[2]), int(k[3]), int(k[4]), int(k[5]), None, None))
        elif k[0] == "P":
            items.append((int(k[1]), int(k[2]), int(k[3]), int(k[4]), int(k[5]), int(k[6]),
                          bytes.fromhex(k[7]) if len(k) > 7 else b""))
        elif k[0] == "END":
            ended = k[1]
        elif k[0] == "STATUS":
            n, st, sig = int(k[1]), int(k[2]), int(k[3])
            err = ""
            p = "%s.stderr.%d" % (errdir_prefix, n)
            if os.path.exists(p):
                err = open(p, errors="replace").read()
                os.unlink(p)
            flags = []
            if "Sanitizer" in err or "runtime error:" in err:
                flags.append("sanitizer")
            if sig or st == -1:
                flags.append("signal %d" % sig)
            if ended == "open-failed" and n == 0 and st == 3 and not items:
                ending = "EEof"          # an empty task file is refused as a whole (ENODATA): no record, end of data
            elif ended == "eof" and st == 0:
                ending = "EBadMagic" if "invalid rstack read" in err else "EEof"
            elif st == 1 and "record missing argument info" in err:
                ending = "EMissingArg"
            elif st == 1 and "unknown event has data" in err:
                ending = "EUnknownEvent"
            elif ended == "runaway":
                ending = "ECrash"
                flags.append("the reader returned more records than the file can hold (it does not advance: hang)")
            elif "ASSERT" in err:
                ending = "EAssert"
            else:
                ending = "ECrash"
                flags.append("unexpected end: status=%d end=%s stderr=%s" % (st, ended, err[-300:]))
            res[n] = (items, ending, flags, err[-1500:])
    return res


def run_stream_case(harness, root, case, cuts):
    d = os.path.join(root, "d")
    if os.path.exists(root):
        shutil.rmtree(root)
    os.makedirs(root)
    full = write_dir(case, d)
    fullp = os.path.join(root, "full.dat")
    open(fullp, "wb").write(full)
    rc, out, err = sh([harness, d, "100", fullp], input="".join("%d\n" % n for n in cuts), env=SAN_ENV, timeout=600)
    if rc != 0:
        raise RuntimeError("c12 harness failed rc=%d: %s" % (rc, err[-500:]))
    res = parse_harness(out, d)
    shutil.rmtree(root, ignore_errors=True)
    return full, res


def case_json(case, full, n=None, impl=None):
    j = {"argspec": case["argspec"], "retspec": case["retspec"],
         "syms": [[a, s, t, nm] for a, s, t, nm in case["syms"]], "specs": case["specs"],
         "recs": [{"t": r["t"], "type": r["type"], "depth": r["depth"], "addr": r["addr"], "more": r["more"],
                   "pl": [r["pl"][0]] + ([[(k, v.hex()) for k, v in r["pl"][1]]] if r["pl"][0] == "args"
                                         else [r["pl"][1].hex()] if r["pl"][0] == "event" else [])}
                  for r in case["recs"]],
         "file_hex": full.hex()}
    if case.get("extra"):
        j["extra"] = [{"tid": e["tid"], "pid": e["pid"], "ppid": e.get("ppid"), "start": e["start"],
                       "recs": [[r["t"], r["type"], r["depth"], r["addr"]] for r in e["recs"]]} for e in case["extra"]]
    if n is not None:
        j["cut"] = n
    if impl is not None:
        j["impl"] = {"items": [[*it[:6], it[6].hex() if it[6] is not None else None] for it in impl[0]],
                     "ending": impl[1], "flags": impl[2], "stderr": impl[3]}
    return j


def case_from_json(j):
    recs = []
    for r in j["recs"]:
        if r["pl"][0] == "args":
            pl = ("args", [(k, bytes.fromhex(v)) for k, v in r["pl"][1]])
        elif r["pl"][0] == "event":
            pl = ("event", bytes.fromhex(r["pl"][1]))
        else:
            pl = ("none",)
        recs.append(dict(t=r["t"], type=r["type"], depth=r["depth"], addr=r["addr"], more=r["more"], pl=pl))
    extra = [{"tid": e["tid"], "pid": e["pid"], "ppid": e.get("ppid"), "start": e["start"],
              "recs": [dict(t=r[0], type=r[1], depth=r[2], addr=r[3], more=0, pl=("none",)) for r in e["recs"]]}
             for e in j.get("extra", [])]
    return {"syms": [tuple(s) for s in j["syms"]], "specs": [(a, r) for a, r in j["specs"]], "recs": recs,
            "argspec": j["argspec"], "retspec": j["retspec"], "extra": extra}


def evaluate_stream(ctx, cases, results, name="stream"):
    """cases: list of (case, full, {n: impl}); returns dict of index lists + the flat cut list"""
    case_terms, cut_terms, flat = [], [], []
    for ci, (case, full, res) in enumerate(cases):
        fullitems = res[len(full)][0] if len(full) in res else []
        case_terms.append("(%s,\n  [%s],\n  %s,\n  [%s])" % (coq_envl(case), ";\n   ".join(coq_rec(r) for r in case["recs"]),
                                                          coq_bytes(full), "; ".join(coq_item(i) for i in fullitems)))
        for n in sorted(res):
            items, ending, flags, _ = res[n]
            k = 0
            while k < len(items) and k < len(fullitems) and items[k] == fullitems[k]:
                k += 1
            cut_terms.append("(%d, (%d, %d, [%s], %s))" % (ci, n, k, "; ".join(coq_item(i) for i in items[k:]), ending))
            flat.append((ci, n))
    defs = "Definition cases : list tcase := [\n%s\n].\nDefinition cuts : list tcut := [\n%s\n].\n" % (
        ";\n".join(case_terms), ";\n".join(cut_terms)) + POST
    r = coq.run_cases(ctx, name, PRE, defs, [
        ("wf", "bad_indices (fun c : tcase => let '(envl, rs, file, _) := c in "
               "wf_recs (lookup_range envl) evsize_repo rs && bytes_eqb file (enc rs)) cases 0"),
        ("mismatch", "bad_indices (on (fun envl rs file c => agrees true envl file c)) cuts 0"),
        ("violations", "bad_indices (on (fun envl rs file c => okc envl rs c)) cuts 0"),
        ("legacy_class", "bad_indices (on (fun envl rs file c => negb (in_defect_class rs c))) cuts 0"),
    ])
    if r is None:
        return None, flat
    return {k: coq.parse_nat_list(v) for k, v in r.items()}, flat


def viol(ctx, kind, what, replay, found=True, cap=3):
    """report at most `cap` violations of one kind (a broken reader fails on hundreds of cuts)"""
    cnt = ctx.extra.setdefault("violations_by_kind", {})
    cnt[kind] = cnt.get(kind, 0) + 1
    if cnt[kind] <= cap:
        ctx.violation(what, replay, found)


def stream_tie(ctx, objdir, harness):
    rng = ctx.rng
    todo = []
    ncase = ctx.n(8, 36)
    for i in range(ncase):
        small = i % 3 != 2
        case = gen_case(rng, rng.randrange(3, 9) if small else rng.randrange(6, 14), small=small)
        spans, size = record_spans(case)
        todo.append((i, case, size, pick_cuts(rng, case, size, ctx.n(330, 700))))

    def one(t):
        i, case, size, cuts = t
        full, res = run_stream_case(harness, os.path.join(ctx.scratch, "s%d" % i), case, cuts)
        assert len(full) == size, "encoder/offset mismatch"
        return (case, full, res)
    with ThreadPoolExecutor(8) as ex:
        cases = list(ex.map(one, todo))
    # evaluate in chunks (keeps each cases file of moderate size)
    for k in range(0, len(cases), 40):
        verdict_stream(ctx, cases[k:k + 40], "stream%d" % (k // 40))
    return cases


def verdict_stream(ctx, cases, name="stream"):
    res, flat = evaluate_stream(ctx, cases, None, name)
    # sanitizer / crash inside the reader itself is a violation whatever the class
    for ci, (case, full, r) in enumerate(cases):
        spans, _ = record_spans(case)
        for n, (items, ending, flags, err) in r.items():
            tags = classify_cut(spans, n)
            ctx.case(key=("stream", full.hex()[:64], len(full), n), nontrivial=n > 16, tags=tags, size=n,
                     sample=case_json(case, full, n, r[n]) if (len(ctx.samples) < 2 and "in:string-body" in tags) else None)
            if flags:
                viol(ctx, "stream-crash", "the stream reader crashed / tripped a sanitizer on a truncated task file (%s)" % "; ".join(flags)[:300],
                              {"mode": "stream", "case": case_json(case, full, n, r[n])}, True)
    if res is None:
        return
    if res["wf"]:
        ctx.broken("C12 generator produced a case the model calls ill-formed or encodes differently (case %s)" % res["wf"][:3])
    ctx.extra["stream_cuts"] = ctx.extra.get("stream_cuts", 0) + len(flat)
    ctx.extra["stream_cuts_in_former_defect_class"] = ctx.extra.get("stream_cuts_in_former_defect_class", 0) + len(res["legacy_class"])
    for i in res["violations"]:
        ci, n = flat[i]
        case, full, r = cases[ci]
        viol(ctx, "stream-checker", "C12 violated by the record reader: on a file cut at byte %d it reports something other than the "
             "completely present records with their complete payloads (or ends other than by end-of-data / diagnostic)" % n,
             {"mode": "stream", "case": case_json(case, full, n, r[n])}, True)
    mm = res["mismatch"]
    ctx.extra["disagreements_checked"] = ctx.extra.get("disagreements_checked", 0) + len(mm)
    if mm and not res["violations"]:
        ci, n = flat[mm[0]]
        case, full, r = cases[ci]
        viol(ctx, "stream-mismatch", "model and implementation of the record reader disagree on %d cut(s); the property checker "
             "accepts the implementation on every explored cut" % len(mm),
             {"correspondence": "C12.Model.read_stream true vs utils/fstack.c read_task_ustack",
              "mode": "stream", "first_disagreement": case_json(case, full, n, r[n])}, False, cap=1)


def classify_cut(spans, n):
    for off, he, pe, end, pieces in spans:
        if off <= n < end:
            if n == off:
                return ["at:record-boundary"]
            if n < he:
                return ["in:16-byte-header"]
            if n == he and pieces:
                return ["at:header-end"]
            if n < pe:
                lo = he
                for j, (b, label) in enumerate(pieces):
                    if n < b:
                        t = ["at:argument-boundary"] if n == lo else ["in:" + label]
                        return t + ["payload-first-piece" if j == 0 else "payload-later-piece"]
                    lo = b
            return ["at:payload-end"] if n == pe else ["in:8-byte-filler"]
    return ["at:end-of-file"]



# ---------------------------------------------------------------------------------- task list reader (in-process)
TT_PRE = """From Coq Require Import NArith List Bool.
Import ListNotations.
Require Import UV.C12.Model UV.C12.TextModel.
"""


def tt_render(e):
    """mirror of TextModel.render (the Coq side reads the same line bytes back and compares entries)"""
    def st(t):
        return b"%d.%09d" % (t // 10**9, t % 10**9)
    if e[0] == "T":
        return b"TASK timestamp=%s tid=%d pid=%d" % (st(e[1]), e[2], e[3])
    if e[0] == "F":
        return b"FORK timestamp=%s pid=%d ppid=%d" % (st(e[1]), e[2], e[3])
    return b'SESS timestamp=%s pid=%d sid=%s exename="%s"' % (st(e[1]), e[2], e[3], e[4])


def gen_tasktxt(rng):
    times = sorted(rng.choice([0, 1, 999999999, 10**9, 10**9 + 1, rng.randrange(10**13), rng.randrange(10**6)]) for _ in range(8))
    pid0 = rng.choice([1, 9, 10, 100, 4194303, rng.randrange(1, 99999)])
    lines = [tt_render(("S", times[0], pid0, b"%016x" % rng.getrandbits(64),
                        rng.choice([b"/fake/prog", b"/a dir/with space/p", b"/x/exename=y", b"p", b"/q/" + b"n" * 40])))]
    tids = [pid0]
    lines.append(tt_render(("T", times[1], pid0, pid0)))
    for i in range(rng.randrange(1, 5)):
        tid = rng.choice([x for x in (pid0 + i + 1, rng.randrange(1, 10**6), 10 ** rng.randrange(1, 7)) if x not in tids] or [pid0 + 100 + i])
        tids.append(tid)
        if rng.random() < 0.5:
            lines.append(tt_render(("F", times[2 + i], tid, rng.choice(tids[:-1]))))
        else:
            lines.append(tt_render(("T", times[2 + i], tid, pid0)))
        if rng.random() < 0.2:
            lines.append(rng.choice([b"# a comment", b"", b"TAS", b"LOST 12", b"task timestamp=1.0 tid=1 pid=1"]))
    return lines


def tasktxt_tie(ctx, objdir):
    exe = os.path.join(ctx.scratch, "c12_tasktxt")
    rng = ctx.rng
    cases = []
    for i in range(ctx.n(3, 24)):
        lines = gen_tasktxt(rng)
        full = b"".join(l + b"\n" for l in lines)
        root = os.path.join(ctx.scratch, "tt%d" % i)
        d = os.path.join(root, "d")
        os.makedirs(d)
        fullp = os.path.join(root, "full")
        open(fullp, "wb").write(full)
        rc, out, err = sh([exe, d, fullp], input="".join("%d\n" % n for n in range(len(full) + 1)), env=SAN_ENV, timeout=600)
        if rc != 0:
            raise RuntimeError("c12_tasktxt failed rc=%d: %s" % (rc, err[-500:]))
        res, cur = {}, None
        for line in out.splitlines():
            k = line.split()
            if k[0] == "CUT":
                cur = {"ret": None, "S": [], "T": []}
            elif k[0] == "RET":
                cur["ret"] = int(k[1])
            elif k[0] == "S":
                cur["S"].append((int(k[1]), int(k[2]), b"" if k[3] == "-" else bytes.fromhex(k[3]), b"" if k[4] == "-" else bytes.fromhex(k[4])))
            elif k[0] == "T":
                cur["T"].append((int(k[1]), int(k[2]), int(k[3]), int(k[4])))
            elif k[0] == "STATUS":
                n = int(k[1])
                ep = "%s.stderr.%d" % (d, n)
                e = open(ep, errors="replace").read() if os.path.exists(ep) else ""
                cur["flags"] = (["sanitizer"] if ("Sanitizer" in e or "runtime error:" in e) else []) + \
                               (["status %s signal %s" % (k[2], k[3])] if (k[2] != "0" or k[3] != "0") else [])
                cur["stderr"] = e[-800:]
                res[n] = cur
        shutil.rmtree(root, ignore_errors=True)
        cases.append((lines, full, res))
    case_terms, cut_terms, flat = [], [], []
    for ci, (lines, full, res) in enumerate(cases):
        case_terms.append("[%s]" % ";\n  ".join(coq_bytes(l) for l in lines))
        for n in sorted(res):
            r = res[n]
            tag = ("at-line-boundary" if full[:n].endswith(b"\n") or n == 0 else
                   "in-last-number" if re.search(rb"(pid|ppid)=\d+$", full[:n].rsplit(b"\n", 1)[-1]) else
                   "in-exename" if b'exename="' in full[:n].rsplit(b"\n", 1)[-1] else "mid-line")
            ctx.case(key=("tasktxt", full.hex()[:48], n), nontrivial=n > 0, tags=["tasktxt:" + tag], size=n)
            if r["flags"] or r["ret"] is None:
                viol(ctx, "tasktxt-crash", "read_task_txt_file crashed / tripped a sanitizer on a task.txt cut at byte %d (%s)"
                     % (n, "; ".join(r["flags"])), {"mode": "tasktxt", "lines": [l.hex() for l in lines], "cut": n, "stderr": r["stderr"]}, True)
                continue
            tasks = "; ".join("(%d, %d, %d, %d)%%N" % t for t in sorted(r["T"]))
            sess = "; ".join("(%d%%N, %d%%N, %s, %s)" % (t, p, coq_bytes(a), coq_bytes(b)) for t, p, a, b in sorted(r["S"]))
            cut_terms.append("(%d, {| tt_n := %d; tt_ok := %s; tt_tasks := [%s]; tt_sess := [%s] |})"
                             % (ci, n, "true" if r["ret"] == 0 else "false", tasks, sess))
            flat.append((ci, n))
    defs = ("Definition cases : list (list bytes) := [\n%s\n].\nDefinition cuts : list (nat * ttcut) := [\n%s\n].\n"
            "Definition lines_of_case (ci : nat) : list bytes := nth ci cases [].\n"
            % (";\n".join(case_terms), ";\n".join(cut_terms)))
    r = coq.run_cases(ctx, "tasktxt", TT_PRE, defs, [
        ("wf", "bad_indices (forallb no_nl) cases 0"),
        ("mismatch", "bad_indices (fun p : nat * ttcut => tt_agrees true (text_of (lines_of_case (fst p))) (snd p)) cuts 0"),
        ("violations", "bad_indices (fun p : nat * ttcut => tt_ok_cut (lines_of_case (fst p)) (snd p)) cuts 0"),
    ])
    if r is None:
        return
    res_ = {k: coq.parse_nat_list(v) for k, v in r.items()}
    if res_["wf"]:
        ctx.broken("C12 task.txt generator produced a line with a newline inside")
    ctx.extra["tasktxt_cuts"] = len(flat)

    def rep(i):
        ci, n = flat[i]
        lines, full, rs = cases[ci]
        return {"mode": "tasktxt", "lines": [l.hex() for l in lines], "cut": n,
                "impl": {"ret": rs[n]["ret"], "tasks": rs[n]["T"], "sessions": [(t, p, a.hex(), b.hex()) for t, p, a, b in rs[n]["S"]]}}
    for i in res_["violations"]:
        viol(ctx, "tasktxt-checker", "C12 violated by the task list reader: on a task.txt cut at byte %d it builds tasks / sessions "
             "other than those of the complete lines" % flat[i][1], rep(i), True)
    if res_["mismatch"] and not res_["violations"]:
        viol(ctx, "tasktxt-mismatch", "model and implementation of read_task_txt_file disagree on %d cut(s); the checker accepts "
             "the implementation on every explored cut" % len(res_["mismatch"]),
             dict(rep(res_["mismatch"][0]), correspondence="C12.TextModel.read_task_txt true vs utils/data-file.c read_task_txt_file"),
             False, cap=1)
    ctx.extra["disagreements_checked"] = ctx.extra.get("disagreements_checked", 0) + len(res_["mismatch"])


# ---------------------------------------------------------------------------------- end-to-end
def canon_out(s):
    s = re.sub(r"# recorded on.*", "# recorded on X", s)
    s = re.sub(r'"recorded_time":"[^"]*"', '"recorded_time":"X"', s)       # dump --chrome: mtime of the info file
    return s


def benign_ubsan(err):
    """UBSan reports other than `null pointer passed as argument N, which is declared to never be null`
    (bsearch/qsort/memcpy on an empty table) and a zero-length variable length array (cmds/graph.c save_backtrace_addr
    with an empty stack returns before using it): no access happens"""
    lines = [l for l in err.splitlines() if "runtime error:" in l]
    return all("null pointer passed as argument" in l or "variable length array bound evaluates to non-positive value 0" in l
               for l in lines)


def run_cmds(uft, root, files, cmds=None, second=None):
    """files: {name: bytes}; runs the commands (labels of ARGV; default: the five plain ones) on a fresh directory `d`
    under root; returns {label: (rc, out, err)}"""
    d = os.path.join(root, "d")
    for dd, fs in ((d, files), (os.path.join(root, "b"), second)):
        if fs is None:
            continue
        os.makedirs(dd, exist_ok=True)
        for name, b in fs.items():
            with open(os.path.join(dd, name), "wb") as f:
                f.write(b)
    res = {}

    def limit():        # a command that prints for ever is stopped by SIGXFSZ instead of filling memory or the disk
        resource.setrlimit(resource.RLIMIT_FSIZE, (4 << 20, 4 << 20))
    for i, c in enumerate(cmds or CMDS):
        so, se = os.path.join(root, "out.%d" % i), os.path.join(root, "err.%d" % i)
        try:
            with open(so, "wb") as fo, open(se, "wb") as fe:
                p = subprocess.run(["timeout", "-s", "KILL", "10", uft] + ARGV[c] + ["--no-pager", "-d", "d"], cwd=root,
                                   stdout=fo, stderr=fe, env=dict(os.environ, **SAN_ENV), timeout=30, preexec_fn=limit)
            rc = p.returncode
        except subprocess.TimeoutExpired:
            rc = 124
        out = open(so, "rb").read(1 << 20).decode(errors="replace")
        err = open(se, "rb").read(1 << 20).decode(errors="replace")
        res[c] = (rc, canon_out(out), err)
    shutil.rmtree(root, ignore_errors=True)
    return res


def is_task(fname):
    """<tid>.dat"""
    return re.match(r"^\d+\.dat$", fname) is not None


def is_binary(fname):
    return is_task(fname) or fname.startswith("perf-cpu")


def text_lines(content, fname):
    """(prefix, [lines with their newline]) of a text file (info: the 40-byte binary header is the prefix)"""
    pre, body = (content[:40], content[40:]) if fname == "info" else (b"", content)
    return pre, body.splitlines(True)


def e2e(ctx, objdir):
    uft = os.path.join(objdir, "uftrace")
    rng = ctx.rng
    ndirs = ctx.n(1, 1)
    nvar = ctx.n(8, len(VARIANTS))
    variants = [c for c, _ in VARIANTS[:nvar]] + [c for c, _ in FILTERS[:ctx.n(5, len(FILTERS))]]
    allcmds = CMDS + variants
    for di in range(ndirs):
        case = gen_case(rng, ctx.n(9, 16), small=True, nested=True)
        root = os.path.join(ctx.scratch, "e2e%d" % di)
        os.makedirs(root)
        write_dir(case, os.path.join(root, "src"))
        files = {n: open(os.path.join(root, "src", n), "rb").read() for n in sorted(os.listdir(os.path.join(root, "src")))}
        full = files["100.dat"]
        dats = sorted(f for f in files if is_task(f))
        # the model decides, for every cut of the main task file, the length of the copy cut at the last whole record
        defs = ("Definition envl : list (N * N * (list aspec * list aspec)) := %s.\nDefinition rs : list rec := [%s].\n" % (coq_envl(case), ";\n ".join(coq_rec(r) for r in case["recs"])))
        r = coq.run_cases(ctx, "e2e%d" % di, PRE, defs, [
            ("ok", "wf_recs (lookup_range envl) evsize_repo rs && bytes_eqb (enc rs) %s" % coq_bytes(full)),
            ("whole", "map (fun n => length (enc (whole_prefix rs n))) (seq 0 (S (length (enc rs))))"),
            ("model_ok", "forallb (fun n => result_eqb (model_on true envl (enc rs) n) (map full_item (whole_prefix rs n), EEof)) "
                         "(seq 0 (S (length (enc rs))))"),
        ])
        if r is None:
            return
        if r["ok"] != "true":
            ctx.broken("C12 e2e: generated directory is not what the model's encoder writes")
            return
        if r["model_ok"] != "true":
            ctx.broken("C12 e2e: the model no longer reports exactly the whole records on every cut of the generated task file")
        whole_main = coq.parse_nat_list(r["whole"])
        spans, _ = record_spans(case)

        def whole(fname, n):
            """length of the copy cut at the last whole record (the other task files hold 16-byte records only)"""
            return whole_main[n] if fname == "100.dat" else n - n % 16

        def line_start(fname, n):
            """length of the copy cut at the last complete line (info: never below its 40-byte binary header)"""
            c = files[fname][:n]
            k = c.rfind(b"\n") + 1
            return max(k, 40) if fname == "info" else k

        def unterminated(fname, n):
            if is_binary(fname) or (fname == "info" and n <= 40):
                return False
            return line_start(fname, n) != n

        # ---- jobs: (file, mode, n): mode "cut" (first n bytes), "missing", "drop" (line n removed, the rest kept)
        jobs = []
        for fname, content in files.items():
            if ctx.thorough() and len(content) <= 2000:
                cuts = list(range(len(content) + 1))
            elif fname.endswith((".dbg", ".sym")):
                # quick: of every line the first 30 byte positions (.sym: up to the first byte of the name; .dbg: the stubs
                # F / F: / L: and the line number), then every 4th byte, and the line ends
                cuts = [n for n in range(len(content) + 1)
                        if n - (content[:n].rfind(b"\n") + 1) <= (30 if fname.endswith(".sym") else 8)
                        or (n - (content[:n].rfind(b"\n") + 1)) % 4 == 0 or content[n:n + 1] == b"\n" or n == len(content)]
            elif fname == "100.dat":
                # quick: every record / header / argument-piece boundary +-2, at least two cuts inside every piece (so
                # every string body), every 4th byte of the rest (the in-process tie reads every cut of such files)
                cs = {0, 1, len(content)} | set(range(0, len(content) + 1, 4))
                for off, he, pe, end, pieces in spans:
                    lo = he
                    for b in [off, he, pe, end] + [q[0] for q in pieces]:
                        cs |= {x for x in range(b - 2, b + 3) if 0 <= x <= len(content)}
                    for b, _ in pieces:
                        cs |= {(lo + b) // 2, lo + 1}
                        lo = b
                cuts = sorted(cs)
            elif fname.startswith("perf-cpu"):
                # quick: every event boundary and header end +-1, every 8th byte
                cs, off = {0, len(content)} | set(range(0, len(content) + 1, 8)), 0
                while off + 8 <= len(content):
                    size = struct.unpack_from("<H", content, off + 6)[0]
                    cs |= {x for b in (off, off + 8, off + size) for x in (b - 1, b, b + 1) if 0 <= x <= len(content)}
                    off += max(size, 8)
                cuts = sorted(cs)
            elif is_task(fname):
                # the payload-free files of the other tasks (quick): record boundaries +-1 and every 5th byte
                cuts = sorted(set(x for b in range(0, len(content) + 1, 16) for x in (b - 1, b, b + 1) if 0 <= x <= len(content))
                              | set(range(0, len(content) + 1, 5)))
            else:
                # quick tier, text files: every position next to a token separator (all line boundaries +-1, after
                # `:` `=` blank and quote) and every 11th byte of the rest; the 40-byte binary header of info completely
                cs = {0, len(content)} | set(range(0, len(content) + 1, 11))
                for i, ch in enumerate(content):
                    if ch in b"\n":
                        cs |= {i, i + 1, min(i + 2, len(content))}
                    elif ch in b":=\"" or (ch in b" " and fname in ("task.txt", "info")) or (fname == "info" and i < 41):
                        cs |= {i + 1}
                if len(content) > 2000:
                    cs = set(x for x in cs if x < 400 or x > len(content) - 400) | set(rng.randrange(len(content) + 1) for _ in range(150))
                cuts = sorted(cs)
            jobs += [(fname, "cut", n) for n in cuts]
            jobs.append((fname, "missing", 0))
            if fname in ("task.txt", "info"):
                # whole-line damage stated explicitly: every single line dropped (SESS / TASK / FORK lines of task.txt,
                # every `key:value` line of info), the other lines kept
                jobs += [(fname, "drop", i) for i in range(len(text_lines(content, fname)[1]))]
            if fname in ("task.txt", "info") or fname.endswith(".dbg"):
                # a line reduced to its first 1..3 bytes, newline kept (n = 64 * line + bytes): the malformed-line paths of
                # the line parsers, which a prefix cut no longer reaches where an unterminated last line is ignored
                jobs += [(fname, "stub", 64 * i + k) for i in range(len(text_lines(content, fname)[1]))
                         for k in ((1, 2, 3) if ctx.thorough() else (1 + i % 2, 3))]
            if fname.endswith(".sym"):
                # a symbol line that ends before its name ("<addr> <size> <type> " is 28 bytes), newline kept: it names no
                # symbol, so the commands must print what they print without that line (the drop job of the same line)
                nl = len(text_lines(content, fname)[1])
                jobs += [(fname, "drop", i) for i in range(nl)]
                jobs += [(fname, "stub", 64 * i + k) for i in range(2, nl)
                         for k in (range(1, 29) if ctx.thorough() else (16, 17, 25, 26, 27, 28))]

        def with_variants(job):
            """quick tier: the option variants run on the whole-line and whole-record damage, on everything next to it,
            and on a regular sample of the other cuts; thorough: on every job"""
            fname, mode, n = job
            if ctx.thorough() or mode != "cut":
                return True
            content = files[fname]
            if fname.startswith("perf-cpu"):
                return n % 8 == 0
            if is_task(fname):
                tags = classify_cut(spans, n) if fname == "100.dat" else (["at:record-boundary"] if n % 16 == 0 else [])
                return n == len(content) or any(t.startswith("at:") for t in tags) or n % 16 == 8
            near = [line_start(fname, n), line_start(fname, min(n + 1, len(content)))]
            return n in (0, len(content)) or any(abs(n - k) <= 1 for k in near) or (fname == "info" and n <= 41 and n % 8 == 0) or n % 25 == 0

        def exact_damage(job):
            """the cut is exactly at a line boundary (text) or at a record boundary / piece boundary (task data)"""
            fname, mode, n = job
            if fname.startswith("perf-cpu"):
                return False
            if is_task(fname):
                tags = classify_cut(spans, n) if fname == "100.dat" else (["at:record-boundary"] if n % 16 == 0 else [])
                return any(t.startswith("at:") for t in tags)
            return line_start(fname, n) == n

        def content_of(job):
            fname, mode, n = job
            fs = dict(files)
            if mode == "missing":
                del fs[fname]
            elif mode == "drop":
                pre, ls = text_lines(files[fname], fname)
                fs[fname] = pre + b"".join(ls[:n] + ls[n + 1:])
            elif mode == "stub":
                pre, ls = text_lines(files[fname], fname)
                i, k = divmod(n, 64)
                fs[fname] = pre + b"".join(ls[:i] + [ls[i][:k].rstrip(b"\n") + b"\n"] + ls[i + 1:])
            else:
                fs[fname] = files[fname][:n]
            return fs

        hung = []

        def run_job(job):
            if len(hung) >= 3:          # a hanging command is reported by the first cuts; do not wait for each of the rest
                return job, None
            wv = with_variants(job)
            cmds = allcmds if wv else CMDS
            if wv and job[1] == "cut" and 0 < job[2] < len(files[job[0]]) and not exact_damage(job):
                # next to (not at) whole-line / whole-record damage and on the other cuts that get variants (quick: a
                # sample, thorough: all) one third of the variants runs, rotating with the cut position
                cmds = CMDS + [c for i, c in enumerate(variants) if i % 3 == job[2] % 3]
            if (not ctx.thorough() and not wv and job[1] == "cut" and job[0] not in ("info", "task.txt", "default.opts")
                    and not is_task(job[0])):
                cmds = [c for c in cmds if c != "info"]     # quick: `uftrace info` opens info, task.txt and the task files only
            if job[1] == "stub" and not ctx.thorough():
                # quick: the malformed-line paths are exercised by the plain commands and the per-task / info consumers
                cmds = CMDS + ["info --task", "report --task", "dump --flame-graph"]
            if job[0].endswith(".sym") and not ctx.thorough() and (job[1] in ("stub", "drop") or (job[1] == "cut" and not wv)):
                cmds = ["replay", "report"]                              # the names (quick): stub vs drop, cut vs copy
            if job[0].endswith(".dbg"):
                if job[1] == "cut" and not wv and not ctx.thorough():
                    cmds = ["replay", "report"]                          # quick, mid-line cuts of a .dbg: its consumers only
                cmds = cmds + [c for c in SRCLINE if c not in cmds]      # the location table: on every damage of a .dbg
            if job[0] == "info" and "dump --flame-graph" not in cmds:
                cmds = cmds + ["dump --flame-graph"]      # reads info.elapsed_time: on every cut of info
            jd = os.path.join(root, "j-%s-%s-%d" % (job[0].replace("/", "_"), job[1], job[2]))
            r_ = run_cmds(uft, jd, content_of(job), cmds)
            if wv and (ctx.thorough() or job[1] != "stub"):
                r_.update(run_cmds(uft, jd + "-diff", files, [DIFF_DAMAGED[0]], second=content_of(job)))
            if any(v[0] in (124, 137, 153) or v[0] < 0 for v in r_.values()):
                hung.append(job)
            return job, r_

        canon_needed = sorted(set((f, whole(f, n)) for f, m, n in jobs if m == "cut" and is_task(f) and n > 0 and whole(f, n) != n)
                              | {(f, 1) for f in dats})

        def run_canon(key):
            fname, n = key
            fs = dict(files)
            fs[fname] = files[fname][:n]
            return key, run_cmds(uft, os.path.join(root, "c-%s-%d" % (fname, n)), fs, allcmds)

        text_canon_needed = sorted(set((f, line_start(f, n)) for f, m, n in jobs if m == "cut" and unterminated(f, n)))

        def run_text_variant(key):
            fname, n, nl = key
            fs = dict(files)
            fs[fname] = files[fname][:n] + (b"\n" if nl else b"")
            return key, run_cmds(uft, os.path.join(root, "t-%s-%d-%d" % (fname.replace("/", "_"), n, nl)), fs,
                                 allcmds if fname in ("task.txt",) or fname.endswith(".sym") else
                                 CMDS + SRCLINE if fname.endswith(".dbg") else None)

        ctx.log("e2e: %d jobs, %d whole-record copies, %d complete-line copies" % (len(jobs), len(canon_needed), len(text_canon_needed)))
        with ThreadPoolExecutor(16) as ex:
            canon = dict(ex.map(run_canon, canon_needed))
            ctx.log("e2e: copies done")
            results = list(ex.map(run_job, jobs))
            ctx.log("e2e: jobs done")
            tcanon = dict(ex.map(run_text_variant, [(f, k, 0) for f, k in text_canon_needed]))
            # the same text followed by a newline is run only where the cut copy neither fails nor equals the canonical copy
            need_nl = []
            for (fname, mode, n), res in results:
                if res is not None and mode == "cut" and unterminated(fname, n):
                    ref = tcanon[(fname, line_start(fname, n), 0)]
                    if any(res[c][0] == 0 and (res[c][0], res[c][1]) != (ref[c][0], ref[c][1]) for c in CMDS if c in res):
                        need_nl.append((fname, n, 1))
            tnl = dict(ex.map(run_text_variant, need_nl))
        partial_accepted = 0
        nruns = 0
        dropres = {(f, n): r for (f, m, n), r in results if m == "drop" and r is not None}
        for (fname, mode, n), res in results:
            if res is None:
                continue
            kind = "dat" if is_task(fname) else "perf" if fname.startswith("perf-cpu") else "sym" if fname.endswith(".sym") else "map" if fname.endswith(".map") else fname
            tags = ["e2e:file=" + kind]
            how = {"cut": "cut at byte %d" % n, "missing": "missing", "drop": "without its line %d" % (n + 1),
                   "stub": "with its line %d reduced to its first %d byte(s)" % (n // 64 + 1, n % 64)}[mode]
            if mode == "missing":
                tags.append("e2e:file-missing")
            elif mode == "stub":
                tags.append("e2e:line-stub:" + kind)
            elif mode == "drop":
                pre, ls = text_lines(files[fname], fname)
                tags.append("e2e:line-dropped:" + (ls[n][:4].decode(errors="replace") if fname == "task.txt" else
                                                   ls[n].split(b":")[0].decode(errors="replace")))
            elif fname == "100.dat":
                tags += ["e2e:" + t for t in classify_cut(spans, n)]
            elif fname.startswith("perf-cpu"):
                tags.append("e2e:perf:" + ("in:8-byte-event-header" if n % 8 and n < 8 else "cut"))
            elif is_task(fname):
                tags.append("e2e:other-task:" + ("at:record-boundary" if n % 16 == 0 else "in:16-byte-header"))
            else:
                body = files[fname][:n][40:] if fname == "info" else files[fname][:n]
                if fname == "info" and n < 40:
                    tags.append("e2e:in-binary-header")
                elif body.endswith(b"\n") or not body:
                    tags.append("e2e:at-line-boundary")
                    if fname == "task.txt" and 0 < n < len(files[fname]):
                        tags.append("e2e:task.txt-trailing-lines-missing")
                elif files[fname][n:n + 1] == b"\n":
                    tags.append("e2e:line-boundary-1")
                else:
                    tags.append("e2e:mid-line")
            if len(res) > len(CMDS) + 1:
                tags.append("e2e:with-option-variants" if len(res) > len(CMDS) + 10 else "e2e:with-a-third-of-the-variants")
            ctx.case(key=("e2e", di, fname, mode, n), nontrivial=(mode != "cut" or n > 0), tags=tags, size=max(n, 0))
            for c in res:
                nruns += 1
                rc, out, err = res[c]
                rep = {"mode": "e2e", "file": fname, "damage": mode, "cut": n, "command": c, "rc": rc, "stderr": err[-1500:],
                       "stdout": out[-600:], "case": case_json(case, full)}
                san = ("Sanitizer" in err) or ("runtime error:" in err and not benign_ubsan(err))
                if "runtime error:" in err and benign_ubsan(err):
                    ctx.tag("e2e:ubsan-nonnull-on-empty-table")
                if rc == 124 or rc == 137:
                    viol(ctx, "e2e-hang", "uftrace %s did not terminate within 10 s on a directory whose %s is %s" % (c, fname, how), rep, True)
                    continue
                if rc < 0 or 128 < rc < 160 or rc == 153:
                    viol(ctx, "e2e-signal:" + c, "uftrace %s was killed by a signal (rc=%d) on a directory whose %s is %s" % (c, rc, fname, how), rep, True)
                    continue
                if san:
                    viol(ctx, "e2e-sanitizer:%s:%s" % (kind, c), "uftrace %s: crash / out-of-bounds / undefined access (sanitizer report) on a "
                         "directory whose %s is %s" % (c, fname, how), rep, True)
                    continue
                if mode == "stub" and fname.endswith(".sym") and c in dropres.get((fname, n // 64), {}):
                    ref = dropres[(fname, n // 64)][c]
                    if (rc, out) != (ref[0], ref[1]):
                        rep["expected_stdout"] = ref[1][-600:]
                        rep["expected_rc"] = ref[0]
                        viol(ctx, "e2e-symstub", "uftrace %s with line %d of %s reduced to its first %d bytes (no symbol name left) does not "
                             "print what it prints without that line" % (c, n // 64 + 1, fname, n % 64), rep)
                if mode != "cut" or c == DIFF_DAMAGED[0]:
                    continue
                if is_task(fname) and n > 0 and whole(fname, n) != n:
                    wl = whole(fname, n)
                    ref = canon[(fname, wl if wl > 0 else 1)][c]
                    rep["expected_stdout"] = ref[1][-600:]
                    rep["expected_rc"] = ref[0]
                    if (rc, out) == (ref[0], ref[1]):
                        pass                      # exactly as for the copy cut at the last whole record
                    elif not c.startswith("info") and rc != 0 and err.strip() and ref[1].startswith(out):
                        ctx.tag("e2e:diagnostic-exit")      # allowed by the property text; the repaired reader has none
                    else:
                        viol(ctx, "e2e-output:" + c, "uftrace %s on a task file (%s) cut at byte %d neither prints what it prints on the "
                             "copy cut at the last whole record (byte %d) nor stops with a diagnostic and a prefix of that output"
                             % (c, fname, n, wl), rep)
                elif (c in CMDS or fname == "task.txt" or fname.endswith(".sym") or (fname.endswith(".dbg") and c in SRCLINE)) \
                        and unterminated(fname, n):
                    k = line_start(fname, n)
                    ref = tcanon[(fname, k, 0)][c]
                    if fname == "task.txt" or fname.endswith((".dbg", ".sym")):
                        # these readers skip an unterminated last line (C12_task_txt_prefix; .dbg alike): exactly the copy
                        if (rc, out) != (ref[0], ref[1]):
                            rep["expected_stdout"] = ref[1][-600:]
                            rep["expected_rc"] = ref[0]
                            viol(ctx, "e2e-strict:" + kind, "uftrace %s with %s cut at byte %d (inside a line) does not print what it "
                                 "prints on the copy cut at the last complete line (byte %d)" % (c, fname, n, k), rep)
                    elif rc != 0 and err.strip():
                        ctx.tag("e2e:text-rest-rejected")            # diagnostic
                    elif (rc, out) == (ref[0], ref[1]):
                        ctx.tag("e2e:text-rest-ignored-or-invisible")   # as for the copy cut at the last complete line
                    else:
                        alt = tnl.get((fname, n, 1), {}).get(c)
                        if alt is not None and (rc, out) == (alt[0], alt[1]):
                            partial_accepted += 1                      # treated exactly like the same text + newline
                        else:
                            rep["expected_stdout"] = ref[1][-600:]
                            rep["expected_rc"] = ref[0]
                            rep["stdout_with_newline_appended"] = alt[1][-600:] if alt else None
                            viol(ctx, "e2e-text:" + fname, "uftrace %s with %s cut at byte %d (inside a line) prints neither what it prints "
                                 "on the copy cut at the last complete line (byte %d) nor what it prints when the unterminated rest "
                                 "is completed by a newline, and gives no diagnostic" % (c, fname, n, k), rep)
        ctx.extra["e2e_text_runs_unterminated_rest_taken_as_a_line"] = \
            ctx.extra.get("e2e_text_runs_unterminated_rest_taken_as_a_line", 0) + partial_accepted
        ctx.extra["e2e_command_runs"] = ctx.extra.get("e2e_command_runs", 0) + nruns
        ctx.extra["e2e_option_variants"] = variants
        shutil.rmtree(root, ignore_errors=True)


# ---------------------------------------------------------------------------------- entry points
def setup(ctx):
    """proof step (coqc, single-threaded) in a thread while the ASan build is fetched and both harnesses are compiled"""
    import threading
    th = threading.Thread(target=coq.prove, args=(ctx, "C12"))
    th.start()
    try:
        objdir = build.get_build("asan", ctx.log)
        harness = os.path.join(ctx.scratch, "c12_harness")
        tt = os.path.join(ctx.scratch, "c12_tasktxt")

        def comp(a):
            build.cc([os.path.join(HERE, "../harness/c/" + a[0]), build.uf_archive(objdir)], a[1], objdir,
                     extra=["-fsanitize=address,undefined"] + build.UF_LIBS)
        build.uf_archive(objdir)
        with ThreadPoolExecutor(2) as ex:
            list(ex.map(comp, [("c12_harness.c", harness), ("c12_tasktxt.c", tt)]))
    finally:
        th.join()
    return objdir, harness


def common_meta(ctx):
    ctx.rule = ("a case is one (file, truncation length) pair: (1) stream: every cut (exhaustive for task files up to 330 bytes "
                "quick / 700 thorough, else all record/argument boundaries +-2 and 60 random) of generated task files read by the "
                "real read_task_ustack; (2) e2e: every cut of every file of a generated directory (and each file missing) x the five "
                "commands; distinct = distinct (file content, cut); non-trivial = cut beyond the first record header (stream) / "
                "non-empty file (e2e); e2e directories have three tasks (main with payloads, forked child, thread); besides prefix cuts "
                "each file is removed and every single line of task.txt / info is dropped; the option variants listed in "
                "coverage.e2e_option_variants run on whole-line / whole-record damage, its neighbours and a sample (quick) or on every job (thorough)")
    ctx.trusted = [
        "Coq 8.16.1 kernel incl. vm_compute; no axioms (Print Assumptions: closed under the global context)",
        "hand-written model coq/theories/C12/Model.v (read_stream true) of utils/fstack.c (__read_task_ustack, read_task_arg(s), "
        "read_task_event, read_task_ustack) and of stdio fread/fseek/getline on a regular file",
        "generated constants Gen/Consts.v (record bit-field layout, RECORD_MAGIC) and Gen/C12Consts.v (event payload sizes "
        "taken from the text of read_task_event + sizeof of the compiled structs)",
        "harness/c/c12_harness.c + props/c12.py (parsing of harness/uftrace output, lossless prefix compression of item lists, "
        "vf/datadir.py directory writer); ASan/UBSan as the memory-safety monitor of the C readers",
    ]
    ctx.assume = [
        "the data files are regular files that are not modified while they are read; read errors other than end-of-file do not occur",
        "argument specs are looked up by symbol address range (session_find_filter) exactly as lookup_range does; "
        "little-endian 64-bit data read on the same kind of host (no byte/bit swap)",
        "EVENT_ID_WATCH_VAR payloads and the old `task` binary file are not modelled (not generated)",
        "memory safety of the C text itself is monitored by the sanitizer build on the explored cuts, not proved",
        "text files (task.txt, info, .map, .sym): an unterminated last line is handed to the line parsers as it is; judged: "
        "no crash/hang/out-of-bounds, and the run equals the run on the copy cut at the last complete line, or on the same "
        "bytes + newline, or ends with a diagnostic (a rest that still scans, e.g. a shortened number or name, is taken as "
        "the line it spells - recorded as found)",
    ]


def run(ctx):
    common_meta(ctx)
    objdir, harness = setup(ctx)
    corpus_dir = os.path.join(HERE, "../corpus/C12")
    corpus = []
    if os.path.isdir(corpus_dir):
        for f in sorted(os.listdir(corpus_dir)):
            if f.endswith(".json"):
                corpus.append(json.load(open(os.path.join(corpus_dir, f))))
    ccases = []
    for i, j in enumerate(corpus):
        case = case_from_json(j["case"])
        _, size = record_spans(case)
        full, res = run_stream_case(harness, os.path.join(ctx.scratch, "c%d" % i), case, list(range(size + 1)))
        ccases.append((case, full, res))
    if ccases:
        verdict_stream(ctx, ccases, "corpus")
    ctx.log("corpus done")
    stream_tie(ctx, objdir, harness)
    ctx.log("stream tie done")
    tasktxt_tie(ctx, objdir)
    ctx.log("task list tie done")
    e2e(ctx, objdir)
    ctx.log("e2e done")


def replay(ctx, obj):
    common_meta(ctx)
    objdir, harness = setup(ctx)
    j = obj.get("case") or obj.get("first_disagreement")
    if not j:
        ctx.log("replay file has no case; nothing to re-execute")
        return
    case = case_from_json(j)
    _, size = record_spans(case)
    n = j.get("cut", obj.get("cut"))
    if obj.get("mode") == "e2e":
        d = os.path.join(ctx.scratch, "r", "src")
        os.makedirs(d)
        write_dir(case, d)
        files = {x: open(os.path.join(d, x), "rb").read() for x in os.listdir(d)}
        fname = obj["file"]
        damage = obj.get("damage", "missing" if n < 0 else "cut")
        if damage == "missing":
            del files[fname]
        elif damage == "drop":
            pre, ls = text_lines(files[fname], fname)
            files[fname] = pre + b"".join(ls[:n] + ls[n + 1:])
        elif damage == "stub":
            pre, ls = text_lines(files[fname], fname)
            i, k = divmod(n, 64)
            files[fname] = pre + b"".join(ls[:i] + [ls[i][:k].rstrip(b"\n") + b"\n"] + ls[i + 1:])
        else:
            files[fname] = files[fname][:n]
        res = run_cmds(os.path.join(objdir, "uftrace"), os.path.join(ctx.scratch, "r", "job"), files, [obj["command"]])
        rc, out, err = res[obj["command"]]
        ctx.case(key="replay", sample={"rc": rc, "stdout": out[-600:], "stderr": err[-1500:]})
        ctx.log("replayed uftrace %s with %s cut at %s: rc=%d\n%s\n%s" % (obj["command"], fname, n, rc, out[-600:], err[-1500:]))
        if "Sanitizer" in err or ("runtime error:" in err and not benign_ubsan(err)) or rc in (124, 137, 153) or rc < 0 or 128 < rc < 160:
            ctx.violation("replayed case still fails: " + obj.get("what", ""), obj, True)
        return
    cuts = [n] + ([size] if n != size else []) if n is not None else list(range(size + 1))
    full, res = run_stream_case(harness, os.path.join(ctx.scratch, "r"), case, sorted(set(cuts)))
    for c in sorted(res):
        ctx.log("cut %d: impl reports %d record(s), ending %s %s" % (c, len(res[c][0]), res[c][1], res[c][2]))
    verdict_stream(ctx, [(case, full, res)], "replay")
